#!/venv/bin/python
"""Summary of what the last runs covered, from the evidence files (printed as a markdown table)."""
import json
from pathlib import Path

V = Path(__file__).resolve().parent.parent
rows = []
for f in sorted((V / "evidence").glob("C*.json")) + sorted((V / "evidence" / "ext").glob("*.json")):
    e = json.loads(f.read_text())
    c = e["coverage"]
    mcs = c.get("model_checking_runs") or c.get("mc") or []
    ev = c.get("impl_events") or {}
    rows.append((e["property_id"], e["tier"], e["seed"], c.get("states", ""), c.get("transitions", ""), c.get("traces_validated_against_impl", ""),
                 len(ev), sum(ev.values()) if ev else "", len(c.get("known_findings_hit") or {}), e["wall_s"]))
print("| check | tier | seed | spec states | transitions | impl traces validated | event kinds | impl events | known findings hit | wall s |")
print("|---|---|---|---|---|---|---|---|---|---|")
for r in rows:
    print("| " + " | ".join(str(x) for x in r) + " |")
