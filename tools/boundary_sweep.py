#!/venv/bin/python
"""Exploratory tool (not a registered check, no verdict): one-factor-at-a-time mutation of a shipped scenario towards its
boundaries - every boolean flipped, every integer set to 0 and 1, every float to 0.0, every list reversed, every mapping
written in the opposite key order - each mutant loaded through PrimaiteGymEnv and stepped a few times with the weak oracle
"loads or is rejected by validation; observations are members of the declared space".  Anything else is printed for triage.
It found the empty-Dict flattening finding (C02) and the link-order RecursionError (C20), see DESIGN.md 11.4; both are now
watched by the registered checks.  usage: boundary_sweep.py [upper index [lower index]]"""
import copy, json, sys, random, collections, traceback
sys.path.insert(0, "/verif")
from harness import common, scenarios
common.boot()
import warnings; warnings.filterwarnings("ignore")
from primaite.session.environment import PrimaiteGymEnv

def leaves(o, path=()):
    if isinstance(o, dict):
        for k, v in o.items():
            yield from leaves(v, path + (k,))
    elif isinstance(o, list):
        for i, v in enumerate(o):
            yield from leaves(v, path + (i,))
    else:
        yield path, o

def containers(o, path=()):
    if isinstance(o, dict):
        yield path, o
        for k, v in o.items():
            yield from containers(v, path + (k,))
    elif isinstance(o, list):
        yield path, o
        for i, v in enumerate(o):
            yield from containers(v, path + (i,))

def setp(cfg, path, val):
    o = cfg
    for k in path[:-1]:
        o = o[k]
    o[path[-1]] = val

def getp(cfg, path):
    o = cfg
    for k in path:
        o = o[k]
    return o

def mutants(cfg):
    for path, v in leaves(cfg):
        if isinstance(v, bool):
            yield ("flip", path, not v)
        elif isinstance(v, int):
            for nv in (0, 1):
                if nv != v:
                    yield ("int", path, nv)
        elif isinstance(v, float):
            if v != 0.0:
                yield ("float0", path, 0.0)
    for path, c in containers(cfg):
        if isinstance(c, list) and len(c) > 1:
            yield ("reverse", path, list(reversed(c)))
        if isinstance(c, dict) and len(c) > 1 and path:
            yield ("keyorder", path, dict(reversed(list(c.items()))))

def run(cfg, steps=6):
    env = PrimaiteGymEnv(env_config=copy.deepcopy(cfg))
    obs, _ = env.reset(seed=3)
    bad = []
    if not env.observation_space.contains(obs):
        bad.append("obs-not-in-space@reset")
    for i in range(steps):
        obs, r, te, tr, info = env.step(i % env.action_space.n)
        if not env.observation_space.contains(obs):
            bad.append(f"obs-not-in-space@{i}")
            break
    env.close()
    return bad

base = scenarios.shipped("data_manipulation.yaml")
io = base.setdefault("io_settings", {})
for f in ("save_agent_actions", "save_step_metadata", "save_pcap_logs", "save_sys_logs", "save_agent_logs"):
    io[f] = False
ms = list(mutants(base))
random.Random(0).shuffle(ms)
lim = int(sys.argv[1]) if len(sys.argv) > 1 else 300
res = collections.Counter(); ex = {}
lo = int(sys.argv[2]) if len(sys.argv) > 2 else 0
for kind, path, val in ms[lo:lim]:
    c = copy.deepcopy(base)
    setp(c, path, val)
    try:
        bad = run(c)
        key = ("ok",) if not bad else ("BAD", bad[0].split("@")[0])
    except Exception as e:
        tb = traceback.extract_tb(e.__traceback__)
        where = "load" if any(f.name in ("from_config", "__init__") and "environment.py" in f.filename or f.name == "from_config" for f in tb) and not any(f.name == "step" for f in tb) else "run"
        key = ("EXC", where, type(e).__name__)
    res[key] += 1
    ex.setdefault(key, []).append((kind, "/".join(map(str, path)), str(val)[:40]))
for k, v in res.most_common():
    print(v, k, ex[k][:4])
