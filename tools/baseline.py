#!/venv/bin/python
"""Run the repository's pinned baseline (guard OFF) and compare with /root/.vp/BASELINE.json.

Exit 0 iff every test of BASELINE.stable_pass passes."""
import json
import os
import subprocess
import sys
import tempfile
import xml.etree.ElementTree as ET

base = json.load(open("/root/.vp/BASELINE.json"))
out = tempfile.mktemp(suffix=".junit.xml")
env = dict(os.environ)
env.pop("PRIMAITE_VERIF", None)
cmd = base["cmd"].replace("<file>", out)
p = subprocess.run(cmd, shell=True, env=env, capture_output=True, text=True)
passed = set()
for tc in ET.parse(out).getroot().iter("testcase"):
    bad = any(c.tag in ("failure", "error", "skipped") for c in tc)
    if not bad:
        passed.add(f"{tc.get('classname')}::{tc.get('name')}")
os.unlink(out)
want = set(base["stable_pass"])
missing = sorted(want - passed)
print(f"baseline: {len(want & passed)}/{len(want)} stable tests pass; {len(passed)} passed in total")
for m in missing[:50]:
    print("MISSING", m)
sys.exit(1 if missing else 0)
