#!/bin/sh
# Offline set-up: nothing to build; verify the tools the checks need are present and the specs parse.
set -e
cd "$(dirname "$0")/.."
command -v java >/dev/null
test -f /opt/veriftools/tla/tla2tools.jar
/venv/bin/python -c "import yaml, gymnasium, numpy" 
mkdir -p evidence replays
echo "setup ok"
