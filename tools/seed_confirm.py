#!/venv/bin/python
"""Confirm a seeded change produced in a scratch worktree and file it under /verif/seeded/<id>/.

usage: seed_confirm.py <worktree> <Cxx> <seed-id> [--tier quick|thorough] [--no-baseline]

Confirms: (1) the demonstration fails with the change and passes without it, (2) the pinned baseline still
passes with the change, (3) whether `./check Cxx` (run against the worktree via VERIF_REPO) detects it.
"""
import json
import os
import subprocess
import sys
from pathlib import Path

V = Path(__file__).resolve().parent.parent


def sh(cmd, env=None, timeout=3600):
    e = dict(os.environ)
    e.update(env or {})
    p = subprocess.run(cmd, shell=True, capture_output=True, text=True, env=e, timeout=timeout, stdin=subprocess.DEVNULL)
    return p.returncode, (p.stdout + p.stderr)


def main():
    wt, prop, sid = sys.argv[1], sys.argv[2], sys.argv[3]
    tier = sys.argv[sys.argv.index("--tier") + 1] if "--tier" in sys.argv else "quick"
    out = V / "seeded" / sid
    out.mkdir(parents=True, exist_ok=True)
    rc, diff = sh(f"git -C {wt} diff -- src")
    assert diff.strip(), "no source change in the worktree"
    (out / "patch.diff").write_text(diff)
    demo = Path(wt) / "seeded_demo.py"
    (out / "seeded_demo.py").write_text(demo.read_text())
    env = {"PYTHONPATH": f"{wt}/src"}
    rc_with, o1 = sh(f"cd {wt} && /venv/bin/python seeded_demo.py", env)
    # (no `git stash`: the stash is shared by all worktrees of a repository)
    sh(f"git -C {wt} checkout -- src")
    rc_without, o2 = sh(f"cd {wt} && /venv/bin/python seeded_demo.py", env)
    rca, oa = sh(f"git -C {wt} apply {out / 'patch.diff'}")
    assert rca == 0, oa
    base = "skipped"
    prev = out / "meta.json"
    if prev.exists():
        try:
            # a re-confirmation after a check was strengthened keeps the baseline result of the first confirmation
            base = json.loads(prev.read_text())["confirmed"]["baseline_with_change"]
        except Exception:  # noqa
            pass
    if "--no-baseline" not in sys.argv:
        rcb, ob = sh(f"{V}/tools/run_baseline_in.sh {wt}")
        base = [l for l in ob.splitlines() if l.startswith("baseline")][-1:] or [ob[-200:]]
        base = base[0] + ("" if rcb == 0 else "  (FAILED)")
    results = {}
    checks = [prop] + [x for x in sys.argv[4:] if x.startswith("C") and x != prop]
    for c in checks:
        for seed in (0, 1):
            rcc, oc = sh(f"cd {V} && ./check {c} --tier {tier}", {"VERIF_REPO": wt, "VERIF_SEED": str(seed)})
            lines = [l for l in oc.splitlines() if l.startswith("VIOLATION") or l.startswith("  signature") or "MACHINERY" in l or l.startswith(c)]
            results[f"{c}/seed{seed}"] = {"exit": rcc, "lines": lines[:8]}
            if rcc == 1:
                break
    meta = {}
    mp = Path(wt) / "seeded_meta.json"
    if mp.exists():
        try:
            meta = json.loads(mp.read_text())
        except Exception:  # noqa
            meta = {"raw": mp.read_text()[:2000]}
    meta.update(
        {
            "id": sid,
            "property": prop,
            "confirmed": {
                "demo_exit_with_change": rc_with,
                "demo_exit_without_change": rc_without,
                "baseline_with_change": base,
                "commands": [f"PYTHONPATH={wt}/src /venv/bin/python seeded_demo.py (with / without the change)",
                             f"tools/run_baseline_in.sh {wt}", f"VERIF_REPO={wt} ./check {prop} --tier {tier}"],
            },
            "detection": results,
            "detected": any(v["exit"] == 1 for v in results.values()),
        }
    )
    (out / "meta.json").write_text(json.dumps(meta, indent=1))
    print(json.dumps({k: meta[k] for k in ("id", "property", "confirmed", "detected")}, indent=1))
    for k, v in results.items():
        print(k, v["exit"], *v["lines"][:4], sep="\n   ")


if __name__ == "__main__":
    main()
