#!/usr/bin/env python3
"""Regenerate /verif/MANIFEST.json from the table below (kept valid at all times)."""
import json
from pathlib import Path

V = Path(__file__).resolve().parent.parent
PROPS = [json.loads(l)["id"] for l in open(V / "properties.jsonl")]

TRUST = "TLC 1.8.0 + CommunityModules; CPython and the repo's dependencies; the harness' tracer wrappers, projections and driver bindings (DESIGN.md 9)"

CHECKS = {
    "C18": dict(
        category="model_checking",
        text="Link.tla: TLC exhausts the design model (bandwidth 1..5, sizes 1..3, nesting 3, end toggles) for carried<=bw and load<=bw in every state; "
        "TLC-generated schedules are replayed on generated micro networks (p2p/switched/routed, bandwidth of the order of one frame, cold/warm ARP), plus "
        "shipped scenarios and wireless channels; every link's event stream (admission, begin/end of crossing with nesting, tick start, end toggles) is "
        "validated by TLC against LinkTrace.tla.",
        design_ref="6/C18",
        technique="TLA+ model (Link.tla) checked by TLC + TLC trace validation of recorded link events; stimuli from TLC -simulate",
    ),
}
CHECKS["C12"] = dict(
    category="model_checking",
    text="NodePower.tla: TLC exhausts all interleavings of shutdown/startup/reset/other requests, ticks, incoming frames and send attempts for all duration "
    "pairs 0..3 (legal transitions only, exact stay in transitional states, interfaces down unless ON, nothing running when OFF, refusals, liveness of every "
    "started transition); TLC-generated behaviours are replayed on a real two/three-node network around a device under test of every node type "
    "(computer, server, printer, switch, router, firewall, wireless router) and the projected state after every request/tick/frame is validated by TLC "
    "against NodePowerTrace.tla.",
    design_ref="6/C12",
    technique="TLA+ model (NodePower.tla) checked by TLC incl. liveness + TLC-generated behaviours replayed on real nodes + TLC trace validation",
)
CHECKS["C05"] = dict(
    category="model_checking",
    text="Requests.tla: TLC enumerates every manager tree of depth<=3 over two keys with every guard valuation and every path (incl. misspelt keys) and shows that "
    "the observation of a resolution (key present / rule verdict per level) determines its outcome. On live simulations (shipped + generated scenarios, every node "
    "type) every submitted request - all 59 registered action types crossed with live components, uncovered tree leaves, and misspelt/dropped/truncated path "
    "elements - is recorded with the harness' own walk of the manager tree, the response and whole-simulation digests before/after; TLC validates each record "
    "against RequestsTrace.tla (documented status, refused => unreachable/failure with reason and unchanged state, actions naming existing components are never unreachable).",
    design_ref="6/C05",
    technique="TLA+ model of request resolution checked by TLC + TLC trace validation of recorded requests with state digests",
)
CHECKS["C11"] = dict(
    category="model_checking",
    text="Requests.tla: MaskAllows == the resolution reaches its handler; TLC proves the intended check_valid equal to it on all small trees and refutes the leaf-only "
    "variant. On masked environments (shipped data_manipulation, generated action maps drawn from all action types on several topologies) every entry of the action map "
    "at every step, and every request applied by any agent, is recorded as (mask bit, independent walk of the live managers, status) and validated by TLC (MaskExact, "
    "MaskedNeverSucceeds, RefusedNotSuccess), with drivers steering through node shutdown/boot, service restart/disable, application close/install and NIC disable.",
    design_ref="6/C11",
    technique="TLA+ model (Requests.tla) checked by TLC + TLC trace validation of mask bits against an independent walk of the live request tree",
)
CHECKS["C15"] = dict(
    category="model_checking",
    text="FileSystem.tla: items with identity, live/deleted sets, timed folder restore; TLC exhausts every operation sequence to depth 10 over root+1 folder name x 2 file "
    "names (<=5 items; create/delete/restore of files and folders on existing, deleted and never-created targets, ticks) for unique live names, append-only identity and "
    "root permanence. TLC behaviours (exhaustive-domain and a larger simulated domain, depth 30) are replayed on a real host through the request API, the agent-action "
    "door and the folder-level request variants, interleaved with scan/repair/corrupt/access operations; membership of every item ever created in the live/deleted "
    "dictionaries, its own deleted flag, describe_state() and the per-tick counters are projected after every operation and validated by TLC (FileSystemTrace.tla).",
    design_ref="6/C15",
    technique="TLA+ model (FileSystem.tla) bounded-exhaustively checked by TLC + TLC behaviours replayed through three request doors + TLC trace validation",
)
CHECKS["C10"] = dict(
    category="model_checking",
    text="RewardGraph.tla: sharing digraph, declaration order, code-shaped cycle test and evaluation order (science.py) against the declarative acyclicity and "
    "dependencies-first requirements, same-step shared values and totals; TLC is exhaustive over all 512 digraphs on 3 agents x all declaration and neighbour orders "
    "(thorough: all 65,536 digraphs on 4 agents x 24 orders) and refutes the evaluate-in-declaration-order variant. Every (graph, order) of that domain becomes a real "
    "scenario of agents with integer action-penalty and shared-reward components (from_config must raise iff cyclic; accepted ones are stepped), TLC -simulate behaviours "
    "of the generator are replayed with the model's weights, and shipped scenarios run in sticky/non-sticky variants with every reward component's calculate() wrapped; "
    "TLC validates each episode against RewardTrace.tla (weighted sum, same-step sharing, dependencies-first order actually used, sticky memory, non-sticky return to zero, totals).",
    design_ref="6/C10",
    technique="TLA+ model (RewardGraph.tla) exhaustively checked by TLC + generated scenarios per model state + TLC trace validation of recorded reward episodes",
)
CHECKS["C19"] = dict(
    category="model_checking",
    text="Agents.tla: periodic agents (start window, gap window, maximum executions, fixed start node, configured action), probabilistic agents (never a probability-0 entry, "
    "probabilities read by key) and threat-actor kill chains (stage order without skipping, failure/repeat rules, conclusion) at the level of the statement; TLC exhausts "
    "start 0..4, start variance 0..2, frequency 1..4, variance<frequency, max 0..3, 12 ticks and TAP chains of 5/6 stages with both repeat flags (658k states, deadlock "
    "checking on). Settings drawn from the model (tlc -simulate initial states, edge list, full mirrored enumeration in thorough) are run on a generated LAN, and all "
    "shipped scenarios (data_manipulation, scenario_with_placeholders, uc7, uc7_tap003, uc7 attack variants) under random/mixed/passive blue policies; one trace per "
    "scripted agent per episode (history item, action index, kill-chain stage before/after each step) is validated by TLC against AgentsTrace.tla.",
    design_ref="6/C19",
    technique="TLA+ model (Agents.tla) checked by TLC + TLC trace validation of every scripted agent's recorded history and kill-chain stage",
)
CHECKS["C01"] = dict(
    category="model_checking",
    text="Episode.tla: the step/reset pipeline (pre-tick, one action record per agent in declaration order, exactly one tick, return values, reset to a fresh episode); TLC "
    "exhausts all schedules of steps of each action class and resets (mid-episode, past truncation, consecutive episodes; <=3 agents, maxLen<=3) incl. liveness (every "
    "step returns). TLC schedules are replayed on PrimaiteGymEnv for every shipped scenario incl. the three episode-scheduled directories, on the agent-free network "
    "examples through PrimaiteGame.step(), and on generated scenarios whose proxy agent's action map is drawn from all 59 action types incl. entries aimed at missing "
    "components; the pipeline events recorded by wrappers are validated by TLC against EpisodeTrace.tla (no raise, observation returned, finite reward, terminated false, "
    "truncated iff max reached, one tick, one record with a documented response per agent, reset starts afresh).",
    design_ref="6/C01",
    technique="TLA+ model (Episode.tla) checked by TLC incl. liveness + TLC schedules replayed on real environments + TLC trace validation of the step pipeline",
)
CHECKS["C03"] = dict(
    category="exploration",
    text="Pair.tla is a self-composition comparator (the model adds no state space of its own - said plainly): the same declared inputs (scenario, seed, action "
    "sequence, reset points) are executed in separate interpreter processes under different ambient profiles - PYTHONHASHSEED 0..3, a second process later, wall clock "
    "frozen with/without a microsecond part, short/long `secrets`-generated identifiers, logging fully on/off - and re-seeded twice within one environment; TLC validates "
    "every (base, variant) pair position by position against PairTrace.tla and names the first field that differs (observation, reward, flags, per-agent action, "
    "parameters, response status, response data, reward). Scenarios: shipped stochastic scenarios (data_manipulation; thorough: UC7 TAP001/TAP003, scheduled directory) "
    "and generated amplifiers (nmap scans over a /29; links whose bandwidth admits two/eight echo frames only if each is two bytes shorter).",
    design_ref="6/C03",
    technique="paired runs under controlled ambient profiles in separate processes, judged field-wise by a TLA+ trace specification (Pair.tla) in TLC",
)
CHECKS["C04"] = dict(
    category="model_checking",
    text="Instances.tla: two instances with per-instance option cells; TLC exhausts all interleavings of construct/reset/step/close (depth 8) for non-interference and "
    "refutes the process-level-cell variant. TLC-generated interleavings (prioritising the shape of that counterexample, both option orientations) are executed on real "
    "PrimaiteGymEnv instances in one process and instance A's trajectory (observations, rewards, per-agent actions/responses, whole-simulation digests) is compared with "
    "A's solo run in another process; episodes: dirty;reset(seed);sigma vs fresh;reset(seed);sigma with dirtying action classes (deletes, ACL rules, power, services, "
    "installs, sessions, NIC disables) on shipped, scheduled and generated scenarios; ownership: no mutable component/agent object is shared between the old and new game "
    "after reset. All pairs are validated by TLC against PairTrace.tla.",
    design_ref="6/C04",
    technique="TLA+ model (Instances.tla) checked by TLC + TLC-generated interleavings executed on real instances + TLC pair-trace validation against solo/fresh runs",
)
CHECKS["C06"] = dict(
    category="model_checking",
    text="Blocking.tla: a packet from A through one middlebox (switch / router ACL / firewall with per-zone inbound+outbound ACLs) to B, staged as the code runs it "
    "(interface in, each ACL verdict in order, ARP learning, hand-over to the middlebox's own software, forwarding, B's interface); TLC exhausts 3 topologies x zone "
    "placements x one fault at a time (interfaces, ports, links, power) x 10 rule-list shapes on each ACL of the path x 20 packets: structurally blocked => never "
    "arrives, a denied frame is final (action property), an open path delivers (liveness). Configurations drawn from the model are built from scenario dicts; every "
    "frame A emits is followed by wrappers and validated by TLC against BlockingTrace.tla with the rule lists read back from the built ACL objects; for configurations "
    "TLC evaluates as blocked an attack run from A (pings, nmap scans, database/web/FTP clients, data-manipulation bot, ransomware, DoS bot, remote login and commands) "
    "is compared tick by tick with an idle twin on B's own state digest (PairTrace.tla); open configurations where B does change guard against vacuity.",
    design_ref="6/C06",
    technique="TLA+ model (Blocking.tla) checked by TLC incl. liveness + configurations from the model built in the simulator + TLC trace validation of frame walks and attack/idle pairs",
)
CHECKS["C13"] = dict(
    category="model_checking",
    text="Software.tla: all software of one node - service and application operating states, documented acceptance table (action_masking.rst / software docs), timed "
    "restart / install with the 5.2 window (must complete while the node is ON; nothing completes while OFF), payload handling only by RUNNING software on an ON node, "
    "and agreement of the four registries (software manager, node lists, request routes, reported state) with the open ports; TLC exhausts 1 service + 2 applications, "
    "durations 0..2, 3 port layouts (safety 26,880 states; liveness under fair ticks). TLC behaviours plus directed sequences are replayed through the request API for "
    "6 (quick) / all 17 (thorough) shipped service and application types in three variants (disjoint ports, shared ports, listening partner), payloads being frames sent "
    "by a peer host; TLC validates every history against SoftwareTrace.tla.",
    design_ref="6/C13",
    technique="TLA+ model (Software.tla) checked by TLC incl. liveness + TLC behaviours replayed per software type + TLC trace validation",
)
CHECKS["C16"] = dict(
    category="model_checking",
    text="Sessions.tla: accounts, local session, the server's remote-session table with idle counters, client handles, ended ids, power and terminal flags; clauses: a "
    "login needs existing+enabled account, current password, powered-on node and (remote) a free slot; a remote command is executed only through a live session held by "
    "that client; nothing executes on a session after logoff, time-out or a password change of its user; the last enabled administrator stays. TLC exhausts 1 server + 2 "
    "clients, users {admin,u1}, passwords {p,q,wrong}, MaxRemote 2, Timeout 2 to depth 7 (thorough: depth 8 and MaxRemote/Timeout variations). 480 (quick) / 1500 "
    "(thorough) simulated behaviours incl. refused attempts are replayed on three real nodes (server, router or firewall as target) through the agent-action request "
    "API; execution is observed by effect (a fresh folder per command); TLC validates against SessionsTrace.tla.",
    design_ref="6/C16",
    technique="TLA+ model (Sessions.tla) checked by TLC + TLC behaviours replayed on real nodes + TLC trace validation (execution observed by effect)",
)
CHECKS["C17"] = dict(
    category="model_checking",
    text="Database.tla: service state, password, capacity, issued-and-open connection ids with origin, client handles, data file health, backup copy, power, per-client "
    "reachability and the server<->backup path; only-if clauses exactly as the statement (connection only with right password / running / on / reachable / below "
    "capacity; query only on an open issued id; DELETE->COMPROMISED, ENCRYPT->CORRUPT; SELECT on compromised data fails; restore of a healthy backup gives GOOD; nothing "
    "while stopped/off/blocked). TLC exhausts 2 clients, Cap 2, 3 ids + forged to depth 7 (thorough: complete state space for 2 ids). Simulated behaviours are replayed "
    "on a real five-node network behind a router (ACL blocks in either direction, forged/closed/foreign ids as raw payloads, red applications as attack sources, "
    "backup/restore over FTP); every event carries the projection read from the objects; TLC validates against DatabaseTrace.tla.",
    design_ref="6/C17",
    technique="TLA+ model (Database.tla) checked by TLC + TLC behaviours replayed on a real network + TLC trace validation",
)
CHECKS["C02"] = dict(
    category="model_checking",
    text="ObsEncoding.tla: the documented encoding and declared space of every observation leaf group (13 kinds: service, application, file, folder, nic, traffic, port, "
    "host, users, link, acl, router, firewall) as a function of configuration and ground truth; TLC enumerates the complete finite component domain (61,527 states: "
    "every enum value, thresholded counts up to high+2, 31 utilisation values incl. band boundaries and >100%, present/absent/deleted, node ON/not ON, scan on/off) and "
    "checks the encoding inside the space. Every generator state (read from TLC's own dump) is fed to the REAL observation class (`observe`, `space`, `contains`), and "
    "PrimaiteGymEnv runs on shipped scenarios and observation-option variants (nested/flattened, scan and NMNE/num-access/traffic/users toggles, flooding agents, "
    "out-of-list ACL rules, capture off) log contains(obs) nested and flattened, every leaf below its size and per-episode space/action-space digests; TLC judges every "
    "record against ObsEncodingTrace.tla.",
    design_ref="6/C02",
    technique="TLA+ encoding model (ObsEncoding.tla) enumerated by TLC + every model state replayed on the real observation classes + TLC validation of environment-level observations",
)
CHECKS["C07"] = dict(
    category="model_checking",
    text="Acl.tla: rule lists with optional fields, wildcard-mask address matching by explicit bit arithmetic (cross-checked against Bitwise), a declarative verdict "
    "(lowest matching position, else implicit) and Add/Remove/Check/Load actions with hit counters; TLC builds every 3-position list over a 34-rule covering domain and "
    "judges all 144 packets against the first-match scan, and runs every interleaving of add/overwrite/remove/check over 10 core rules (88k states; thorough +260k). "
    "Simulated behaviours and seeded random stimuli (up to the real 24 positions) are executed through three doors - Python API, the agent-action requests on the router "
    "list and the six firewall lists, scenario-file loading - and every event carries the verdict, deciding rule, and the table and counters read back from the objects; "
    "TLC validates against AclTrace.tla. The port sentinel NONE(0) is read as 'unspecified' (DESIGN 11.3).",
    design_ref="6/C07",
    technique="TLA+ model (Acl.tla) bounded-exhaustively checked by TLC + behaviours replayed through three doors + TLC trace validation",
)
CHECKS["C08"] = dict(
    category="model_checking",
    text="Routes.tla (declarative best route: longest prefix, lowest metric, default last; a set on full ties) and Forwarding.tla (one unicast frame over hosts, "
    "routers with static/default routes and TTL-lowering switches: deliver only at the owner, forward via a best route, TTL strictly decreases, exhausted TTL is "
    "dropped, reachability; liveness: handling terminates, incl. routing loops); TLC enumerates all tables of <=2 (thorough <=3) routes over 7 prefixes x metrics x hops "
    "x default x 6 destinations and 6 topologies. Every (table, destination) is replayed on a real RouteTable under two IPv4 embeddings; topologies read from TLC "
    "behaviours are built through PrimaiteGame.from_config and every model frame plus ping/DNS/web/database/FTP/NTP exchanges between all ordered host pairs (cold and "
    "warm ARP) are recorded per Frame identity (interface receive with TTL, forwarding decision, local hand-over, delivery) and validated by TLC (RoutesTrace / ForwardingTrace).",
    design_ref="6/C08",
    technique="TLA+ models (Routes.tla, Forwarding.tla) checked by TLC incl. liveness + model domain replayed on the real route table and networks + TLC trace validation of frame walks",
)
CHECKS["C14"] = dict(
    category="model_checking",
    text="Health.tla: one piece of software, one folder with two files, node scan clock and power; visible health changes only at the completion of a covering scan and "
    "then equals the true health; true health changes only in explicit events; a fix completes exactly on its tick, folder scan/restore and node scan within the 5.2 "
    "window and compulsorily while ON; ticks are non-atomic (completion phases in any order). TLC sweeps durations 0..3 in five safety and two liveness configurations "
    "(0.8-1.4M states). Simulated behaviours are replayed on a real host in five variants (database with/without backup, web server, database client, web+database) "
    "with tracer.watch reporting EVERY write of the four health fields together with its enclosing context; shipped data_manipulation runs give one trace per software "
    "and folder; TLC validates against HealthTrace.tla.",
    design_ref="6/C14",
    technique="TLA+ model (Health.tla) checked by TLC incl. liveness + behaviours replayed with attribute-write interposition + TLC trace validation",
)
CHECKS["C20"] = dict(
    category="model_checking",
    text="ConfigSem.tla: the meaning of a scenario file as a set of facts - declared facts completed by the documented defaulting rules - and an abstract builder whose "
    "result is independent of the order of independent keys (TLC explores every build order of two declarations, 44k states); ScenarioGen.tla has scenario descriptions "
    "as states (topology x addressing x node types x rules at positions x routes x software mixes x users x files x agents), sampled by TLC. For every shipped scenario, "
    "all scheduled episodes, loading test assets, hand-written probes and 60 (quick) / 1500 (thorough) generated members, the scenario dict and the built object graph "
    "are flattened independently into facts and TLC judges Built = Expected(Declared) per fact kind per node (ConfigSemTrace.tla); each scenario is re-serialised with "
    "permuted mapping keys / flow style / quoting and the seeded trajectories of the variants are compared.",
    design_ref="6/C20",
    technique="TLA+ semantic function (ConfigSem.tla) + TLC-sampled scenario family + TLC validation of declared-vs-built facts and of re-serialised variants' trajectories",
)
CHECKS["C09"] = dict(
    category="model_checking",
    text="ObsEncoding.tla (shared with C02): `EncodeSet` = per leaf-group kind and field the admissible encoded values as the documentation gives them (visible vs "
    "actual health selected by the scenario's requires-scan options; absent / deleted / uninstalled components and every component of a node that is not ON read as the "
    "default; thresholded counts to categories; load to bands; ACL slot k = k-th position; folder health under requires-scan as a leaf with memory - the value at the "
    "last scan the observation has seen). TLC enumerates the complete component domain (62,679 states). Every generator state is driven through the real observation "
    "classes, and on shipped scenarios and option variants the ground truth for every leaf of every observation of every step is read DIRECTLY from simulator objects "
    "(never from describe_state()) and compared by TLC with the encoding (ObsEncodingTrace.tla); leaves with memory (NMNE, folder scan) carry the previous truth in the event.",
    design_ref="6/C09",
    technique="TLA+ encoding model (ObsEncoding.tla) enumerated by TLC + ground truth read from simulator objects for every observation leaf + TLC validation",
)

# strengthenings made after the two rounds of seeded changes (DESIGN.md 11.6, 11.7), appended to the descriptions above
TOURS = (" History generation: transition tours of spec/Lifecycle.tla (TLC's state graph of node power x one component's life cycle - service, application, "
         "file in a folder - at the grain of one agent action + one tick; every (state, action) edge taken at least once) are executed through the real environment.")
ADDED = {
    "C01": TOURS + " Every tour episode is validated against EpisodeTrace.tla.",
    "C02": TOURS + " Observations are judged against the space the ENVIRONMENT declares at that moment (nested and flattened); degenerate dimensions (0 slots) and an "
           "episode schedule with per-episode view sizes are part of the corpus.",
    "C09": TOURS + " Observations are recorded at the first visits of every abstract state; the observation walkers see every step.",
    "C03": " Further ambient profiles: another scenario was built and run earlier in the same process; amplifier scenarios for set-ordered TAP start nodes and for "
           "scenarios without the optional blocks (nmne_config, thresholds).",
    "C04": " Also: episode k of a looping episode schedule against the first use of the same schedule entry (rotated schedule) on a routed scenario.",
    "C05": TOURS + " Every tour step is submitted as a request (walk before, digests around it). Clause ActionNeverUnreachable ties the simulator's own answer to the "
           "statement; component names that are valid but unusual (digits only, dots, keywords) and misspelt / empty component names among handler parameters are part of the stimulus; "
           "the harness' walk follows routes registered as component.apply_request.",
    "C06": " B is also placed behind an inner router (zone decided by the egress interface); a directed cover of single-blocker configurations for every zone pair is always run.",
    "C08": " A seventh topology: a triangle of routers with asymmetric paths (what a router heard from a neighbour must not replace its route table).",
    "C10": " Clause QualifyingEventReplacesValue: at a qualifying event a sticky-capable component's value equals what a memory-less twin of the component returns for the "
           "same state and action (mixed-answers variant).",
    "C11": TOURS + " The mask of every action-map entry is compared with the harness' walk at every abstract state; the walk follows component.apply_request delegations.",
    "C12": " Clause NoWorkUnlessOn: in a tick that neither starts nor ends with the node ON no timed operation advances and nothing starts (directed runs with operations in flight).",
    "C14": TOURS + " Health tracks follow the tour's target items (re-bound on reinstall).",
    "C18": " Wireless: every access point of a frequency disabled and enabled again within a tick.",
    "C19": " Clause C2HostOnlyForC2Commands: a threat actor uses the C2 server's host only for the commands the C2 server issues.",
    "C20": " Also the environment's own path over the episode-scheduled directories past the end of the schedule against an independent reading of the files; probes with "
           "several routes to one destination.",
}
# third round (DESIGN.md 11.6, third table)
ADDED3 = {
    "C01": " A fourth tour facet: a remote terminal session across every power transition of its host (SSH connections of a node that goes down are gone).",
    "C02": " Variants with the reward-sharing order reversed in the file (dependency order of agents) are stepped as well.",
    "C03": " Amplifier with two equal-cost routes (tie broken by a process-dependent identifier would show in the state digest); profiles after a full data-manipulation / UC7 run (thorough).",
    "C04": " Constant scenarios: a dirty run with an unseeded reset in the middle, compared from the LAST reset with a fresh instance reset with the same seed (seed 0 included).",
    "C05": " Scenario with odd component names; requests to components that were removed during the history.",
    "C06": " The scan with nmap's own payload on the ports the router treats specially (ARP's 219 over UDP) is part of the stimulus.",
    "C07": " Rules also enter through the scenario file (the environment door), with the default rules at positions 22 / 23, over several episodes.",
    "C08": " An eighth topology: one switch carrying two subnets of one router; switches are judged on their own port counters (learn before forward).",
    "C09": " Per-host overrides of requires_scan (true and false, under either global value) are part of the corpus.",
    "C10": " Variants all-sticky + mixed answers and none-sticky + boundary weights (0, negative, > 1).",
    "C11": " Near-miss spellings of action names are probed at __call__ as well as in the mask.",
    "C15": " The request door's create with a random force flag over files deleted earlier.",
    "C18": " The load of a link that went down is judged in the tick after (PreTick from Network.pre_timestep).",
    "C19": " Probabilistic agents: action maps written in the order of the probability table, the executed action compared with the action DECLARED under the chosen key.",
    "C20": " Probes with dns_server declared at node level and as the dns-client service's own option.",
}
for _k, _v in ADDED3.items():
    ADDED[_k] = ADDED.get(_k, "") + _v
# fourth round (DESIGN.md 11.6, fourth table)
ADDED4 = {
    "C02": " The encoding model has a skewed ACL configuration (lists of different lengths), so a field bounded or encoded with another field's list shows.",
    "C09": " The encoding model has a skewed ACL configuration (lists of different lengths).",
    "C03": " An amplifier with every kind of scripted agent that draws (random, periodic with variance and several start nodes, red, probabilistic).",
    "C04": " Instance runs drive an attacker's tool themselves (malicious traffic, which the process-relevant NMNE options count); a sibling with equal options is built, used and closed around A's steps.",
    "C05": " Clause AbsentNeverSucceeds: a request addressed to a component that does not exist by the simulator's own component tables (whatever routes are registered) "
           "is refused and changes nothing; directed histories address every request of an application after its uninstall, and probe / execute the "
           "actions of nodes of every kind that the scenario declares OFF and that are started later.",
    "C08": " A ninth topology: the hosts' gateway routes back out of the interface the packet arrived on (hairpin).",
    "C10": " A third of the sharing graphs mixes learning and scripted agents.",
    "C11": " Action maps without an always-permitted entry (every entry refused at once while the host is in a timed transition).",
    "C14": " The database file itself is deleted inside the replayed behaviours; a file is followed by the harness' own lookup (live, else deleted last).",
    "C15": " FileSystem.tla carries the node's power state: operations are refused while the node is not ON, the per-tick counters are zero at every tick start whatever "
           "the power state; power requests are interleaved and hosts are declared OFF with files.",
    "C18": " One radio channel registered under two frequency names (the model counts per channel).",
    "C20": " The defaults block (top level and inside `simulation`) is part of the declared facts; probes with fractional link bandwidths.",
}
for _k, _v in ADDED4.items():
    ADDED[_k] = ADDED.get(_k, "") + _v
# fifth round (DESIGN.md 11.6, fifth table) and the findings that followed the sub-agents' side remarks
ADDED5 = {
    "C01": " A family with every configurable application and save_agent_actions on (every configure / command action once before each reset; the "
           "session directory redirected to scratch).",
    "C03": " A scenario with both seeding options of the game block (configured seed and generate_seed_value).",
    "C04": " The action mask handed out after every step and reset is part of the compared trajectory.",
    "C05": " Clause DocumentedPowerRule (the power conjunct of the documented preconditions read from the node itself, no validator); every path "
           "of the live request tree is also submitted bare; directed power requests at every power state with asymmetric durations; services asked "
           "to be uninstalled through the application route.",
    "C08": " Termination under faults: nodes powered off before any traffic, cold caches, every remaining host sends to every other host. A tenth "
           "topology (a host on a LAN shared by two routers) and chains of two exchanges after one cold start.",
    "C10": " The fresh value of the page / database-unreachable penalties is computed from their docstrings (no twin of the implementation's "
           "class); variant with an uninstalled browser.",
    "C11": " Clauses ExecutedIsDeclaredEntry (the request executed for action number i is formed from the entry declared under key i; maps "
           "written with descending keys) and DocumentedPowerRule.",
    "C12": " ACL requests among the other requests; while the node is not on every request name of its own table is sent.",
    "C13": " The restart duration of a declared service comes from the scenario's defaults block (both locations, 0 included).",
    "C14": " Files of unknown type (size 0) in the application variant's folder.",
    "C16": " Service stops hit the session manager and the user manager too; directed stop / end-of-session / start sequences.",
    "C17": " Clause RefusedBackupKeepsCopy (a backup that reports failure has stored nothing).",
    "C18": " 'Taken by the far end' is also observed independently of the far end's answer (a switch that was handed the frame has taken it).",
    "C19": " Clauses SwitchedOffPayloadNeverUsed and ZeroProbabilityStageNeverActs; TAP001 variants with the payload switches off, TAP003 "
           "variants with one stage at probability 0, probability tables at the loader's tolerance.",
    "C20": " Probes are also loaded through the environment and inventoried after reset (declared operating states, router rules at the built-in "
           "positions); own options next to the defaults block, all-zero defaults, folder durations of declared folders, firewalls with partial ACL "
           "blocks; every small shipped scenario also loaded with node and link lists reversed.",
}
for _k, _v in ADDED5.items():
    ADDED[_k] = ADDED.get(_k, "") + _v
ADDED6 = {
    "C01": " A directed history plays the ransomware script and the data-manipulation bot against a database whose file is deleted, corrupted "
           "and restored.",
    "C03": " A boundary-seed run: reset(seed=0) twice, episode against episode.",
    "C05": " Directed histories send one instance of every leaf verb of the live tree twice back to back.",
    "C08": " BoundedHops (a frame is handled at most ttl0 + 1 times) is checked on real switches in a layer-2 ring (two switches, parallel "
           "links) by counting receptions per Frame object.",
    "C12": " While the node is not on every interface's own enable() is called as well.",
    "C15": " The content reported for deleted folders is judged (names shared by two deleted folders excepted).",
    "C20": " The type of a declared file with an extension is derived from the text after the last dot (unknown extension = UNKNOWN); probes "
           "declare names with two and three dots.",
}
for _k, _v in ADDED6.items():
    ADDED[_k] = ADDED.get(_k, "") + _v
ADDED7 = {
    "C02": " Variants with an explicit router port list shorter / longer than num_ports, the router power-cycled.",
    "C09": " Variants with an explicit router port list shorter / longer than num_ports, the router power-cycled.",
    "C04": " The shipped scenario's agent also observes two stand-alone link components.",
    "C11": " The mask bit the environment handed out before a step is taken over when it denies (a masked-out action never succeeds, "
           "pre_timestep included).",
    "C13": " The service and application transition tours of Lifecycle.tla are executed through the environment and validated against "
           "LifecycleTrace.tla (timed transitions while the node is power-cycled with timed start-up and shut-down).",
    "C14": " Durations stated in the scenario (defaults block included, 0 included) win over the built objects' in the trace configuration; "
           "the toured folder is declared for the node when they come from the defaults block.",
}
for _k, _v in ADDED7.items():
    ADDED[_k] = ADDED.get(_k, "") + _v
for _k, _v in ADDED.items():
    if _k in CHECKS:
        CHECKS[_k]["text"] = CHECKS[_k]["text"] + _v

REASON_TODO = "check not built yet in this session (planned, see DESIGN.md 10); nothing is claimed for it"


def main():
    checks = []
    for pid in PROPS:
        if pid not in CHECKS:
            continue
        c = CHECKS[pid]
        checks.append(
            {
                "property_id": pid,
                "quick_cmd": f"./check {pid} --tier quick",
                "thorough_cmd": f"./check {pid} --tier thorough",
                "evidence_file": f"/verif/evidence/{pid}.json",
                "replay_cmd_template": f"./check {pid} --replay {{path}}",
                "engine": "tla-tlc-conformance",
                "level_claimed": {"category": c["category"], "text": c["text"], "design_ref": c["design_ref"]},
                "level_note": c.get("note", TRUST),
                "technique": c["technique"],
            }
        )
    na = [{"property_id": p, "reason": NA.get(p, REASON_TODO)} for p in PROPS if p not in CHECKS]
    m = {
        "version": 1,
        "setup_cmd": "./tools/setup.sh",
        "hooks": {
            "guard": "PRIMAITE_VERIF",
            "enable": "no source hooks: instrumentation is installed by the harness process (harness/tracer.py wraps classes after import); PRIMAITE_VERIF=1 is set by the harness and unused by the repository",
            "baseline_off_cmd": "/verif/tools/baseline.py",
            "source_commits": [],
            "add_only": True,
        },
        "engines": [
            {
                "name": "tla-tlc-conformance",
                "path": "/verif/harness",
                "serves_properties": [c["property_id"] for c in checks],
                "kind_free_text": "explicit TLA+ specification library (spec/*.tla) model-checked by TLC; two-way conformance: TLC behaviours replayed into the real code, recorded executions validated by TLC against trace specifications",
            }
        ],
        "checks": checks,
        "notes": "Entry point ./check <Cxx> [--tier quick|thorough]; exit 0 held / 1 VIOLATION / 2 machinery failure. Known findings: known_findings.json. See DESIGN.md.",
        "not_applicable": na,
    }
    (V / "MANIFEST.json").write_text(json.dumps(m, indent=1) + "\n")


NA = {}

if __name__ == "__main__":
    main()
