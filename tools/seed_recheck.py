#!/venv/bin/python
"""Re-run the detection of seeded changes against the CURRENT /repo HEAD and the CURRENT checks.

usage: seed_recheck.py [--jobs N] [--only <substring>] [seed-id ...]

For every seeded/<id>/ (or the ones named): a scratch worktree of /repo at HEAD is created under /tmp, the patch is
applied (a patch that no longer applies is reported, nothing else is done for it), the property's quick check is run
against the worktree (VERIF_REPO) with seeds 0 and 1 (stopping at the first detection), the worktree is removed, and
meta.json gets a `recheck` entry {head, detection, detected}.  `detected` of the meta is updated to the recheck's result.
Evidence of these runs goes to /tmp (never to /verif/evidence).  The demonstration and the baseline are NOT re-run here
(tools/seed_confirm.py does that once, when a change is filed)."""
import json
import os
import subprocess
import sys
from concurrent.futures import ThreadPoolExecutor
from pathlib import Path

V = Path(__file__).resolve().parent.parent


def sh(cmd, env=None, timeout=5400):
    e = dict(os.environ)
    e.update(env or {})
    p = subprocess.run(cmd, shell=True, capture_output=True, text=True, env=e, timeout=timeout, stdin=subprocess.DEVNULL)
    return p.returncode, (p.stdout + p.stderr)


def check_of(sid: str, meta) -> str:
    prop = meta.get("property") or sid.split("-")[0]
    if sid.startswith("EXT-"):
        return meta.get("check") or meta.get("property") or "EXT-" + sid.split("-")[1]
    return prop


def one(sid: str, head: str):
    d = V / "seeded" / sid
    meta = json.loads((d / "meta.json").read_text())
    if meta.get("obsolete"):
        return sid, "obsolete", None
    wt = f"/tmp/wtR_{sid}"
    sh(f"git -C /repo worktree remove --force {wt}")
    rc, out = sh(f"git -C /repo worktree add --detach {wt} {head}")
    if rc != 0:
        return sid, f"worktree failed: {out[-200:]}", None
    try:
        rc, out = sh(f"git -C {wt} apply {d / 'patch.diff'}")
        if rc != 0:
            return sid, "patch does not apply", None
        chk = check_of(sid, meta)
        results = {}
        for seed in (0, 1):
            rcc, oc = sh(f"cd {V} && ./check {chk} --tier quick", {"VERIF_REPO": wt, "VERIF_SEED": str(seed)})
            lines = [l for l in oc.splitlines() if l.startswith("VIOLATION") or l.startswith("  signature") or "MACHINERY" in l or l.startswith(chk)]
            results[f"{chk}/seed{seed}"] = {"exit": rcc, "lines": lines[:6]}
            if rcc == 1:
                break
        det = any(v["exit"] == 1 for v in results.values())
        meta["recheck"] = {"head": head, "detection": results, "detected": det}
        meta["detected"] = det
        (d / "meta.json").write_text(json.dumps(meta, indent=1))
        return sid, "detected" if det else "MISSED", results
    finally:
        sh(f"git -C /repo worktree remove --force {wt}")


def main():
    args = sys.argv[1:]
    jobs = int(args[args.index("--jobs") + 1]) if "--jobs" in args else 3
    only = args[args.index("--only") + 1] if "--only" in args else None
    named = [a for i, a in enumerate(args) if not a.startswith("--") and (i == 0 or args[i - 1] not in ("--jobs", "--only"))]
    ids = named or sorted(p.name for p in (V / "seeded").iterdir() if (p / "patch.diff").exists())
    if only:
        ids = [i for i in ids if only in i]
    head = subprocess.check_output(["git", "-C", "/repo", "rev-parse", "--short", "HEAD"], text=True).strip()
    bad = 0
    with ThreadPoolExecutor(max_workers=jobs) as ex:
        for sid, verdict, res in ex.map(lambda s: one(s, head), ids):
            print(f"{sid}: {verdict}", flush=True)
            if verdict not in ("detected", "obsolete"):
                bad += 1
    sh("git -C /repo worktree prune")
    print(f"recheck at {head}: {len(ids)} seeded changes, {bad} not detected / not applicable")
    return 1 if bad else 0


if __name__ == "__main__":
    sys.exit(main())
