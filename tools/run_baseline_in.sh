#!/bin/sh
# usage: run_baseline_in.sh <worktree>   -> runs the repository's pinned baseline inside that worktree
# (own HOME per worktree: the dev-cli tests rewrite the user's primaite config, concurrent runs must not share it)
WT=$1
B=$(basename $WT)
H=/tmp/home_$B
rm -rf $H; mkdir -p $H/.config
cp -r /root/.config/primaite $H/.config/ 2>/dev/null
mkdir -p $H/primaite

cd "$WT" && HOME=$H PYTHONPATH="$WT/src" /venv/bin/python -m pytest -ra -q -p no:cacheprovider --timeout=900 --continue-on-collection-errors --junitxml=/tmp/junit_$B.xml > /tmp/pytest_$B.log 2>&1
/venv/bin/python - "$WT" <<'PY'
import json,sys,os,xml.etree.ElementTree as ET
wt=sys.argv[1]; base=json.load(open('/root/.vp/BASELINE.json'))
passed=set()
for tc in ET.parse(f'/tmp/junit_{os.path.basename(wt)}.xml').getroot().iter('testcase'):
    if not any(c.tag in('failure','error','skipped') for c in tc): passed.add(f"{tc.get('classname')}::{tc.get('name')}")
want=set(base['stable_pass']); missing=sorted(want-passed)
print(f"baseline in {wt}: {len(want&passed)}/{len(want)} stable tests pass")
for m in missing[:30]: print("MISSING",m)
sys.exit(1 if missing else 0)
PY
rc=$?
rm -rf $H
exit $rc
