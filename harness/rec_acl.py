"""Binding of Acl.tla / AclTrace.tla to primaite's AccessControlList (C07).

* ``Embedding``  model addresses / wildcard masks (small naturals) <-> IPv4 addresses / wildcards
* three *doors* through which a model rule reaches a real list:
  ``ApiDoor`` (add_rule / remove_rule), ``RequestDoor`` (the request built by the agent action
  classes, applied with ``game.simulation.apply_request``), and scenario loading (``build_lists``:
  a config dict with ``acl`` sections fed to ``PrimaiteGame.from_config``)
* ``run_stimulus``  executes one stimulus on real objects and records one event per spec action
  (Add / Remove / Check / Load), each carrying what was ASKED and the list READ BACK from the object
  (rules from ``acl._acl``, counters from ``describe_state()``).

Trace values: positions are real 0-based positions, addresses/masks the model's naturals (the
inverse of the embedding; -2 = not in its image), ports real NON-ZERO port numbers, protocols real
names (tcp/udp/icmp); -1 / "any" = unspecified.

The port sentinel.  In this code base 0 is ``PORT_LOOKUP["NONE"]``, the documented "no port" value:
``ACLRule.permit_frame_check`` treats a falsy port as not specified and ``ACLRule.describe_state``
reports it as ``None``.  A rule written with port NONE(0) therefore IS a rule with an unspecified
port: model ports are only ever embedded as non-zero real ports, and the read-back projects a real
rule port of ``None`` or ``0`` to "unspecified" (-1).  Stimuli of the *sentinel* class spell some
unspecified ports as 0 / "NONE" (``none_ports`` of an add / load entry) through all three doors; the
model rule keeps the port unspecified and TLC must accept the trace.  (Protocols have no such
sentinel: ``PROTOCOL_LOOKUP["NONE"]`` = "none" is a truthy string that the code compares like any
other protocol; the harness never uses it.)
"""
from __future__ import annotations

import copy
import random
from ipaddress import IPv4Address
from typing import Any, Dict, List, Optional, Tuple

from . import scenarios

ANYN = -1
NORULE = {"action": "none", "proto": "any", "src": ANYN, "smask": ANYN, "dst": ANYN, "dmask": ANYN, "sport": ANYN, "dport": ANYN}
NOPKT = {"proto": "", "src": 0, "dst": 0, "sport": 0, "dport": 0}
FW_LISTS = [(z, d) for z in ("internal", "dmz", "external") for d in ("inbound", "outbound")]


def rule(action="permit", proto="any", src=ANYN, smask=ANYN, dst=ANYN, dmask=ANYN, sport=ANYN, dport=ANYN) -> Dict[str, Any]:
    return {"action": action, "proto": proto, "src": src, "smask": smask, "dst": dst, "dmask": dmask, "sport": sport, "dport": dport}


class Embedding:
    """Model bit k of an address / mask lives at IPv4 bit ``bits[k]``; all other bits are ``base``'s.

    Masked comparison only looks at bits, so the embedding preserves matching exactly (wildcards never
    have a bit outside ``bits``) while exercising wildcards that straddle octets."""

    def __init__(self, base: str, bits: List[int]):
        self.bits = list(bits)
        self.cover = 0
        for b in self.bits:
            self.cover |= 1 << b
        self.base = int(IPv4Address(base)) & ~self.cover

    def _spread(self, v: int) -> int:
        x = 0
        for k, b in enumerate(self.bits):
            if (v >> k) & 1:
                x |= 1 << b
        return x

    def _gather(self, x: int) -> int:
        v = 0
        for k, b in enumerate(self.bits):
            if (x >> b) & 1:
                v |= 1 << k
        return v

    def ip(self, a: int) -> IPv4Address:
        return IPv4Address(self.base | self._spread(a))

    def wc(self, m: int) -> IPv4Address:
        return IPv4Address(self._spread(m))

    def inv_ip(self, x) -> int:
        xi = int(IPv4Address(x))
        return self._gather(xi) if (xi & ~self.cover) == self.base else -2

    def inv_wc(self, x) -> int:
        xi = int(IPv4Address(x))
        return self._gather(xi) if (xi & ~self.cover) == 0 else -2

    def to_json(self) -> Dict[str, Any]:
        return {"base": str(IPv4Address(self.base)), "bits": self.bits}

    @staticmethod
    def from_json(d) -> "Embedding":
        return Embedding(d["base"], d["bits"])

    @staticmethod
    def random(rng: random.Random, width: int) -> "Embedding":
        bits = sorted(rng.sample(range(32), width))
        rng.shuffle(bits)
        base = rng.choice(["192.168.1.0", "10.0.0.0", "0.0.0.0", "172.16.254.128", "255.255.255.255", str(IPv4Address(rng.getrandbits(32)))])
        return Embedding(base, bits)


# ---------------------------------------------------------------------------------------------
# model values -> real values (the three spellings) and back
# ---------------------------------------------------------------------------------------------


def _lookups():
    from primaite.utils.validation.ip_protocol import PROTOCOL_LOOKUP
    from primaite.utils.validation.port import PORT_LOOKUP

    return PORT_LOOKUP, PROTOCOL_LOOKUP


def port_names() -> Dict[int, str]:
    pl, _ = _lookups()
    out: Dict[int, str] = {}
    for k, v in pl.items():
        if v >= 0 and v not in out:
            out[v] = k
    return out


def _check_rule(r: Dict[str, Any], none_ports) -> None:
    """Harness sanity: model ports are embedded only as non-zero real ports; NONE spells an unspecified port."""
    for k in ("sport", "dport"):
        if r[k] == 0 or (k in none_ports and r[k] != ANYN):
            raise RuntimeError(f"harness bug: rule {r} / none_ports {none_ports}")
    if r["proto"] not in ("any", "tcp", "udp", "icmp"):
        raise RuntimeError(f"harness bug: protocol {r['proto']}")


def api_kwargs(r: Dict[str, Any], emb: Embedding, style: random.Random, none_ports=()) -> Dict[str, Any]:
    """Keyword arguments of AccessControlList.add_rule for a model rule (ports in `none_ports` - which
    the rule leaves unspecified - are spelt 0 / "NONE" instead of None)."""
    _check_rule(r, none_ports)
    from primaite.simulator.network.hardware.nodes.network.router import ACLAction

    _, prl = _lookups()

    def addr(v):
        return v if style.random() < 0.5 else str(v)

    kw: Dict[str, Any] = {"action": ACLAction.PERMIT if r["action"] == "permit" else ACLAction.DENY}
    kw["protocol"] = None if r["proto"] == "any" else (prl[r["proto"].upper()] if style.random() < 0.7 else r["proto"].upper())
    kw["src_ip_address"] = None if r["src"] == ANYN else addr(emb.ip(r["src"]))
    kw["src_wildcard_mask"] = None if r["smask"] == ANYN else addr(emb.wc(r["smask"]))
    kw["dst_ip_address"] = None if r["dst"] == ANYN else addr(emb.ip(r["dst"]))
    kw["dst_wildcard_mask"] = None if r["dmask"] == ANYN else addr(emb.wc(r["dmask"]))
    kw["src_port"] = None if r["sport"] == ANYN else r["sport"]
    kw["dst_port"] = None if r["dport"] == ANYN else r["dport"]
    for k, f in (("sport", "src_port"), ("dport", "dst_port")):
        if k in none_ports:
            kw[f] = 0 if style.random() < 0.5 else "NONE"
    return kw


def action_options(r: Dict[str, Any], emb: Embedding, style: random.Random, none_ports=()) -> Dict[str, Any]:
    """Options of the router-/firewall-acl-add-rule agent actions for a model rule ('ALL'/'NONE' sentinels)."""
    _check_rule(r, none_ports)
    names = port_names()

    def port(p):
        if p == ANYN:
            return "ALL"
        return names[p] if (p in names and style.random() < 0.5) else p

    return {
        "permission": r["action"].upper(),
        "protocol_name": "ALL" if r["proto"] == "any" else (r["proto"].upper() if style.random() < 0.5 else r["proto"]),
        "src_ip": "ALL" if r["src"] == ANYN else str(emb.ip(r["src"])),
        "src_wildcard": "NONE" if r["smask"] == ANYN else str(emb.wc(r["smask"])),
        "dst_ip": "ALL" if r["dst"] == ANYN else str(emb.ip(r["dst"])),
        "dst_wildcard": "NONE" if r["dmask"] == ANYN else str(emb.wc(r["dmask"])),
        "src_port": (0 if style.random() < 0.5 else "NONE") if "sport" in none_ports else port(r["sport"]),
        "dst_port": (0 if style.random() < 0.5 else "NONE") if "dport" in none_ports else port(r["dport"]),
    }


def config_entry(r: Dict[str, Any], emb: Embedding, none_ports=()) -> Dict[str, Any]:
    """An entry of a scenario file's ``acl:`` section for a model rule (named ports / protocols)."""
    _check_rule(r, none_ports)
    names = port_names()
    d: Dict[str, Any] = {"action": r["action"].upper()}
    if r["proto"] != "any":
        d["protocol"] = r["proto"].upper()
    if r["src"] != ANYN:
        d["src_ip"] = str(emb.ip(r["src"]))
    if r["smask"] != ANYN:
        d["src_wildcard_mask"] = str(emb.wc(r["smask"]))
    if r["dst"] != ANYN:
        d["dst_ip"] = str(emb.ip(r["dst"]))
    if r["dmask"] != ANYN:
        d["dst_wildcard_mask"] = str(emb.wc(r["dmask"]))
    if r["sport"] != ANYN:
        d["src_port"] = names[r["sport"]]
    if r["dport"] != ANYN:
        d["dst_port"] = names[r["dport"]]
    if "sport" in none_ports:
        d["src_port"] = "NONE"
    if "dport" in none_ports:
        d["dst_port"] = "NONE"
    return d


def make_frame(p: Dict[str, Any], emb: Embedding):
    from primaite.simulator.network.protocols.icmp import ICMPPacket
    from primaite.simulator.network.transmission.data_link_layer import EthernetHeader, Frame
    from primaite.simulator.network.transmission.network_layer import IPPacket
    from primaite.simulator.network.transmission.transport_layer import TCPHeader, UDPHeader

    _, prl = _lookups()
    eth = EthernetHeader(src_mac_addr="aa:bb:cc:dd:ee:01", dst_mac_addr="aa:bb:cc:dd:ee:02")
    ip = IPPacket(src_ip_address=emb.ip(p["src"]), dst_ip_address=emb.ip(p["dst"]), protocol=prl[p["proto"].upper()])
    if p["proto"] == "tcp":
        return Frame(ethernet=eth, ip=ip, tcp=TCPHeader(src_port=p["sport"], dst_port=p["dport"]))
    if p["proto"] == "udp":
        return Frame(ethernet=eth, ip=ip, udp=UDPHeader(src_port=p["sport"], dst_port=p["dport"]))
    return Frame(ethernet=eth, ip=ip, icmp=ICMPPacket())


def _port_back(p) -> int:
    # None and NONE(0) both mean "no port specified" (PORT_LOOKUP["NONE"]; ACLRule.describe_state)
    return ANYN if (p is None or int(p) == 0) else int(p)


def project_rule(r, emb: Embedding) -> Dict[str, Any]:
    """Real ACLRule object -> model rule (read from the object's fields)."""
    return {
        "action": r.action.name.lower(),
        "proto": "any" if r.protocol is None else str(r.protocol),
        "src": ANYN if r.src_ip_address is None else emb.inv_ip(r.src_ip_address),
        "smask": ANYN if r.src_wildcard_mask is None else emb.inv_wc(r.src_wildcard_mask),
        "dst": ANYN if r.dst_ip_address is None else emb.inv_ip(r.dst_ip_address),
        "dmask": ANYN if r.dst_wildcard_mask is None else emb.inv_wc(r.dst_wildcard_mask),
        "sport": _port_back(r.src_port),
        "dport": _port_back(r.dst_port),
    }


def read_list(acl, emb: Embedding) -> Tuple[List[Dict[str, Any]], int]:
    """(sparse table [{pos, r, h}], implicit counter) of a real list, counters via describe_state()."""
    ds = acl.describe_state()
    tab = []
    for i, r in enumerate(acl._acl):
        shown = ds["acl"][i]
        if (r is None) != (shown is None):
            raise RuntimeError(f"describe_state()['acl'][{i}] disagrees with the list about the presence of a rule")
        if r is not None:
            tab.append({"pos": i, "r": project_rule(r, emb), "h": int(shown["match_count"])})
    return tab, int(ds["implicit_rule"]["match_count"])


def event(kind: str, acl, emb: Embedding, **kw) -> Dict[str, Any]:
    tab, ih = read_list(acl, emb)
    e = {"ev": kind, "pos": 0, "rule": NORULE, "es": [], "pkt": NOPKT, "permit": False, "decider": -2, "tab": tab, "ihits": ih}
    e.update(kw)
    return e


def list_cfg(acl, emb: Embedding) -> Dict[str, Any]:
    tab, ih = read_list(acl, emb)
    return {"n": len(acl._acl), "implicit": acl.implicit_action.name.lower(), "tab": tab, "ihits": ih}


# ---------------------------------------------------------------------------------------------
# doors
# ---------------------------------------------------------------------------------------------


class ApiDoor:
    """Python API on a stand-alone list of n positions."""

    name = "api"

    def __init__(self, n: int, implicit: str, emb: Embedding, style: random.Random):
        from primaite.simulator.network.hardware.nodes.network.router import AccessControlList, ACLAction
        from primaite.simulator.system.core.sys_log import SysLog

        self.emb, self.style = emb, style
        self.acl = AccessControlList(
            name="c07", sys_log=SysLog("c07"), max_acl_rules=n + 1,
            implicit_action=ACLAction.PERMIT if implicit == "permit" else ACLAction.DENY,
        )

    def add(self, pos: int, r: Dict[str, Any], none_ports=()) -> bool:
        return bool(self.acl.add_rule(position=pos, **api_kwargs(r, self.emb, self.style, none_ports)))

    def remove(self, pos: int) -> bool:
        return bool(self.acl.remove_rule(pos))


def get_list(game, which: str):
    """'router' -> node r's list; 'fw:<zone>:<direction>' -> one of node fw's six lists."""
    net = game.simulation.network
    if which == "router":
        return net.get_node_by_hostname("r").acl
    _, zone, direction = which.split(":")
    return getattr(net.get_node_by_hostname("fw"), f"{zone}_{direction}_acl")


class RequestDoor:
    """The requests the agent actions router-/firewall-acl-add-rule / -remove-rule produce."""

    name = "request"

    def __init__(self, game, which: str, emb: Embedding, style: random.Random):
        self.game, self.which, self.emb, self.style = game, which, emb, style
        self.acl = get_list(game, which)
        self.last_request: Optional[List[Any]] = None

    def _apply(self, req) -> bool:
        self.last_request = req
        resp = self.game.simulation.apply_request(copy.deepcopy(req))
        return resp.status == "success"

    def add(self, pos: int, r: Dict[str, Any], none_ports=()) -> bool:
        from primaite.game.agent.actions.acl import FirewallACLAddRuleAction, RouterACLAddRuleAction

        opts = action_options(r, self.emb, self.style, none_ports)
        if self.which == "router":
            cfg = RouterACLAddRuleAction.ConfigSchema(type="router-acl-add-rule", target_router="r", position=pos, **opts)
            return self._apply(RouterACLAddRuleAction.form_request(cfg))
        _, zone, direction = self.which.split(":")
        cfg = FirewallACLAddRuleAction.ConfigSchema(
            type="firewall-acl-add-rule", target_firewall_nodename="fw", firewall_port_name=zone,
            firewall_port_direction=direction, position=pos, **opts)
        return self._apply(FirewallACLAddRuleAction.form_request(cfg))

    def remove(self, pos: int) -> bool:
        from primaite.game.agent.actions.acl import FirewallACLRemoveRuleAction, RouterACLRemoveRuleAction

        if self.which == "router":
            cfg = RouterACLRemoveRuleAction.ConfigSchema(type="router-acl-remove-rule", target_router="r", position=pos)
            return self._apply(RouterACLRemoveRuleAction.form_request(cfg))
        _, zone, direction = self.which.split(":")
        cfg = FirewallACLRemoveRuleAction.ConfigSchema(
            type="firewall-acl-remove-rule", target_firewall_nodename="fw", firewall_port_name=zone,
            firewall_port_direction=direction, position=pos)
        return self._apply(FirewallACLRemoveRuleAction.form_request(cfg))


def scenario(which: str, entries: Optional[List[Dict[str, Any]]], emb: Embedding) -> Dict[str, Any]:
    """A scenario (config dict) holding router r (a -- r -- b) or a firewall fw, whose list `which` gets the
    ``acl`` entries [{pos, r}] (None: no acl entries at all - the base the loaded list is compared with)."""
    section = {int(e["pos"]): config_entry(e["r"], emb, e.get("none_ports", ())) for e in (entries or [])}
    if which == "router":
        return scenarios.routed(acl=section)
    _, zone, direction = which.split(":")
    acl = {f"{z}_{d}_acl": {} for z, d in FW_LISTS}
    acl[f"{zone}_{direction}_acl"] = section
    fw = {
        "hostname": "fw", "type": "firewall",
        "ports": {
            "external_port": {"ip_address": "192.168.20.1", "subnet_mask": "255.255.255.0"},
            "internal_port": {"ip_address": "192.168.1.1", "subnet_mask": "255.255.255.0"},
            "dmz_port": {"ip_address": "192.168.10.1", "subnet_mask": "255.255.255.0"},
        },
        "acl": acl,
    }
    return scenarios.base_cfg([fw], [])


# ---------------------------------------------------------------------------------------------
# one stimulus -> one trace
# ---------------------------------------------------------------------------------------------


def siblings(game, which: str) -> List[Tuple[str, Any]]:
    """The other lists living next to `which` in the same scenario (the firewall's other five lists and
    the firewall's own router-level list)."""
    if which == "router":
        return []
    fw = game.simulation.network.get_node_by_hostname("fw")
    out = [(f"fw:{z}:{d}", getattr(fw, f"{z}_{d}_acl")) for z, d in FW_LISTS if f"fw:{z}:{d}" != which]
    out.append(("fw:node", fw.acl))
    return out


def run_stimulus(stim: Dict[str, Any]) -> List[Dict[str, Any]]:
    """stim = {door: api|request|config, list: standalone|router|fw:<zone>:<dir>, n, implicit (api only),
    emb, style (int), load: [{pos, r, none_ports}] (config only),
    ops: [{op: add|remove|check, pos, rule, none_ports, pkt}]  (none_ports: unspecified ports spelt NONE(0)),
    siblings: bool (default true; false = do not record the firewall's other lists)}

    Returns the trace of the addressed list followed by one trace per sibling list (a second stand-alone
    list for the api door; the other lists of the firewall), whose events are all ``Elsewhere``."""
    emb = Embedding.from_json(stim["emb"])
    style = random.Random(stim.get("style", 0))
    door_name, which = stim["door"], stim["list"]
    meta: Dict[str, Any] = {"door": door_name, "list": which, "role": "addressed"}
    events: List[Dict[str, Any]] = []
    sibs: List[Tuple[str, Any]] = []
    sib_traces: List[Dict[str, Any]] = []

    def start_siblings(cfgs: Optional[List[Dict[str, Any]]] = None):
        for k, (name, lst) in enumerate(sibs):
            sib_traces.append({"cfg": cfgs[k] if cfgs else list_cfg(lst, emb), "ev": [],
                               "meta": {"door": door_name, "list": name, "role": f"sibling of {which}"}, "stimulus": stim})

    def note_siblings():
        for (name, lst), tr in zip(sibs, sib_traces):
            tr["ev"].append(event("Elsewhere", lst, emb))

    if door_name == "api":
        door = ApiDoor(stim["n"], stim["implicit"], emb, style)
        other = ApiDoor(stim["n"], "deny" if stim["implicit"] == "permit" else "permit", emb, style)
        other.add(0, rule(action="deny", proto="udp"))
        sibs = [("standalone-2", other.acl)]
        cfg = list_cfg(door.acl, emb)
        start_siblings()
    elif door_name == "request":
        game = scenarios.build(scenario(which, None, emb))
        door = RequestDoor(game, which, emb, style)
        sibs = siblings(game, which) if stim.get("siblings", True) else []
        cfg = list_cfg(door.acl, emb)
        start_siblings()
    else:
        # scenario loading: the lists before = the same scenario without acl entries
        base = scenarios.build(scenario(which, None, emb))
        cfg = list_cfg(get_list(base, which), emb)
        base_sib_cfgs = [list_cfg(lst, emb) for _, lst in siblings(base, which)]
        es = [{"pos": int(e["pos"]), "r": e["r"]} for e in stim["load"]]
        try:
            if stim.get("via_env"):
                # the Gymnasium way: the scenario is loaded by the environment and the episode started by reset()
                # (PrimaiteGame.setup_for_episode): the lists of the running episode are what the file declares
                from primaite.session.environment import PrimaiteGymEnv

                c = scenario(which, stim["load"], emb)
                c["agents"] = [scenarios.proxy_agent({0: {"action": "do-nothing", "options": {}}}, masking=False)]
                env = PrimaiteGymEnv(env_config=c)
                env.reset(seed=1)
                env.step(0)
                game = env.game
                meta["via_env"] = True
            else:
                game = scenarios.build(scenario(which, stim["load"], emb))
        except Exception as ex:  # noqa - repository code raised while loading: an event no action allows
            meta["raised"] = f"load: {type(ex).__name__}: {ex}"[:300]
            e = event("Raised", get_list(base, which), emb, es=es)
            return [{"cfg": cfg, "ev": [e], "meta": meta, "stimulus": stim}]
        door = RequestDoor(game, which, emb, style)
        sibs = siblings(game, which) if stim.get("siblings", True) else []
        start_siblings(base_sib_cfgs if sibs else None)
        events.append(event("Load", door.acl, emb, es=es))
        note_siblings()
    acl = door.acl
    for op in stim["ops"]:
        kind = op["op"]
        try:
            if kind == "add":
                ok = door.add(op["pos"], op["rule"], op.get("none_ports", ()))
                events.append(event("Add" if ok else "Refused", acl, emb, pos=op["pos"], rule=op["rule"]))
            elif kind == "remove":
                ok = door.remove(op["pos"])
                events.append(event("Remove" if ok else "Refused", acl, emb, pos=op["pos"]))
            else:
                frame = make_frame(op["pkt"], emb)
                permitted, decided_by = acl.is_permitted(frame)
                dec = -2
                if decided_by is acl.implicit_rule:
                    dec = -1
                else:
                    for i, r in enumerate(acl._acl):
                        if r is decided_by:
                            dec = i
                events.append(event("Check", acl, emb, pkt=op["pkt"], permit=bool(permitted), decider=dec))
            note_siblings()
        except Exception as ex:  # noqa - an exception raised by repository code is an event no action allows
            meta["raised"] = f"{kind}: {type(ex).__name__}: {ex}"[:300]
            meta["request"] = str(getattr(door, "last_request", ""))
            events.append(event("Raised", acl, emb, pos=op.get("pos", 0), rule=op.get("rule", NORULE), pkt=op.get("pkt", NOPKT)))
            break
    main = {"cfg": cfg, "ev": events, "meta": meta, "stimulus": stim}
    return [main] + [t for t in sib_traces if t["ev"]]
