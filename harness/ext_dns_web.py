"""Extension (beyond the listed properties): DNS client / server and web browser / web server against
spec/DnsWeb.tla.

(a) MC_DnsWeb is checked exhaustively (plus a negative configuration TLC must refute);
(b) TLC -simulate behaviours of MC_DnsWeb (MC_DnsWebSim.cfg: two clients, all service states, ticks) are
    replayed as stimulus - requests, Python API calls, ticks - into a real network built by
    PrimaiteGame.from_config: clients c1/c2 (dns-client, web-browser), d (dns-server), w (web-server, optionally a
    database client), b (database-service) on one switch;
(c) a recorder (tracer.wrap / tracer.watch, nothing in /repo is edited) emits one event per action of the module -
    LookupBegin/DnsServe/DnsReply/LookupEnd, BrowseBegin/WebServe/HttpResp/WebLog/BrowseEnd, Register, AddCache,
    SetOp, Power, Tick - each with the state projected from the real objects after the call;
(d) TLC validates the recorded histories against DnsWebTrace.tla (named clauses, binding self-test);
(e) shipped scenarios (data_manipulation.yaml, ...) are stepped through PrimaiteGymEnv with random blue actions and
    every DNS / web exchange of that run is projected onto the same module and validated the same way.
Run: ./check EXT-dns_web"""
from __future__ import annotations

import random
import re
import time
from ipaddress import IPv4Address
from typing import Any, Dict, List, Optional, Tuple
from urllib.parse import urlparse

from . import common, scenarios, tlc, tracer

PROP = "EXT-dns_web"
WIP, DIP, BIP, XIP = "192.168.1.12", "192.168.1.10", "192.168.1.14", "192.168.1.98"
CIPS = {"c1": "192.168.1.21", "c2": "192.168.1.22"}
NAME = {"a": "a.com", "b": "b.com", "ipw": WIP}      # model name token -> what the code sees
ADDR = {"w": WIP, "x": XIP}
SVC = {"dc": "dns-client", "ds": "dns-server", "ws": "web-server", "br": "web-browser"}
KIND = {v: k for k, v in SVC.items()}
EVENTS = ("LookupBegin", "DnsServe", "DnsReply", "LookupEnd", "BrowseBegin", "WebServe", "HttpResp", "WebLog",
          "BrowseEnd", "Register", "AddCache", "SetOp", "Power", "Tick")
MC_ACTIONS = ("MLookupBegin", "MNestedLookup", "MDnsServe", "MDnsReply", "MLookupEnd", "MBrowseBegin", "MWebServe",
              "MHttpResp", "MWebLog", "MBrowseEnd", "MSetOp", "MPower", "MRegister", "MAddCache", "MSetDb", "MTick")
FIELDS = dict(c="", kind="", node="", n="", ip="", host="", lit="", path="", ok=False, conn=False, q=False, code=0,
              st="", b=False)


def _san(s: str) -> str:
    return re.sub(r"[^A-Za-z0-9]", "_", s)


# ---------------------------------------------------------------------------------------
# the binding of one real network to the names of the module
# ---------------------------------------------------------------------------------------


class Ctx:
    """d = the node with the dns-server, w = the node with the web-server, clients = {id: node}."""

    def __init__(self, d_node, w_node, clients: Dict[str, Any], direct: bool, names: Optional[Dict[str, str]] = None,
                 addrs: Optional[Dict[str, str]] = None):
        self.d, self.w, self.clients, self.direct = d_node, w_node, clients, direct
        self.node_tok = {id(d_node): "d", id(w_node): "w"}
        self.node_tok.update({id(n): c for c, n in clients.items()})
        self.names = dict(names or {})      # real name -> token
        self.addrs = dict(addrs or {})      # real address -> token

    @staticmethod
    def sw(node, name):
        return node.software_manager.software.get(name)

    def tok_name(self, s) -> str:
        if s is None:
            return ""
        s = str(s)
        return self.names.get(s, "n_" + _san(s))

    def tok_addr(self, ip) -> str:
        if ip is None:
            return ""
        s = str(ip)
        return self.addrs.get(s, "ip_" + _san(s))

    def parse_url(self, url: Optional[str]) -> Tuple[str, str, str]:
        """(host token, address token when the host is an IP literal, path token) of a URL as the documentation reads
        it (web_browser.rst: `http://example.com/` and `example.com` both name the domain example.com)."""
        if not url:
            return "", "", ""
        u = url if "://" in url else "http://" + url
        p = urlparse(u)
        host = p.hostname or ""
        lit = ""
        try:
            IPv4Address(host)
            lit = self.tok_addr(host)
        except ValueError:
            pass
        path = (p.path or "").strip("/")
        ptok = "" if not path else ("users" if path.startswith("users") else "nope")
        return (self.tok_name(host) if host else ""), lit, ptok

    # -- projection of the real objects
    def op(self, node, name) -> str:
        s = self.sw(node, name)
        return s.operating_state.name if s is not None else "ABSENT"

    def on(self, node) -> bool:
        from primaite.simulator.network.hardware.node_operating_state import NodeOperatingState

        return node.operating_state == NodeOperatingState.ON

    def fn(self, d) -> List[Dict[str, str]]:
        return [{"n": self.tok_name(k), "ip": self.tok_addr(v)} for k, v in d.items()]

    def hist(self, c) -> List[int]:
        b = self.sw(self.clients[c], "web-browser")
        out = []
        for h in (b.history if b is not None else []):
            st = h.status.name
            if st == "LOADED":
                out.append(int(h.response_code) if h.response_code is not None else 2)
            else:
                out.append({"SERVER_UNREACHABLE": 1, "PENDING": 2, "NOT_SENT": 3}.get(st, 2))
        return out

    def cache(self, c) -> List[Dict[str, str]]:
        s = self.sw(self.clients[c], "dns-client")
        return self.fn(s.dns_cache) if s is not None else []

    def table(self) -> List[Dict[str, str]]:
        s = self.sw(self.d, "dns-server")
        return self.fn(s.dns_table) if s is not None else []

    def codes(self) -> List[int]:
        s = self.sw(self.w, "web-server")
        return [int(x) for x in s.response_codes_this_timestep] if s is not None else []

    def up(self) -> List[Dict[str, str]]:
        out = []
        for tok, node in [("d", self.d), ("w", self.w)] + list(self.clients.items()):
            if self.on(node):
                out.append({"k": "on", "x": tok})
        for c, node in self.clients.items():
            if self.op(node, "dns-client") == "RUNNING":
                out.append({"k": "dc", "x": c})
            if self.op(node, "web-browser") == "RUNNING":
                out.append({"k": "br", "x": c})
        if self.op(self.d, "dns-server") == "RUNNING":
            out.append({"k": "ds", "x": ""})
        if self.op(self.w, "web-server") == "RUNNING":
            out.append({"k": "ws", "x": ""})
        return out

    def project(self, c: str) -> Dict[str, Any]:
        isc = c in self.clients
        return {"hist": self.hist(c) if isc else [], "cache": self.cache(c) if isc else [], "table": self.table(),
                "codes": self.codes(), "up": self.up()}

    def initial_cfg(self) -> Dict[str, Any]:
        dips = {str(ni.ip_address) for ni in self.d.network_interface.values()}
        dcfg, has_db = {}, False
        for c, node in self.clients.items():
            s = self.sw(node, "dns-client")
            v = s.dns_server if s is not None else None
            dcfg[c] = "none" if v is None else ("d" if str(v) in dips else self.tok_addr(v))
        dbc = self.sw(self.w, "database-client")
        has_db = dbc is not None and dbc.server_ip_address is not None
        on = {c: self.on(n) for c, n in self.clients.items()}
        on.update({"d": self.on(self.d), "w": self.on(self.w)})
        return {
            "clients": sorted(self.clients), "dnsCfg": dcfg, "hasDb": bool(has_db), "direct": bool(self.direct),
            "on": on,
            "dcOp": {c: self.op(n, "dns-client") for c, n in self.clients.items()},
            "brOp": {c: self.op(n, "web-browser") for c, n in self.clients.items()},
            "dsOp": self.op(self.d, "dns-server"), "wsOp": self.op(self.w, "web-server"),
            "table": self.table(), "cache": {c: self.cache(c) for c in self.clients},
            "hist": {c: self.hist(c) for c in self.clients}, "codes": self.codes(),
        }


# ---------------------------------------------------------------------------------------
# recorder
# ---------------------------------------------------------------------------------------


class Recorder:
    def __init__(self):
        self.ctx: Optional[Ctx] = None
        self.events: List[Dict[str, Any]] = []
        self.stack: List[str] = []          # clients of the exchanges in flight (innermost last)
        self.http: Optional[Dict[str, bool]] = None
        self.foreign = 0
        self.other_exceptions: List[str] = []
        self.installed = False

    # -- trace lifecycle
    def begin(self, ctx: Ctx) -> Dict[str, Any]:
        self.ctx, self.events, self.stack, self.http = ctx, [], [], None
        self.cfg0 = ctx.initial_cfg()
        return self.cfg0

    def end(self, meta: Dict[str, Any], stimulus: Any) -> Dict[str, Any]:
        tr = {"cfg": self.cfg0, "ev": self.events, "meta": meta, "stimulus": stimulus}
        self.ctx, self.events, self.stack, self.http = None, [], [], None
        return tr

    def emit(self, name: str, **kw) -> int:
        e = {"ev": name}
        e.update(FIELDS)
        e.update(kw)
        e.update(self.ctx.project(e["c"]))
        self.events.append(e)
        return len(self.events) - 1

    # -- who is it
    def client_of(self, sw) -> Optional[str]:
        if self.ctx is None:
            return None
        node = getattr(getattr(sw, "software_manager", None), "node", None)
        tok = self.ctx.node_tok.get(id(node))
        return tok if tok in self.ctx.clients else None

    def is_server(self, sw, tok: str) -> bool:
        if self.ctx is None:
            return False
        node = getattr(getattr(sw, "software_manager", None), "node", None)
        return self.ctx.node_tok.get(id(node)) == tok

    def cur(self) -> Optional[str]:
        return self.stack[-1] if self.stack else None

    # -- installation of the wrappers
    def install(self):
        if self.installed:
            return
        self.installed = True
        from primaite.simulator.network.hardware.base import Node
        from primaite.simulator.network.hardware.node_operating_state import NodeOperatingState
        from primaite.simulator.network.protocols.dns import DNSPacket
        from primaite.simulator.network.protocols.http import HttpResponsePacket
        from primaite.simulator.system.applications.database_client import DatabaseClientConnection
        from primaite.simulator.system.applications.web_browser import WebBrowser
        from primaite.simulator.system.services.dns.dns_client import DNSClient
        from primaite.simulator.system.services.dns.dns_server import DNSServer
        from primaite.simulator.system.services.web_server.web_server import WebServer

        rec = self

        def arg(a, k, i, name, default=None):
            return a[i] if len(a) > i else k.get(name, default)

        # DNS client: check_domain_exists (the outer call only; the code re-enters itself once with is_reattempt)
        def lk_before(sw, *a, **k):
            if arg(a, k, 2, "is_reattempt", False):
                return None
            c = rec.client_of(sw)
            if c is None:
                return None
            n = rec.ctx.tok_name(arg(a, k, 0, "target_domain"))
            rec.emit("LookupBegin", c=c, n=n)
            rec.stack.append(c)
            return (c, n)

        def lk_after(sw, tok, ret, exc, *a, **k):
            if tok is None or rec.ctx is None:
                return
            rec.stack.pop()
            if exc is not None:
                rec.emit("Raised", c=tok[0], n=tok[1], st=type(exc).__name__)
            else:
                rec.emit("LookupEnd", c=tok[0], n=tok[1], ok=bool(ret))

        tracer.wrap(DNSClient, "check_domain_exists", before=lk_before, after=lk_after)

        # DNS server: the reply leaves (provisional: withdrawn when nothing was sent)
        def ds_send_before(sw, *a, **k):
            if not rec.is_server(sw, "d"):
                return None
            p = arg(a, k, 0, "payload")
            if not isinstance(p, DNSPacket) or p.dns_reply is None:
                return None
            c = rec.cur()
            if c is None:
                rec.foreign += 1
                return None
            return rec.emit("DnsServe", c=c, n=rec.ctx.tok_name(p.dns_request.domain_name_request),
                            ip=rec.ctx.tok_addr(p.dns_reply.domain_name_ip_address))

        def ds_send_after(sw, tok, ret, exc, *a, **k):
            if tok is not None and rec.ctx is not None and not ret and len(rec.events) == tok + 1:
                rec.events.pop()

        tracer.wrap(DNSServer, "send", before=ds_send_before, after=ds_send_after)

        def dc_recv_after(sw, tok, ret, exc, *a, **k):
            c = rec.client_of(sw)
            p = arg(a, k, 0, "payload")
            if c is None or not isinstance(p, DNSPacket) or p.dns_reply is None:
                return
            rec.emit("DnsReply", c=c, n=rec.ctx.tok_name(p.dns_request.domain_name_request),
                     ip=rec.ctx.tok_addr(p.dns_reply.domain_name_ip_address), ok=bool(ret))

        tracer.wrap(DNSClient, "receive", after=dc_recv_after)

        def reg_after(sw, tok, ret, exc, *a, **k):
            if rec.is_server(sw, "d") and exc is None:
                rec.emit("Register", n=rec.ctx.tok_name(arg(a, k, 0, "domain_name")),
                         ip=rec.ctx.tok_addr(arg(a, k, 1, "domain_ip_address")))

        tracer.wrap(DNSServer, "dns_register", after=reg_after)

        def add_after(sw, tok, ret, exc, *a, **k):
            c = rec.client_of(sw)
            if c is not None and exc is None:
                rec.emit("AddCache", c=c, n=rec.ctx.tok_name(arg(a, k, 0, "domain_name")),
                         ip=rec.ctx.tok_addr(arg(a, k, 1, "ip_address")), ok=bool(ret))

        tracer.wrap(DNSClient, "add_domain_to_cache", after=add_after)

        # browser
        def br_before(sw, *a, **k):
            c = rec.client_of(sw)
            if c is None:
                return None
            url = arg(a, k, 0, "url") or sw.config.target_url
            host, lit, path = rec.ctx.parse_url(url)
            rec.emit("BrowseBegin", c=c, host=host, lit=lit, path=path)
            rec.stack.append(c)
            return (c, host)

        def br_after(sw, tok, ret, exc, *a, **k):
            if tok is None or rec.ctx is None:
                return
            rec.stack.pop()
            if exc is not None:
                rec.emit("Raised", c=tok[0], host=tok[1], st=type(exc).__name__)
            else:
                rec.emit("BrowseEnd", c=tok[0], ok=bool(ret))

        tracer.wrap(WebBrowser, "get_webpage", before=br_before, after=br_after)

        def br_recv_after(sw, tok, ret, exc, *a, **k):
            c = rec.client_of(sw)
            p = arg(a, k, 0, "payload")
            if c is not None and isinstance(p, HttpResponsePacket) and ret:
                rec.emit("HttpResp", c=c, code=int(p.status_code))

        tracer.wrap(WebBrowser, "receive", after=br_recv_after)

        # web server
        def get_before(sw, *a, **k):
            if not rec.is_server(sw, "w"):
                return None
            rec.http = {"conn": False, "q": False}
            return True

        def get_after(sw, tok, ret, exc, *a, **k):
            if tok is None or rec.ctx is None:
                return
            http, rec.http = rec.http or {}, None
            if exc is not None:
                rec.emit("Raised", c=rec.cur() or "", st=type(exc).__name__)
                return
            c = rec.cur()
            if c is None:
                rec.foreign += 1
                return
            p = arg(a, k, 0, "payload")
            _h, _l, path = rec.ctx.parse_url(p.request_url)
            rec.emit("WebServe", c=c, path=path, conn=bool(http.get("conn")), q=bool(http.get("q")),
                     code=int(ret.status_code))

        tracer.wrap(WebServer, "_handle_get_request", before=get_before, after=get_after)

        def conn_after(sw, tok, ret, exc, *a, **k):
            if rec.http is not None:
                rec.http["conn"] = bool(ret)

        tracer.wrap(WebServer, "_establish_db_connection", after=conn_after)

        def q_after(conn, tok, ret, exc, *a, **k):
            if rec.http is not None:
                rec.http["q"] = bool(ret)

        tracer.wrap(DatabaseClientConnection, "query", after=q_after)

        def proc_before(sw, *a, **k):
            if not rec.is_server(sw, "w"):
                return None
            return len(sw.response_codes_this_timestep)

        def proc_after(sw, tok, ret, exc, *a, **k):
            if tok is None or rec.ctx is None:
                return
            codes = sw.response_codes_this_timestep
            if len(codes) > tok and rec.cur() is not None:
                rec.emit("WebLog", code=int(codes[-1]))

        tracer.wrap(WebServer, "_process_http_request", before=proc_before, after=proc_after)

        def tick_after(sw, tok, ret, exc, *a, **k):
            if rec.is_server(sw, "w") and rec.ctx.sw(rec.ctx.w, "web-server") is sw:
                rec.emit("Tick")

        tracer.wrap(WebServer, "pre_timestep", after=tick_after)

        # operating states and power
        def on_op(sw, name, old, new):
            if rec.ctx is None or old is None or old == new:
                return
            node = getattr(getattr(sw, "software_manager", None), "node", None)
            tok = rec.ctx.node_tok.get(id(node))
            if tok is None or rec.ctx.sw(node, sw.name) is not sw:
                return
            kind = KIND.get(sw.name)
            if kind in ("dc", "br") and tok in rec.ctx.clients:
                rec.emit("SetOp", kind=kind, c=tok, st=new.name)
            elif (kind == "ds" and tok == "d") or (kind == "ws" and tok == "w"):
                rec.emit("SetOp", kind=kind, st=new.name)

        for cls in (DNSClient, DNSServer, WebServer, WebBrowser):
            tracer.watch(cls, ["operating_state"], on_op)

        def on_node(node, name, old, new):
            if rec.ctx is None:
                return
            tok = rec.ctx.node_tok.get(id(node))
            if tok is None:
                return
            b0, b1 = old == NodeOperatingState.ON, new == NodeOperatingState.ON
            if b0 != b1:
                rec.emit("Power", node=tok, b=b1)

        tracer.watch(Node, ["operating_state"], on_node)


# ---------------------------------------------------------------------------------------
# (b) behaviours of the model as stimulus for a small real network
# ---------------------------------------------------------------------------------------


def net_cfg(clients: List[str], dns: str, has_db: bool) -> Dict[str, Any]:
    S = scenarios
    dur = {"start_up_duration": 0, "shut_down_duration": 0}
    dns_ip = {"d": DIP, "none": None, "x": XIP}[dns]
    nodes = [S.host(c, CIPS[c], "computer", dns_server=dns_ip, **dur) for c in clients]
    nodes += [
        S.host("d", DIP, "server", services=[{"type": "dns-server", "options": {"domain_mapping": {NAME["a"]: WIP}}}], **dur),
        S.host("w", WIP, "server", services=[{"type": "web-server"}],
               applications=([{"type": "database-client", "options": {"db_server_ip": BIP}}] if has_db else []), **dur),
        S.host("b", BIP, "server", services=[{"type": "database-service"}], **dur),
        {"hostname": "sw", "type": "switch", "num_ports": 8},
    ]
    links = [S.link(h, 1, "sw", i + 1) for i, h in enumerate(clients + ["d", "w", "b"])]
    return S.base_cfg(nodes, links)


def actions_of(beh) -> List[List[Any]]:
    """The stimulus of a -simulate behaviour: the calls from outside (the other actions are the code's own)."""
    out = []
    for st in beh[1:]:
        a = st["state"]["act"]
        if a[0] in ("LookupBegin", "BrowseBegin", "SetOp", "Power", "Register", "AddCache", "SetDb", "Tick"):
            out.append(list(a))
    return out


def directed() -> List[Tuple[str, bool, List[List[Any]]]]:
    """Directed sequences in the model's alphabet that random simulation reaches rarely."""
    T = ["Tick"]
    B = lambda c, h, p: ["BrowseBegin", c, h, p]  # noqa
    L = lambda c, n: ["LookupBegin", c, n]  # noqa
    return [
        ("d", True, [B("c1", "a", ""), B("c1", "a", "users"), ["SetDb", False], B("c1", "a", "users"), B("c2", "a", "users"),
                     ["SetDb", True], B("c1", "a", "users"), T, B("c2", "a", "nope"), T, T]),
        ("d", True, [["SetDb", False], B("c1", "a", "users"), ["SetDb", True], B("c1", "a", "users"), T]),
        ("d", False, [B("c1", "a", "users"), B("c1", "ipw", "users"), B("c1", "a", ""), T]),
        ("d", True, [["SetOp", "ws", "", "RESTARTING"], B("c1", "a", ""), T, B("c1", "a", ""), T, T, T, B("c1", "a", "")]),
        ("d", True, [["SetOp", "ds", "", "RESTARTING"], L("c1", "a"), T, T, T, T, L("c1", "a"), L("c1", "a")]),
        ("d", True, [["SetOp", "ds", "", "DISABLED"], L("c1", "a"), ["Register", "b", "w"], ["SetOp", "ds", "", "RUNNING"],
                     L("c1", "b"), ["Register", "b", "x"], L("c1", "b"), L("c2", "b"), B("c2", "b", ""), B("c1", "b", "")]),
        ("d", True, [["AddCache", "c1", "b", "w"], ["Power", "d", False], L("c1", "b"), L("c1", "a"), B("c1", "b", ""),
                     ["Power", "d", True], L("c1", "a"), ["SetOp", "dc", "c1", "STOPPED"], ["AddCache", "c1", "a", "x"],
                     L("c1", "a"), B("c1", "a", ""), B("c1", "ipw", "")]),
        ("d", True, [B("c1", "a", ""), ["Power", "w", False], B("c1", "a", ""), B("c2", "a", ""), ["Power", "w", True],
                     B("c2", "a", ""), ["SetOp", "ws", "", "PAUSED"], B("c1", "a", ""), ["SetOp", "ws", "", "RUNNING"],
                     B("c1", "a", "")]),
        ("d", True, [["SetOp", "br", "c1", "CLOSED"], B("c1", "a", ""), ["SetOp", "br", "c1", "RUNNING"], B("c1", "a", ""),
                     ["Power", "c1", False], B("c1", "a", ""), L("c1", "a"), ["Power", "c1", True], B("c1", "a", "")]),
        ("none", True, [L("c1", "a"), B("c1", "a", ""), B("c1", "ipw", ""), ["AddCache", "c1", "a", "w"], B("c1", "a", "users")]),
        ("x", True, [L("c1", "a"), B("c1", "a", ""), B("c1", "ipw", "users"), B("c2", "ipw", "nope")]),
    ]


def documented_url_forms() -> List[Tuple[str, bool, List[List[Any]]]]:
    """web_browser.rst: `The URL can be in any format so long as the domain is within it`: `example.com`."""
    return [
        ("d", True, [["BrowseUrl", "c1", NAME["a"]]]),
        ("none", True, [["AddCache", "c1", "a", "w"], ["BrowseUrl", "c1", NAME["a"]]]),
    ]


class Driver:
    """Runs stimulus sequences on a fresh real network and returns the recorded trace."""

    def __init__(self, rec: Recorder, rng: random.Random):
        self.rec, self.rng = rec, rng
        self.counts: Dict[str, int] = {}

    def run(self, clients: List[str], dns: str, has_db: bool, actions: List[List[Any]], src: str) -> Dict[str, Any]:
        game = scenarios.build(net_cfg(clients, dns, has_db))
        net = game.simulation.network
        node = {h: net.get_node_by_hostname(h) for h in clients + ["d", "w", "b"]}
        for h in clients + ["d", "w"]:
            for sw in node[h].software_manager.software.values():
                if hasattr(sw, "restart_duration"):
                    sw.restart_duration = 2
        warm = self.rng.random() < 0.5
        if warm:  # ARP caches warm or cold (decides between SERVER_UNREACHABLE and LOADED/404 of an unanswered request)
            for h in clients:
                node[h].ping(DIP, pings=1)
                node[h].ping(WIP, pings=1)
        ctx = Ctx(node["d"], node["w"], {c: node[c] for c in clients}, True,
                  names={v: k for k, v in NAME.items()}, addrs={WIP: "w", XIP: "x", DIP: "d"})
        self.rec.begin(ctx)
        req = game.simulation.apply_request
        done = []
        for a in actions:
            self.counts[a[0]] = self.counts.get(a[0], 0) + 1
            done.append(a)
            try:
                self.apply(game, node, req, a)
            except Exception:  # noqa  (recorded as a Raised event by the wrappers; the exchange in flight is lost)
                if not self.rec.events or self.rec.events[-1]["ev"] != "Raised":
                    self.rec.emit("Raised", st="outside-handlers")
                break
        return self.rec.end({"src": src, "dns": dns, "hasDb": has_db, "warm": warm}, {"clients": clients, "dns": dns,
                            "hasDb": has_db, "actions": done})

    def apply(self, game, node, req, a):
        sm = lambda h, n: node[h].software_manager.software.get(n)  # noqa
        kind = a[0]
        if kind == "LookupBegin":
            sm(a[1], "dns-client").check_domain_exists(NAME[a[2]])
        elif kind in ("BrowseBegin", "BrowseUrl"):
            url = a[2] if kind == "BrowseUrl" else f"http://{NAME[a[2]]}/" + (a[3] + "/" if a[3] and self.rng.random() < 0.5 else a[3])
            br = sm(a[1], "web-browser")
            if self.rng.random() < 0.5:
                br.get_webpage(url)
            else:  # the agent's way: configured target_url + `execute' request
                br.config.target_url = url
                req(["network", "node", a[1], "application", "web-browser", "execute"])
        elif kind == "SetOp":
            k, c, st = a[1], a[2], a[3]
            host = c if k in ("dc", "br") else ("d" if k == "ds" else "w")
            if k == "br":
                if st == "CLOSED":
                    req(["network", "node", host, "application", "web-browser", "close"])
                else:
                    sm(host, "web-browser").run()
                return
            cur = sm(host, SVC[k]).operating_state.name
            verbs = {"STOPPED": ["enable"] if cur == "DISABLED" else ["stop"], "PAUSED": ["pause"], "DISABLED": ["disable"],
                     "RESTARTING": ["restart"],
                     "RUNNING": {"STOPPED": ["start"], "PAUSED": ["resume"], "DISABLED": ["enable", "start"]}.get(cur, ["start"])}[st]
            for v in verbs:
                req(["network", "node", host, "service", SVC[k], v])
        elif kind == "Power":
            req(["network", "node", a[1], "startup" if a[2] else "shutdown"])
        elif kind == "Register":
            ip = ADDR[a[2]]
            sm("d", "dns-server").dns_register(NAME[a[1]], IPv4Address(ip) if self.rng.random() < 0.5 else ip)
        elif kind == "AddCache":
            sm(a[1], "dns-client").add_domain_to_cache(NAME[a[2]], IPv4Address(ADDR[a[3]]))
        elif kind == "SetDb":
            req(["network", "node", "b", "service", "database-service", "start" if a[1] else "stop"])
        elif kind == "Tick":
            game.pre_timestep()
            game.advance_timestep()
        else:
            raise ValueError(a)


# ---------------------------------------------------------------------------------------
# (e) scenario scale
# ---------------------------------------------------------------------------------------


def ctx_of_game(game) -> Optional[Ctx]:
    """Bind a whole scenario: the node with a dns-server, the node with a web-server, every other host that has a
    browser and a dns-client."""
    d = w = None
    clients = {}
    votes: Dict[str, int] = {}
    for node in game.simulation.network.nodes.values():
        sm = getattr(node, "software_manager", None)
        dc = sm.software.get("dns-client") if sm is not None else None
        if dc is not None and dc.dns_server is not None:
            votes[str(dc.dns_server)] = votes.get(str(dc.dns_server), 0) + 1
    best = -1
    for node in game.simulation.network.nodes.values():
        sm = getattr(node, "software_manager", None)
        if sm is None:
            continue
        if "dns-server" in sm.software:
            v = max([votes.get(str(ni.ip_address), 0) for ni in node.network_interface.values()] + [0])
            if v > best:
                d, best = node, v
    for node in game.simulation.network.nodes.values():
        sm = getattr(node, "software_manager", None)
        if sm is not None and node is not d and "web-server" in sm.software and w is None:
            w = node
    if d is None or w is None:
        return None
    for node in game.simulation.network.nodes.values():
        sm = getattr(node, "software_manager", None)
        if sm is None or node is d or node is w:
            continue
        if "web-browser" in sm.software and "dns-client" in sm.software:
            clients["h_" + _san(node.config.hostname)] = node
    if not clients:
        return None
    addrs = {}
    for tok, node in (("w", w), ("d", d)):
        for ni in node.network_interface.values():
            addrs[str(ni.ip_address)] = tok
    return Ctx(d, w, clients, False, addrs=addrs)


def scenario_traces(rec: Recorder, name: str, episodes: int, steps: int, seed: int) -> List[Dict[str, Any]]:
    """Step a shipped scenario: through PrimaiteGymEnv with random blue actions when it has a proxy agent, otherwise
    through PrimaiteGame.step() with scripted requests (browser executions, service stop / start, node power)."""
    import copy

    from primaite.session.environment import PrimaiteGymEnv

    cfg = copy.deepcopy(scenarios.shipped(name))
    io = cfg.setdefault("io_settings", {})
    for k in ("save_agent_actions", "save_step_metadata", "save_pcap_logs", "save_sys_logs", "save_agent_logs"):
        io[k] = False
    try:
        env = PrimaiteGymEnv(env_config=copy.deepcopy(cfg))
    except Exception:  # noqa  (no proxy agent / several proxy agents)
        env = None
    out = []
    rng = random.Random(seed)
    for ep in range(episodes):
        if env is not None:
            env.reset(seed=seed + ep)
            game = env.game
            env.action_space.seed(seed * 1000 + ep)
        else:
            game = scenarios.build(cfg)
        ctx = ctx_of_game(game)
        if ctx is None:
            return out
        rec.begin(ctx)
        p_act = (0.15, 0.4, 0.8)[ep % 3]
        taken: List[Any] = []
        hostname = {c: n.config.hostname for c, n in ctx.clients.items()}
        users = [c for c, n in ctx.clients.items() if getattr(ctx.sw(n, "web-browser").config, "target_url", None)]
        dname, wname = ctx.d.config.hostname, ctx.w.config.hostname
        for i in range(steps):
            try:
                if env is not None:
                    a = env.action_space.sample() if rng.random() < p_act else 0
                    taken.append(int(a))
                    _o, _r, term, trunc, _i = env.step(a)
                    if term or trunc:
                        break
                else:
                    reqs = []
                    for c in users:
                        if rng.random() < 0.5:
                            reqs.append(["network", "node", hostname[c], "application", "web-browser", "execute"])
                    if rng.random() < p_act * 0.5:
                        reqs.append(rng.choice([
                            ["network", "node", dname, "service", "dns-server", rng.choice(["stop", "start", "restart"])],
                            ["network", "node", wname, "service", "web-server", rng.choice(["stop", "start", "restart", "pause", "resume"])],
                            ["network", "node", rng.choice([dname, wname] + list(hostname.values())), rng.choice(["shutdown", "startup"])],
                            ["network", "node", hostname[rng.choice(sorted(hostname))], "service", "dns-client", rng.choice(["stop", "start"])],
                        ]))
                    for r_ in reqs:
                        taken.append(r_)
                        game.simulation.apply_request(r_)
                    game.step()
            except Exception as ex:  # noqa
                # an exception that passed through one of this component's handlers has been recorded as a Raised event
                # by the wrappers; anything else is not this component's (C01 is about step() never raising)
                if not rec.events or rec.events[-1]["ev"] != "Raised":
                    rec.other_exceptions.append(f"{name} episode {ep} step {i}: {type(ex).__name__}")
                break
        out.append(rec.end({"src": "scenario", "scenario": name, "episode": ep, "p_act": p_act,
                            "driver": "gym" if env is not None else "scripted"},
                           {"scenario": name, "seed": seed + ep, "actions": taken}))
    return out


# ---------------------------------------------------------------------------------------


def sig_fn(tr, event, stuck):
    fail = set((stuck or {}).get("fail") or [])
    sig = {"src": "scenario" if tr["meta"]["src"] == "scenario" else "network"}
    if event.get("ev") == "Raised":
        sig["exception"] = event.get("st")
    if fail & {"StatusRules", "ServesTheRequest"}:
        sig["path"] = event.get("path")
    if event.get("ev") == "SetOp":
        sig["kind"] = event.get("kind")
    return sig


def main(tier: str, seed: int) -> int:
    chk = common.Check(PROP, "model_checking", tier, seed)
    quick = tier == "quick"
    rng = random.Random(seed)

    # (a) exhaustive (TLC runs in the background while the code is exercised; judged at the end)
    from concurrent.futures import ThreadPoolExecutor

    pool = ThreadPoolExecutor(max_workers=5)
    f_mc = pool.submit(tlc.mc, "MC_DnsWeb")
    f_neg = pool.submit(tlc.mc, "MC_DnsWeb", cfg="MC_DnsWebNeg.cfg")
    f_deep = None if quick else pool.submit(tlc.mc, "MC_DnsWeb", cfg="MC_DnsWebDeep.cfg", timeout=1500)
    t_phase = {}
    t0 = time.time()

    # (b) behaviours -> stimulus
    n_beh = 50 if quick else 700
    depth = 60 if quick else 110
    f_s1 = pool.submit(tlc.simulate, "MC_DnsWeb", cfg="MC_DnsWebSim.cfg", num=n_beh // 2, depth=depth, seed=seed + 7)
    f_s2 = pool.submit(tlc.simulate, "MC_DnsWeb", cfg="MC_DnsWebSimEnv.cfg", num=n_beh - n_beh // 2, depth=depth, seed=seed + 8)
    common.boot()
    behs, info = f_s1.result()
    behs2, info2 = f_s2.result()
    behs += behs2
    chk.cov["transitions"] += info["states"] + info2["states"]
    t_phase["simulate+boot"] = round(time.time() - t0, 1)

    rec = Recorder()
    rec.install()
    drv = Driver(rec, rng)
    traces: List[Dict[str, Any]] = []
    for beh in behs:
        s0 = beh[0]["state"]
        clients = sorted(s0["clients"]["__set__"])
        dns = s0["dnsCfg"][clients[0]]
        if dns != "d" and rng.random() < 0.6:
            dns = "d"  # the replay does not depend on what the model predicted: exercise the configured set-up more often
        acts = actions_of(beh)
        traces.append(drv.run(clients, dns, bool(s0["hasDb"]), acts, "mc"))
        chk.add_case({"dns": dns, "db": s0["hasDb"], "acts": acts},
                     nontrivial=any(a[0] in ("SetOp", "Power", "Register", "SetDb") for a in acts))
    for dns, has_db, acts in directed():
        for rep in range(1 if quick else 3):
            traces.append(drv.run(["c1", "c2"], dns, has_db, acts, "directed"))
        chk.add_case({"dns": dns, "db": has_db, "acts": acts})
    for dns, has_db, acts in documented_url_forms():
        traces.append(drv.run(["c1"], dns, has_db, acts, "url-forms"))
        chk.add_case({"dns": dns, "db": has_db, "acts": acts})
    t_phase["replay"] = round(time.time() - t0, 1)
    chk.cov["stimulus_actions_applied_to_code"] = dict(sorted(drv.counts.items()))
    for need in ("LookupBegin", "BrowseBegin", "SetOp", "Power", "Register", "AddCache", "SetDb", "Tick"):
        if not drv.counts.get(need):
            raise RuntimeError(f"vacuous binding: model action {need} was never applied to the code")

    # (e) scenario scale
    plan = ([("data_manipulation.yaml", 2, 45), ("multi_lan_internet_network_example.yaml", 1, 30)] if quick else
            [("data_manipulation.yaml", 9, 128), ("multi_lan_internet_network_example.yaml", 6, 100), ("uc7_config.yaml", 2, 100)])
    n_scen = 0
    for name, episodes, steps in plan:
        trs = scenario_traces(rec, name, episodes, steps, seed)
        n_scen += len(trs)
        traces += trs
    if rec.other_exceptions:
        chk.notes.append("scenario episodes ended by an exception outside this component: " + "; ".join(rec.other_exceptions))
    if n_scen == 0:
        raise RuntimeError("no scenario-scale trace was recorded")
    chk.cov["scenario_traces"] = n_scen
    chk.cov["scenario_events"] = sum(len(t["ev"]) for t in traces if t["meta"]["src"] == "scenario")
    chk.cov["events_of_untracked_requesters_skipped"] = rec.foreign

    t_phase["scenario"] = round(time.time() - t0, 1)

    # (d) TLC judges
    res = tlc.validate("DnsWebTrace", traces, chunk=20)
    common.judge_traces(chk, "DnsWeb", traces, res, sig_fn, selftest="DnsWebTrace")
    t_phase["validate+selftest"] = round(time.time() - t0, 1)
    accepted = sum(1 for (reached, length) in res["results"] if reached == length + 1)
    if accepted == 0:
        raise RuntimeError("no trace was accepted")
    per = chk.cov.get("impl_events", {})
    for e in EVENTS:
        if not per.get(e):
            raise RuntimeError(f"vacuous binding: no accepted event {e} was recorded from the code")
    scen_ev: Dict[str, int] = {}
    for tr, (reached, length) in zip(traces, res["results"]):
        if tr["meta"]["src"] == "scenario":
            for e in tr["ev"][: max(0, reached - 1)]:
                scen_ev[e["ev"]] = scen_ev.get(e["ev"], 0) + 1
    chk.cov["scenario_events_accepted"] = dict(sorted(scen_ev.items()))
    if not scen_ev.get("BrowseEnd") or not scen_ev.get("DnsServe"):
        raise RuntimeError("vacuous scenario run: no page request / DNS answer was recorded in the shipped scenario")
    chk.cov["traces_accepted"] = accepted
    chk.cov["traces_by_source"] = {s: sum(1 for t in traces if t["meta"]["src"] == s) for s in ("mc", "directed", "url-forms", "scenario")}
    chk.cov["events_total"] = sum(len(t["ev"]) for t in traces)
    outcomes: Dict[str, int] = {}
    for tr in traces:
        prev = {c: len(h) for c, h in tr["cfg"]["hist"].items()}
        for e in tr["ev"]:
            if e["ev"] == "BrowseEnd":
                k = "no item" if len(e["hist"]) == prev.get(e["c"], 0) else str(e["hist"][-1])
                outcomes[k] = outcomes.get(k, 0) + 1
                prev[e["c"]] = len(e["hist"])
    chk.cov["page_request_outcomes(1=SERVER_UNREACHABLE)"] = dict(sorted(outcomes.items()))
    chk.sample({"cfg": traces[0]["cfg"], "events": traces[0]["ev"][:5]})

    # (a) verdict of the exhaustive runs
    r = f_mc.result()
    if not r["ok"]:
        chk.violation({"module": "MC_DnsWeb", "clause": str(r["violation"])}, {"tlc": r["output_tail"]})
    chk.add_mc("MC_DnsWeb(1 client, names a/b + IP literal, 3 paths, 4 configurations, <= 2 environment changes)", r)
    for act in MC_ACTIONS:
        if r["coverage"].get(act, (0, 0))[1] == 0:
            raise tlc.TLCError(f"vacuous model: action {act} never taken")
    rn = f_neg.result()
    if rn["ok"] or rn["violation"] != ("action_property", "LookupNeedsLiveServer"):
        raise tlc.TLCError(f"negative configuration MC_DnsWebNeg.cfg was not refuted as expected: {rn['violation']}")
    chk.cov["negative_model"] = "MC_DnsWebNeg.cfg: 'a successful lookup needs a live server' refuted by TLC (cache hit)"
    if f_deep is not None:
        rd = f_deep.result()
        if not rd["ok"]:
            chk.violation({"module": "MC_DnsWebDeep", "clause": str(rd["violation"])}, {"tlc": rd["output_tail"]})
        chk.add_mc("MC_DnsWeb/MC_DnsWebDeep.cfg (2 clients, <= 2 environment changes)", rd)
    chk.cov["phase_wall_s"] = t_phase
    chk.assumptions += [
        "addresses and names are tokens: 'w' = an address of the web server node, every other token = an address where no "
        "web server answers; the database behind the users page is environment: the outcome of the web server's connection "
        "attempt and query are logged values (the database itself is C17's)",
        "an unanswered page request may be recorded as SERVER_UNREACHABLE or as LOADED/404 (the latter is what the "
        "repository's own tests pin); an unresolvable URL may leave no history item; a failed users query may be 404 or 500",
        "delivery obligations (D6, W8) are demanded only on the harness' single-switch network; in shipped scenarios "
        "(routers, ACLs, NIC actions in between) only the safety clauses are demanded",
        "node power uses start_up/shut_down duration 0 on the harness network; restart_duration 2",
    ]
    return chk.finish()
