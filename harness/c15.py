"""C15 - the file system stays structurally consistent under any operation sequence.

Model: spec/FileSystem.tla (MC_FileSystem exhaustive to depth 10 on root + 1 folder name x 2 file names).
Binding: TLC behaviours (operations on existing, deleted and never-created targets, ticks) are replayed on
a real host through the request API, the agent-action door (ActionManager.form_request) and the
folder-level request variants; after every operation the membership of every item ever created in the
live / deleted dictionaries, its own `deleted` flag, describe_state() and the per-tick counters are
projected from the objects and TLC validates the history against FileSystemTrace.tla.
"""
from __future__ import annotations

import random
from typing import Any, Dict, List

from . import common, scenarios, tlc
from . import rec_requests as rq
from .rec_fs import FsProjector

PROP = "C15"
FILE_OPS = ["scan", "repair", "corrupt", "checkhash", "restore", "access"]
FOLDER_OPS = ["scan", "repair", "corrupt", "checkhash"]


def _args(params: str) -> List[str]:
    return [p.strip().strip('"') for p in params.split(",")] if params else []


def run_behaviour(beh, door: str, rng: random.Random, durations=(3, 3), power: str = "on") -> Dict[str, Any]:
    """power: "on" (the node stays ON, as the behaviours of the model assume), "cycle" (shut-down / start-up / reset requests are
    interleaved; the model's MPower steps are executed too) or "declared_off" (the scenario declares the host OFF, with files)."""
    pdur = rng.choice([0, 1, 2])
    cfg = scenarios.p2p(dur=pdur)
    if power == "declared_off":
        cfg["simulation"]["network"]["nodes"][0]["operating_state"] = "OFF"
        cfg["simulation"]["network"]["nodes"][0]["folders"] = [
            {"folder_name": "f", "files": [{"file_name": "a.txt"}, {"file_name": "b.txt"}]}, {"folder_name": "g"}]
    game = scenarios.build(cfg)
    sim = game.simulation
    node = sim.network.get_node_by_hostname("a")
    fs = node.file_system

    def is_on():
        return node.operating_state.name == "ON"
    for fo in fs.folders.values():
        fo.scan_duration, fo.restore_duration = durations
    fs._default_folder_scan_duration, fs._default_folder_restore_duration = durations
    proj = FsProjector(fs)
    p0 = proj.project()
    trace = {"cfg": {"folders": p0["folders"], "files": p0["files"], "on": is_on(), "nc": p0["nc"], "nd": p0["nd"]}, "ev": [], "meta": {"door": door, "power": power},
             "stimulus": {"door": door, "power": power, "power_durations": pdur, "ops": []}}

    def emit(ev, fo="", fi="", ok=False, raised=False):
        p = proj.project()
        trace["ev"].append({"ev": ev, "fo": fo, "fi": fi, "ok": bool(ok), "raised": bool(raised), "on": is_on(), **p})

    def power_op():
        st = node.operating_state.name
        verb = rng.choice(["shutdown", "reset"]) if st == "ON" else ("startup" if st == "OFF" else rng.choice(["startup", "shutdown"]))
        return sim.apply_request(["network", "node", "a", verb])

    def req(tail):
        return sim.apply_request(["network", "node", "a", "file_system"] + tail)

    def act(name, **opts):
        return sim.apply_request(rq.form(name, dict(node_name="a", **opts)))

    def do(ev, fo="", fi=""):
        """returns response"""
        use_action = door == "action" or (door == "mixed" and rng.random() < 0.5)
        if ev == "CreateFile":
            # (the request's last element is `force`: a forced creation replaces a LIVE file of that name - one live file
            # of the name afterwards, as without force - and is an ordinary creation otherwise)
            return act("node-file-create", folder_name=fo, file_name=fi) if use_action else req(["create", "file", fo, fi, rng.random() < 0.4])
        if ev == "CreateFolder":
            return act("node-folder-create", folder_name=fo) if use_action else req(["create", "folder", fo])
        if ev == "DeleteFile":
            if use_action:
                return act("node-file-delete", folder_name=fo, file_name=fi)
            return req(["delete", "file", fo, fi]) if rng.random() < 0.6 else req(["folder", fo, "delete", fi])
        if ev == "DeleteFolder":
            return req(["delete", "folder", fo])
        if ev == "RestoreFile":
            return act("node-file-restore", folder_name=fo, file_name=fi) if use_action else req(["restore", "file", fo, fi])
        if ev == "RestoreFolder":
            if use_action and rng.random() < 0.5:
                return act("node-folder-restore", folder_name=fo)
            return req(["restore", "folder", fo])
        if ev == "FileOp":
            op = rng.choice(FILE_OPS)
            if op == "access":
                return act("node-file-access", folder_name=fo, file_name=fi) if use_action else req(["access", fo, fi])
            if use_action and op != "restore":
                return act(f"node-file-{op}", folder_name=fo, file_name=fi)
            return req(["folder", fo, "file", fi, op])
        if ev == "FolderOp":
            op = rng.choice(FOLDER_OPS)
            return act(f"node-folder-{op}", folder_name=fo) if use_action and op != "corrupt" else req(["folder", fo, op])
        raise ValueError(ev)

    names_fo, names_fi = ["root", "f", "g"], ["a.txt", "b.txt", "c.txt"]
    for st in beh[1:]:
        a = st["action"]
        args = _args(st["params"])
        steps = []
        if a == "MPreTick":
            steps.append(("PreTick",))
        elif a == "MTick":
            steps.append(("Tick",))
        elif a == "MPower":
            if power != "on":
                steps.append(("Power",))
        else:
            ev = a[1:]
            steps.append((ev, args[0], args[1] if len(args) > 1 else ""))
            # other operations are not part of the structural model: interleave them here
            if rng.random() < 0.35:
                steps.append(("FileOp", rng.choice(names_fo), rng.choice(names_fi)))
            if rng.random() < 0.2:
                steps.append(("FolderOp", rng.choice(names_fo), ""))
            if power != "on" and rng.random() < 0.15:
                # (a power request in the same step as an operation, and the start of the next tick right after it)
                steps.append(("Power",))
                if rng.random() < 0.5:
                    steps.append(("PreTick",))
        for s in steps:
            trace["stimulus"]["ops"].append(list(s))
            if s[0] == "PreTick":
                game.pre_timestep()
                emit("PreTick")
            elif s[0] == "Tick":
                game.advance_timestep()
                emit("Tick", ok=True)
            elif s[0] == "Power":
                r = power_op()
                emit("Power", ok=getattr(r, "status", None) == "success")
            else:
                try:
                    was_on = is_on()
                    r = do(*s)
                    if is_on() != was_on:
                        raise tlc.TLCError(f"harness: a file-system operation changed the node's power state ({s})")
                    emit(s[0], s[1], s[2], getattr(r, "status", None) == "success")
                except tlc.TLCError:
                    raise
                except Exception as e:  # noqa - an exception out of repository code is an event no module allows
                    emit(s[0], s[1], s[2], False, raised=True)
                    trace["meta"]["exception"] = repr(e)
                    return trace
    return trace


def sig_fn(tr, event, stuck):
    return {"door": tr["meta"]["door"], "op": event.get("ev")}


def power_of(i: int) -> str:
    return ("on", "on", "on", "cycle", "cycle", "declared_off", "on", "cycle")[i % 8]


def main(tier: str, seed: int) -> int:
    chk = common.Check(PROP, "model_checking", tier, seed)
    rng = random.Random(seed)
    r = tlc.mc("MC_FileSystem")
    if not r["ok"]:
        chk.violation({"module": "MC_FileSystem", "clause": str(r["violation"])}, {"tlc": r["output_tail"]})
    chk.add_mc("MC_FileSystem(root+1 folder name, 2 file names, <=5 items, depth 10)", r)
    for act in ("MCreateFile", "MCreateFolder", "MDeleteFile", "MDeleteFolder", "MRestoreFile", "MRestoreFolder", "MPreTick", "MTick"):
        if r["coverage"].get(act, (0, 0))[0] == 0:
            raise tlc.TLCError(f"vacuous model: action {act} never produced a new state")
    behs = []
    n = 90 if tier == "quick" else 900
    b1, i1 = tlc.simulate("MC_FileSystem", "MC_FileSystem.cfg", num=n, depth=10, seed=seed + 1)
    b2, i2 = tlc.simulate("MC_FileSystem", "Sim_FileSystem.cfg", num=n, depth=30, seed=seed + 2)
    chk.cov["transitions"] += i1["states"] + i2["states"]
    behs = b1 + b2
    common.boot()
    traces = []
    doors = ["request", "action", "mixed"]
    for i, beh in enumerate(behs):
        door = doors[i % 3]
        d = rng.choice([(1, 1), (2, 1), (3, 3), (1, 2)])
        tr = run_behaviour(beh, door, rng, d, power_of(i // 3))
        traces.append(tr)
        chk.add_case({"door": door, "power": tr["stimulus"]["power"], "ops": tr["stimulus"]["ops"]},
                     nontrivial=any(o[0] in ("DeleteFile", "DeleteFolder") for o in tr["stimulus"]["ops"]))
    res = tlc.validate("FileSystemTrace", traces, chunk=100)
    common.judge_traces(chk, "FileSystem", traces, res, sig_fn, selftest="FileSystemTrace")
    n_off_pretick = sum(1 for tr in traces for e in tr["ev"] if e["ev"] == "PreTick" and not e["on"])
    n_off_refused = sum(1 for tr in traces for e in tr["ev"] if e["ev"] not in ("PreTick", "Tick", "Power") and not e["on"])
    if n_off_pretick == 0 or n_off_refused == 0:
        raise tlc.TLCError("vacuous: no tick started / no operation was attempted while the node was not ON")
    chk.notes.append(f"{n_off_pretick} ticks started and {n_off_refused} operations were attempted while the node was not ON "
                     f"(shutting down, off, booting; incl. hosts declared OFF with files)")
    for tr in traces[1:3]:
        chk.sample({"door": tr["meta"]["door"], "ops": tr["stimulus"]["ops"][:8], "last_event": tr["ev"][-1] if tr["ev"] else None})
    chk.assumptions += [
        "file names carry an extension (the simulator appends one to extension-less names)",
        "folder restore durations 1..3 (duration 0 belongs to C14); restore completion time is left open here (C14 checks it)",
    ]
    return chk.finish()
