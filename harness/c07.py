"""C07 - ACL verdict = first matching rule by position, else the implicit action; add/remove change
only the addressed position; each verdict increments exactly the deciding rule's hit counter.

Model: spec/Acl.tla (declarative Verdict) + MC_Acl (exhaustive: every list over 3 positions and a
covering rule domain, both implicit actions, every packet).  Binding: TLC behaviours of MC_Acl
(-simulate, product domain) are replayed into the real AccessControlList through three doors -
Python API, the requests produced by the agent actions (router list and the six firewall lists), and
scenario loading (Router/Firewall.from_config through PrimaiteGame.from_config) - plus a seeded
random part beyond the exhaustive domain (up to the real 24 positions, 4-bit addresses spread over
the 32 IPv4 bits, more ports).  Every Add / Remove / Check / Load event carries what was asked and the
list read back from the object; TLC validates every trace against AclTrace.tla.

Every stimulus is generated in two variants, "falsy" (may use port 0, a valid port that is falsy in
Python) and "clean" (port 0 renamed to another port), so that a divergence triggered by the former
does not hide the rest of the behaviour.
"""
from __future__ import annotations

import hashlib
import json
import random
from typing import Any, Dict, List

from . import common, tlc
from . import rec_acl as ra

PROP = "C07"
LISTS = ["router"] + [f"fw:{z}:{d}" for z, d in ra.FW_LISTS]
# |CoverRules| = 42, |CoreRules| = 10 (MC_Acl.tla): every list over 3 positions, both implicit actions
EXPECTED_DISTINCT = 2 * (43**3 + 11**3)
EXPECTED_CHECKS = 2 * 11**3 * 144


# ---------------------------------------------------------------------------------------------
# stimuli from TLC behaviours
# ---------------------------------------------------------------------------------------------


def _map_ports(d: Dict[str, Any], portmap: Dict[int, int]) -> Dict[str, Any]:
    d = dict(d)
    for k in ("sport", "dport"):
        if d[k] != ra.ANYN:
            d[k] = portmap[d[k]]
    return d


def _ops_from_behaviour(beh, portmap: Dict[int, int], posmap: List[int]) -> List[Dict[str, Any]]:
    ops = []
    for st in beh[1:]:
        last = st["state"]["last"]
        if last["ev"] == "Add":
            ops.append({"op": "add", "pos": posmap[last["pos"]], "rule": _map_ports(last["rule"], portmap)})
        elif last["ev"] == "Remove":
            ops.append({"op": "remove", "pos": posmap[last["pos"]]})
        elif last["ev"] == "Check":
            ops.append({"op": "check", "pkt": _map_ports(last["pkt"], portmap)})
    return ops


def _split_for_loading(ops: List[Dict[str, Any]]):
    """The list as it stands when it first holds its largest number of rules becomes the scenario's
    acl section; the remaining operations follow as requests."""
    table: Dict[int, Dict[str, Any]] = {}
    best, best_i, best_table = -1, -1, {}
    for i, op in enumerate(ops):
        if op["op"] == "add":
            table[op["pos"]] = op["rule"]
        elif op["op"] == "remove":
            table.pop(op["pos"], None)
        if len(table) > best:
            best, best_i, best_table = len(table), i, dict(table)
    load = [{"pos": p, "r": r} for p, r in sorted(best_table.items())]
    return load, ops[best_i + 1:]


def _stimuli_from_behaviour(k: int, beh, rng: random.Random) -> List[Dict[str, Any]]:
    out = []
    for variant, portmap in (("falsy", {0: 0, 53: 53, 80: 80}), ("clean", {0: 21, 53: 53, 80: 80})):
        for door in ("api", "request", "config"):
            emb = ra.Embedding.random(rng, 2)
            stim: Dict[str, Any] = {"door": door, "variant": variant, "source": "tlc", "emb": emb.to_json(),
                                    "style": rng.randrange(10**6)}
            if door == "api":
                n = 3 if k % 3 else 24
                posmap = [0, 1, 2] if n == 3 else sorted(rng.sample(range(24), 3))
                imp = beh[0]["state"]["implicit"]
                stim.update({"list": "standalone", "n": n, "implicit": imp, "ops": _ops_from_behaviour(beh, portmap, posmap)})
            else:
                posmap = sorted(rng.sample(range(24), 3))
                ops = _ops_from_behaviour(beh, portmap, posmap)
                stim["list"] = LISTS[(k + (3 if door == "config" else 0)) % len(LISTS)]
                if door == "config":
                    load, rest = _split_for_loading(ops)
                    stim.update({"load": load, "ops": rest})
                else:
                    stim["ops"] = ops
            out.append(stim)
    return out


# ---------------------------------------------------------------------------------------------
# random stimuli beyond the exhaustive domain
# ---------------------------------------------------------------------------------------------


def _random_rule(rng: random.Random, width: int, ports: List[int]) -> Dict[str, Any]:
    top = (1 << width) - 1
    r = ra.rule(action=rng.choice(["permit", "deny"]))
    if rng.random() < 0.45:
        r["proto"] = rng.choice(["tcp", "udp", "icmp", "tcp", "udp", "icmp", "none"])
    for a, m in (("src", "smask"), ("dst", "dmask")):
        x = rng.random()
        if x < 0.45:
            r[a] = rng.randint(0, top)
            if rng.random() < 0.6:
                r[m] = rng.choice([0, 1, top, rng.randint(0, top), rng.randint(0, top)])
        elif x < 0.50:
            r[m] = rng.randint(0, top)  # a mask without an address: the address stays unspecified
    if rng.random() < 0.35:
        r["sport"] = rng.choice(ports)
    if rng.random() < 0.45:
        r["dport"] = rng.choice(ports)
    return r


def _random_packet(rng: random.Random, width: int, ports: List[int], table: Dict[int, Dict[str, Any]]) -> Dict[str, Any]:
    top = (1 << width) - 1
    p = {"proto": rng.choice(["tcp", "udp", "icmp"]), "src": rng.randint(0, top), "dst": rng.randint(0, top),
         "sport": rng.choice(ports), "dport": rng.choice(ports)}
    if table and rng.random() < 0.7:
        # aim at a rule of the list: take over its specified fields, then perhaps spoil one
        r = table[rng.choice(sorted(table))]
        if r["proto"] in ("tcp", "udp", "icmp"):
            p["proto"] = r["proto"]
        for a, m in (("src", "smask"), ("dst", "dmask")):
            if r[a] != ra.ANYN:
                mask = r[m] if r[m] != ra.ANYN else 0
                p[a] = (r[a] & ~mask) | (rng.randint(0, top) & mask)
        for k in ("sport", "dport"):
            if r[k] != ra.ANYN:
                p[k] = r[k]
        if rng.random() < 0.4:
            f = rng.choice(["proto", "src", "dst", "sport", "dport"])
            if f == "proto":
                p[f] = rng.choice(["tcp", "udp", "icmp"])
            elif f in ("src", "dst"):
                p[f] = p[f] ^ (1 << rng.randrange(width))
            else:
                p[f] = rng.choice(ports)
    if p["proto"] == "icmp":
        p["sport"] = p["dport"] = ra.ANYN  # NoPort
    return p


def _random_stimulus(rng: random.Random, door: str, variant: str, length: int) -> Dict[str, Any]:
    names = ra.port_names()
    named = sorted(v for v in names if v > 0)
    width = 4
    emb = ra.Embedding.random(rng, width)
    ports = rng.sample(named, 4)
    if door != "config" and rng.random() < 0.5:
        ports += [rng.choice([1, 8081, 65535, 1024, 3000])]  # unnamed ports (not expressible in a scenario file)
    if variant == "falsy":
        ports.append(0)
    if door == "api":
        which, n = "standalone", rng.choice([3, 4, 8, 24, 24])
    else:
        which, n = rng.choice(LISTS), 24
    hot = sorted(rng.sample(range(n), min(n, rng.choice([3, 4, 6]))))  # positions used most, to get overwrites
    stim: Dict[str, Any] = {"door": door, "variant": variant, "source": "random", "list": which, "emb": emb.to_json(),
                            "style": rng.randrange(10**6)}
    if door == "api":
        stim.update({"n": n, "implicit": rng.choice(["permit", "deny"])})
    table: Dict[int, Dict[str, Any]] = {}
    if door == "config":
        for pos in rng.sample(range(n), rng.randint(0, 6)):
            table[pos] = _random_rule(rng, width, ports)
        stim["load"] = [{"pos": p, "r": r} for p, r in sorted(table.items())]
    ops = []
    for _ in range(length):
        x = rng.random()
        if x < 0.30:
            pos = rng.choice(hot) if rng.random() < 0.75 else rng.randrange(n)
            r = _random_rule(rng, width, ports)
            table[pos] = r
            ops.append({"op": "add", "pos": pos, "rule": r})
        elif x < 0.40:
            pos = rng.choice(sorted(table)) if table and rng.random() < 0.8 else rng.randrange(n)
            table.pop(pos, None)
            ops.append({"op": "remove", "pos": pos})
        else:
            ops.append({"op": "check", "pkt": _random_packet(rng, width, ports, table)})
    stim["ops"] = ops
    return stim


# ---------------------------------------------------------------------------------------------
# verdict
# ---------------------------------------------------------------------------------------------


def sig_fn(tr, event, stuck):
    sig = {"door": tr.get("meta", {}).get("door")}
    st = (stuck or {}).get("st") or {}
    cause = ""
    if event.get("ev") == "Check" and isinstance(st, dict):
        try:
            rules = {t[0]: t[2] for t in st["rules"]["__set__"]}
        except Exception:  # noqa
            rules = {}
        r, p = rules.get(event.get("decider")), event["pkt"]
        if r and ((r["sport"] == 0 and p["sport"] != 0) or (r["dport"] == 0 and p["dport"] != 0)):
            cause = "rule-with-port-0-decided-a-packet-with-another-port"
    elif event.get("ev") in ("Raised", "Refused"):
        cause = str(tr.get("meta", {}).get("raised", "refused"))[:100]
    sig["cause"] = cause
    return sig


def _has_zero_port(stim: Dict[str, Any]) -> bool:
    rules = [e["r"] for e in stim.get("load", [])] + [o["rule"] for o in stim["ops"] if o["op"] == "add"]
    return any(r["sport"] == 0 or r["dport"] == 0 for r in rules)


def main(tier: str, seed: int) -> int:
    chk = common.Check(PROP, "model_checking", tier, seed)
    rng = random.Random(seed)
    quick = tier == "quick"
    # 1. the model: exhaustive
    r = tlc.mc("MC_Acl", coverage=not quick, timeout=1500)
    if not r["ok"]:
        chk.violation({"module": "MC_Acl", "clause": str(r["violation"])}, {"tlc": r["output_tail"]})
    chk.add_mc("MC_Acl(NPos=3, cover domain 42 rules x fill, core domain 10 rules x free, 144 packets)", r)
    if r["ok"]:
        if r["distinct"] != EXPECTED_DISTINCT or r["states"] < EXPECTED_DISTINCT + EXPECTED_CHECKS:
            raise tlc.TLCError(f"vacuous model: MC_Acl found {r['distinct']} lists / {r['states']} transitions, "
                               f"expected {EXPECTED_DISTINCT} lists and >= {EXPECTED_CHECKS} checks")
        if not quick:
            for act in ("AddStep", "FillStep", "RemoveStep", "CheckStep"):
                if r["coverage"].get(act, (0, 0))[1] == 0:
                    raise tlc.TLCError(f"vacuous model: action {act} never taken")
            r2 = tlc.mc("MC_Acl", cfg="MC_AclWide.cfg", coverage=False, timeout=1500)
            if not r2["ok"]:
                chk.violation({"module": "MC_Acl/Wide", "clause": str(r2["violation"])}, {"tlc": r2["output_tail"]})
            chk.add_mc("MC_AclWide(NPos=2, wide product domain 720 rules x fill, 144 packets)", r2)
            if r2["ok"] and r2["distinct"] != 2 * 721**2:
                raise tlc.TLCError(f"vacuous model: MC_AclWide found {r2['distinct']} lists, expected {2 * 721**2}")
    # 2. behaviours of the model -> stimuli through the three doors, two variants each
    nbeh = 36 if quick else 400
    behs, info = tlc.simulate("MC_Acl", cfg="MC_AclSim.cfg", num=nbeh, depth=14 if quick else 18, seed=seed + 1, timeout=1500)
    chk.cov["transitions"] += info["states"]
    model_actions: Dict[str, int] = {}
    for b in behs:
        for st in b[1:]:
            ev = st["state"]["last"]["ev"]
            model_actions[ev] = model_actions.get(ev, 0) + 1
    for act in ("Add", "Remove", "Check"):
        if not model_actions.get(act):
            raise tlc.TLCError(f"vacuous stimulus: no {act} step in the simulated behaviours")
    stimuli: List[Dict[str, Any]] = []
    for k, beh in enumerate(behs):
        stimuli += _stimuli_from_behaviour(k, beh, rng)
    # 3. random part beyond the exhaustive domain
    nrand = 40 if quick else 700
    for i in range(nrand):
        for variant in ("falsy", "clean"):
            for door in ("api", "request", "config"):
                stimuli.append(_random_stimulus(rng, door, variant, 40 if quick else 70))
    # the other lists of a firewall are recorded for every stimulus (quick) / one in four (thorough: volume)
    for i, stim in enumerate(stimuli):
        stim["siblings"] = quick or i % 4 == 0
    # 4. run on the real code and record
    common.boot()
    traces: List[Dict[str, Any]] = []
    per: Dict[str, int] = {}
    for stim in stimuli:
        for tr in ra.run_stimulus(stim):
            tr["meta"]["variant"] = stim["variant"]
            tr["meta"]["source"] = stim["source"]
            tr["meta"]["zero_port_rule"] = _has_zero_port(stim)
            traces.append(tr)
            key = f"{stim['source']}/{stim['door']}/{stim['variant']}/{tr['meta']['role'].split()[0]}"
            per[key] = per.get(key, 0) + 1
        digest = hashlib.sha1(json.dumps([stim["ops"], stim.get("load")], sort_keys=True).encode()).hexdigest()
        chk.add_case({"d": stim["door"], "l": stim["list"], "v": stim["variant"], "ops": digest},
                     nontrivial=any(o["op"] == "check" for o in stim["ops"]))
    # 5. TLC judges every trace
    res = tlc.validate("AclTrace", traces, chunk=150 if quick else 300, parallel=8)
    common.judge_traces(chk, "Acl", traces, res, sig_fn)
    rejected = {"falsy": 0, "clean": 0}
    rejected_without_zero = 0
    for tr, (reached, length) in zip(traces, res["results"]):
        if reached != length + 1:
            rejected[tr["meta"]["variant"]] += 1
            if not tr["meta"]["zero_port_rule"]:
                rejected_without_zero += 1
    chk.cov["traces_by_source_door_variant"] = per
    chk.cov["rejected_traces_by_variant"] = rejected
    chk.cov["rejected_traces_without_a_port_0_rule"] = rejected_without_zero
    chk.cov["lists_exercised"] = sorted({tr["meta"]["list"] for tr in traces})
    chk.cov["model_actions_in_stimulus"] = model_actions
    for tr in traces[:2] + traces[-2:]:
        chk.sample({"cfg": tr["cfg"], "meta": tr["meta"], "events": tr["ev"][:4]})
    chk.assumptions += [
        "TLC and the CommunityModules (Json/IOUtils/Bitwise); Frame/IPPacket/TCPHeader/UDPHeader/ICMPPacket constructors",
        "the embedding of model addresses into IPv4 (distinct bit positions, constant other bits) preserves masked comparison",
        "rules are read from AccessControlList._acl (object fields), hit counters from describe_state()",
        "the implicit rule counts as 'the deciding rule' when no rule matches (its match_count is the counter checked)",
        "the counter a newly added rule starts with is not constrained (statement is silent); positions stay inside the list",
    ]
    return chk.finish()


def replay(path: str) -> int:
    """Re-execute the stimulus of a replay file and print the first unexplained event."""
    d = json.loads(open(path).read())
    stim = d["detail"]["stimulus"]
    common.boot()
    trs = ra.run_stimulus(stim)
    res = tlc.validate("AclTrace", trs)
    rc = 0
    for tr, (reached, length), stuck in zip(trs, res["results"], res["stuck"]):
        if reached == length + 1:
            print(f"replay: list {tr['meta']['list']}: all {length} events accepted")
            continue
        rc = 1
        print(f"replay: list {tr['meta']['list']}: event {reached} of {length} not explained: {json.dumps(tr['ev'][reached - 1])}")
        print(f"  failing clauses / spec state before: {json.dumps(stuck, default=str)}")
    return rc
