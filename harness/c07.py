"""C07 - ACL verdict = first matching rule by position, else the implicit action; add/remove change
only the addressed position; each verdict increments exactly the deciding rule's hit counter.

Model: spec/Acl.tla (declarative Verdict) + MC_Acl (exhaustive: every list over 3 positions and a
covering rule domain, both implicit actions, every packet).  Binding: TLC behaviours of MC_Acl
(-simulate, product domain) are replayed into the real AccessControlList through three doors -
Python API, the requests produced by the agent actions (router list and the six firewall lists), and
scenario loading (Router/Firewall.from_config through PrimaiteGame.from_config) - plus a seeded
random part beyond the exhaustive domain (up to the real 24 positions, 4-bit addresses spread over
the 32 IPv4 bits, more ports).  Every Add / Remove / Check / Load event carries what was asked and the
list read back from the object; TLC validates every trace against AclTrace.tla.

Ports.  0 is PORT_LOOKUP["NONE"], this code base's "no port" value: a rule written with port NONE is a
rule with an unspecified port (ACLRule.permit_frame_check / describe_state treat it so).  Model ports
(the model's 0 included) are therefore embedded only as non-zero real ports, and every stimulus comes in
two classes: "plain", and "sentinel" - the same operations with some unspecified rule ports spelt
0 / "NONE" through the door (the model rule still says "unspecified"; see rec_acl).  Model protocols
are only tcp / udp / icmp.
"""
from __future__ import annotations

import hashlib
import json
import random
from typing import Any, Dict, List

from . import common, tlc
from . import rec_acl as ra

PROP = "C07"
LISTS = ["router"] + [f"fw:{z}:{d}" for z, d in ra.FW_LISTS]
# |CoverRules| = 34, |CoreRules| = 10 (MC_Acl.tla): every list over 3 positions, both implicit actions
EXPECTED_DISTINCT = 2 * (35**3 + 11**3)
EXPECTED_CHECKS = 2 * 11**3 * 144


# ---------------------------------------------------------------------------------------------
# stimuli from TLC behaviours
# ---------------------------------------------------------------------------------------------


def _map_ports(d: Dict[str, Any], portmap: Dict[int, int]) -> Dict[str, Any]:
    d = dict(d)
    for k in ("sport", "dport"):
        if d[k] != ra.ANYN:
            d[k] = portmap[d[k]]
    return d


PORTMAP = {0: 21, 53: 53, 80: 80}  # model port -> real port: never the NONE(0) sentinel


def _spell_none(r: Dict[str, Any], rng: random.Random) -> List[str]:
    """Sentinel class: which of the rule's unspecified ports are spelt NONE(0) instead of None / 'ALL' / absent."""
    return [k for k in ("sport", "dport") if r[k] == ra.ANYN and rng.random() < 0.5]


def _sentinel_copy(ops: List[Dict[str, Any]], rng: random.Random) -> List[Dict[str, Any]]:
    out = []
    for op in ops:
        op = dict(op)
        if op["op"] == "add":
            op["none_ports"] = _spell_none(op["rule"], rng)
        out.append(op)
    return out


def _ops_from_behaviour(beh, portmap: Dict[int, int], posmap: List[int]) -> List[Dict[str, Any]]:
    ops = []
    for st in beh[1:]:
        last = st["state"]["last"]
        if last["ev"] == "Add":
            ops.append({"op": "add", "pos": posmap[last["pos"]], "rule": _map_ports(last["rule"], portmap), "none_ports": []})
        elif last["ev"] == "Remove":
            ops.append({"op": "remove", "pos": posmap[last["pos"]]})
        elif last["ev"] == "Check":
            ops.append({"op": "check", "pkt": _map_ports(last["pkt"], portmap)})
    return ops


def _split_for_loading(ops: List[Dict[str, Any]]):
    """The list as it stands when it first holds its largest number of rules becomes the scenario's
    acl section; the remaining operations follow as requests."""
    table: Dict[int, Dict[str, Any]] = {}
    best, best_i, best_table = -1, -1, {}
    for i, op in enumerate(ops):
        if op["op"] == "add":
            table[op["pos"]] = {"r": op["rule"], "none_ports": op.get("none_ports", [])}
        elif op["op"] == "remove":
            table.pop(op["pos"], None)
        if len(table) > best:
            best, best_i, best_table = len(table), i, dict(table)
    load = [{"pos": p, "r": e["r"], "none_ports": e["none_ports"]} for p, e in sorted(best_table.items())]
    return load, ops[best_i + 1:]


def _stimuli_from_behaviour(k: int, beh, rng: random.Random) -> List[Dict[str, Any]]:
    out = []
    for cls in ("plain", "sentinel"):
        for door in ("api", "request", "config"):
            emb = ra.Embedding.random(rng, 2)
            stim: Dict[str, Any] = {"door": door, "class": cls, "source": "tlc", "emb": emb.to_json(),
                                    "style": rng.randrange(10**6)}
            if door == "api":
                n = 3 if k % 3 else 24
                posmap = [0, 1, 2] if n == 3 else sorted(rng.sample(range(24), 3))
                stim.update({"list": "standalone", "n": n, "implicit": beh[0]["state"]["implicit"]})
            else:
                posmap = sorted(rng.sample(range(24), 3))
                stim["list"] = LISTS[(k + (3 if door == "config" else 0)) % len(LISTS)]
                if door == "config" and k % 2 == 0:
                    # loaded by the environment (reset / setup_for_episode), with rules of its own at the positions where
                    # a router keeps its built-in ARP and ICMP rules (22, 23)
                    stim["via_env"] = True
                    posmap = sorted([rng.randrange(22), 22, 23])
            ops = _ops_from_behaviour(beh, PORTMAP, posmap)
            if cls == "sentinel":
                ops = _sentinel_copy(ops, rng)
            if door == "config":
                load, rest = _split_for_loading(ops)
                stim.update({"load": load, "ops": rest})
            else:
                stim["ops"] = ops
            out.append(stim)
    return out


# ---------------------------------------------------------------------------------------------
# random stimuli beyond the exhaustive domain
# ---------------------------------------------------------------------------------------------


def _random_rule(rng: random.Random, width: int, ports: List[int]) -> Dict[str, Any]:
    top = (1 << width) - 1
    r = ra.rule(action=rng.choice(["permit", "deny"]))
    if rng.random() < 0.45:
        r["proto"] = rng.choice(["tcp", "udp", "icmp"])
    for a, m in (("src", "smask"), ("dst", "dmask")):
        x = rng.random()
        if x < 0.45:
            r[a] = rng.randint(0, top)
            if rng.random() < 0.6:
                r[m] = rng.choice([0, 1, top, rng.randint(0, top), rng.randint(0, top)])
        elif x < 0.50:
            r[m] = rng.randint(0, top)  # a mask without an address: the address stays unspecified
    if rng.random() < 0.35:
        r["sport"] = rng.choice(ports)
    if rng.random() < 0.45:
        r["dport"] = rng.choice(ports)
    return r


def _random_packet(rng: random.Random, width: int, ports: List[int], table: Dict[int, Dict[str, Any]]) -> Dict[str, Any]:
    top = (1 << width) - 1
    p = {"proto": rng.choice(["tcp", "udp", "icmp"]), "src": rng.randint(0, top), "dst": rng.randint(0, top),
         "sport": rng.choice(ports), "dport": rng.choice(ports)}
    if table and rng.random() < 0.7:
        # aim at a rule of the list: take over its specified fields, then perhaps spoil one
        r = table[rng.choice(sorted(table))]
        if r["proto"] in ("tcp", "udp", "icmp"):
            p["proto"] = r["proto"]
        for a, m in (("src", "smask"), ("dst", "dmask")):
            if r[a] != ra.ANYN:
                mask = r[m] if r[m] != ra.ANYN else 0
                p[a] = (r[a] & ~mask) | (rng.randint(0, top) & mask)
        for k in ("sport", "dport"):
            if r[k] != ra.ANYN:
                p[k] = r[k]
        if rng.random() < 0.4:
            f = rng.choice(["proto", "src", "dst", "sport", "dport"])
            if f == "proto":
                p[f] = rng.choice(["tcp", "udp", "icmp"])
            elif f in ("src", "dst"):
                p[f] = p[f] ^ (1 << rng.randrange(width))
            else:
                p[f] = rng.choice(ports)
    if p["proto"] == "icmp":
        p["sport"] = p["dport"] = ra.ANYN  # NoPort
    return p


def _random_stimulus(rng: random.Random, door: str, cls: str, length: int) -> Dict[str, Any]:
    names = ra.port_names()
    named = sorted(v for v in names if v > 0)
    width = 4
    emb = ra.Embedding.random(rng, width)
    ports = rng.sample(named, 4)
    if door != "config" and rng.random() < 0.5:
        ports += [rng.choice([1, 8081, 65535, 1024, 3000])]  # unnamed ports (not expressible in a scenario file)
    pkt_ports = ports + ([0] if cls == "sentinel" else [])  # packets may carry port 0; rules never specify it
    if door == "api":
        which, n = "standalone", rng.choice([3, 4, 8, 24, 24])
    else:
        which, n = rng.choice(LISTS), 24
    hot = sorted(rng.sample(range(n), min(n, rng.choice([3, 4, 6]))))  # positions used most, to get overwrites
    stim: Dict[str, Any] = {"door": door, "class": cls, "source": "random", "list": which, "emb": emb.to_json(),
                            "style": rng.randrange(10**6)}
    if door == "api":
        stim.update({"n": n, "implicit": rng.choice(["permit", "deny"])})
    table: Dict[int, Dict[str, Any]] = {}
    if door == "config":
        for pos in rng.sample(range(n), rng.randint(0, 6)):
            table[pos] = _random_rule(rng, width, ports)
        stim["load"] = [{"pos": p, "r": r, "none_ports": _spell_none(r, rng) if cls == "sentinel" else []}
                        for p, r in sorted(table.items())]
    ops = []
    for _ in range(length):
        x = rng.random()
        if x < 0.30:
            pos = rng.choice(hot) if rng.random() < 0.75 else rng.randrange(n)
            r = _random_rule(rng, width, ports)
            table[pos] = r
            ops.append({"op": "add", "pos": pos, "rule": r, "none_ports": _spell_none(r, rng) if cls == "sentinel" else []})
        elif x < 0.40:
            pos = rng.choice(sorted(table)) if table and rng.random() < 0.8 else rng.randrange(n)
            table.pop(pos, None)
            ops.append({"op": "remove", "pos": pos})
        else:
            ops.append({"op": "check", "pkt": _random_packet(rng, width, pkt_ports, table)})
    stim["ops"] = ops
    return stim


# ---------------------------------------------------------------------------------------------
# verdict
# ---------------------------------------------------------------------------------------------


def sig_fn(tr, event, stuck):
    meta = tr.get("meta", {})
    sig = {"door": meta.get("door"), "class": meta.get("class"), "role": str(meta.get("role", "")).split()[0]}
    if event.get("ev") in ("Raised", "Refused"):
        sig["cause"] = str(meta.get("raised", "refused"))[:100]
    return sig


def _none_spellings(stim: Dict[str, Any]) -> int:
    """Number of rule ports of the stimulus that are spelt NONE(0)."""
    return sum(len(e.get("none_ports", [])) for e in stim.get("load", [])) + \
        sum(len(o.get("none_ports", [])) for o in stim["ops"] if o["op"] == "add")


def main(tier: str, seed: int) -> int:
    chk = common.Check(PROP, "model_checking", tier, seed)
    rng = random.Random(seed)
    quick = tier == "quick"
    # 1. the model: exhaustive
    r = tlc.mc("MC_Acl", coverage=not quick, timeout=1500)
    if not r["ok"]:
        chk.violation({"module": "MC_Acl", "clause": str(r["violation"])}, {"tlc": r["output_tail"]})
    chk.add_mc("MC_Acl(NPos=3, cover domain 34 rules x fill, core domain 10 rules x free, 144 packets)", r)
    if r["ok"]:
        if r["distinct"] != EXPECTED_DISTINCT or r["states"] < EXPECTED_DISTINCT + EXPECTED_CHECKS:
            raise tlc.TLCError(f"vacuous model: MC_Acl found {r['distinct']} lists / {r['states']} transitions, "
                               f"expected {EXPECTED_DISTINCT} lists and >= {EXPECTED_CHECKS} checks")
        if not quick:
            for act in ("AddStep", "FillStep", "RemoveStep", "CheckStep"):
                if r["coverage"].get(act, (0, 0))[1] == 0:
                    raise tlc.TLCError(f"vacuous model: action {act} never taken")
            r2 = tlc.mc("MC_Acl", cfg="MC_AclWide.cfg", coverage=False, timeout=1500)
            if not r2["ok"]:
                chk.violation({"module": "MC_Acl/Wide", "clause": str(r2["violation"])}, {"tlc": r2["output_tail"]})
            chk.add_mc("MC_AclWide(NPos=2, wide product domain 360 match shapes x fill, 144 packets)", r2)
            if r2["ok"] and r2["distinct"] != 2 * 361**2:
                raise tlc.TLCError(f"vacuous model: MC_AclWide found {r2['distinct']} lists, expected {2 * 361**2}")
    # 2. behaviours of the model -> stimuli through the three doors, two classes each
    nbeh = 36 if quick else 400
    behs, info = tlc.simulate("MC_Acl", cfg="MC_AclSim.cfg", num=nbeh, depth=14 if quick else 18, seed=seed + 1, timeout=1500)
    chk.cov["transitions"] += info["states"]
    model_actions: Dict[str, int] = {}
    for b in behs:
        for st in b[1:]:
            ev = st["state"]["last"]["ev"]
            model_actions[ev] = model_actions.get(ev, 0) + 1
    for act in ("Add", "Remove", "Check"):
        if not model_actions.get(act):
            raise tlc.TLCError(f"vacuous stimulus: no {act} step in the simulated behaviours")
    stimuli: List[Dict[str, Any]] = []
    for k, beh in enumerate(behs):
        stimuli += _stimuli_from_behaviour(k, beh, rng)
    # 3. random part beyond the exhaustive domain
    nrand = 40 if quick else 700
    for i in range(nrand):
        for cls in ("plain", "sentinel"):
            for door in ("api", "request", "config"):
                stimuli.append(_random_stimulus(rng, door, cls, 40 if quick else 70))
    # the other lists of a firewall are recorded for one stimulus in two (quick) / four (thorough): volume
    for i, stim in enumerate(stimuli):
        stim["siblings"] = i % (2 if quick else 4) == 0
    # 4. run on the real code and record
    common.boot()
    traces: List[Dict[str, Any]] = []
    per: Dict[str, int] = {}
    none_rule_ports = 0
    for stim in stimuli:
        none_rule_ports += _none_spellings(stim)
        for tr in ra.run_stimulus(stim):
            tr["meta"]["class"] = stim["class"]
            tr["meta"]["source"] = stim["source"]
            traces.append(tr)
            key = f"{stim['source']}/{stim['door']}/{stim['class']}/{tr['meta']['role'].split()[0]}"
            per[key] = per.get(key, 0) + 1
        digest = hashlib.sha1(json.dumps([stim["ops"], stim.get("load")], sort_keys=True).encode()).hexdigest()
        chk.add_case({"d": stim["door"], "l": stim["list"], "c": stim["class"], "ops": digest},
                     nontrivial=any(o["op"] == "check" for o in stim["ops"]))
    if none_rule_ports == 0:
        raise tlc.TLCError("vacuous stimulus: no rule port was spelt NONE(0)")
    # 5. TLC judges every trace
    res = tlc.validate("AclTrace", traces, chunk=150 if quick else 300, parallel=8)
    common.judge_traces(chk, "Acl", traces, res, sig_fn)
    rejected: Dict[str, int] = {}
    for tr, (reached, length) in zip(traces, res["results"]):
        if reached != length + 1:
            rejected[tr["meta"]["class"]] = rejected.get(tr["meta"]["class"], 0) + 1
    chk.cov["traces_by_source_door_class_role"] = per
    chk.cov["rejected_traces_by_class"] = rejected
    chk.cov["rule_ports_spelt_NONE_0"] = none_rule_ports
    chk.cov["lists_exercised"] = sorted({tr["meta"]["list"] for tr in traces})
    chk.cov["model_actions_in_stimulus"] = model_actions
    for tr in traces[:2] + traces[-2:]:
        chk.sample({"cfg": tr["cfg"], "meta": tr["meta"], "events": tr["ev"][:4]})
    chk.assumptions += [
        "TLC and the CommunityModules (Json/IOUtils/Bitwise); Frame/IPPacket/TCPHeader/UDPHeader/ICMPPacket constructors",
        "the embedding of model addresses into IPv4 (distinct bit positions, constant other bits) preserves masked comparison",
        "rules are read from AccessControlList._acl (object fields), hit counters from describe_state()",
        "the implicit rule counts as 'the deciding rule' when no rule matches (its match_count is the counter checked)",
        "a rule port of NONE(0) is an unspecified port (PORT_LOOKUP['NONE'] = 0; ACLRule.permit_frame_check and "
        "describe_state treat a falsy port as not specified): model ports are embedded as non-zero ports only, the "
        "read-back maps None/0 to unspecified; protocol 'none' is not used",
        "the counter a newly added rule starts with is not constrained (statement is silent); positions stay inside the list",
    ]
    return chk.finish()


def replay(path: str) -> int:
    """Re-execute the stimulus of a replay file and print the first unexplained event."""
    d = json.loads(open(path).read())
    stim = d["detail"]["stimulus"]
    common.boot()
    trs = ra.run_stimulus(stim)
    res = tlc.validate("AclTrace", trs)
    rc = 0
    for tr, (reached, length), stuck in zip(trs, res["results"], res["stuck"]):
        if reached == length + 1:
            print(f"replay: list {tr['meta']['list']}: all {length} events accepted")
            continue
        rc = 1
        print(f"replay: list {tr['meta']['list']}: event {reached} of {length} not explained: {json.dumps(tr['ev'][reached - 1])}")
        print(f"  failing clauses / spec state before: {json.dumps(stuck, default=str)}")
    return rc
