"""C18 - a link never carries more than its bandwidth in a tick; down links carry nothing.

Model: spec/Link.tla (+ MC_Link exhaustive).  Binding: (i) TLC behaviours of MC_Link are replayed as
schedules (send / toggle end / tick) on generated micro-networks whose bandwidth is of the order of
one frame, (ii) scenario-scale runs; every wired link's and wireless channel's event stream is
validated by TLC against LinkTrace.tla.
"""
from __future__ import annotations

import copy
import random
from typing import Any, Dict, List

from . import common, scenarios, tlc
from .rec_link import LinkRecorder, UNIT

PROP = "C18"
ICMP = 449  # bytes of an echo frame on the micro networks (measured at start, see _probe)


def _tick(game):
    game.pre_timestep()
    game.advance_timestep()


def _nic_req(game, host, enable):
    return game.simulation.apply_request(["network", "node", host, "network_interface", 1, "enable" if enable else "disable"])


def _probe_sizes() -> Dict[str, int]:
    """Measure the frame sizes of this tree on a wide link (they depend on the serialisation)."""
    from primaite.simulator.network.hardware.base import Link

    g = scenarios.build(scenarios.p2p())
    sizes = []
    orig = Link.transmit_frame

    def tf(self, sender_nic, frame):
        sizes.append(int(frame.size))
        return orig(self, sender_nic, frame)

    Link.transmit_frame = tf
    try:
        g.simulation.network.get_node_by_hostname("a").ping("192.168.1.3", pings=1)
    finally:
        Link.transmit_frame = orig
    return {"arp_req": sizes[0], "arp_rep": sizes[1], "icmp": sizes[-1]} if len(sizes) >= 4 else {"arp_req": 756, "arp_rep": 788, "icmp": 449}


def _schedule_from_behaviour(beh: List[Dict[str, Any]]) -> List[str]:
    out = []
    for st in beh[1:]:
        a = st["action"]
        if a == "Send":
            out.append("send")
        elif a == "Toggle":
            out.append("toggle" + ("A" if '"A"' in st["params"] else "B"))
        elif a == "PreTick":
            out.append("tick")
    return out


def _run_micro(rec: LinkRecorder, topo: str, bw_bytes: float, warm: bool, sched: List[str], rng: random.Random):
    bw_mbit = bw_bytes / UNIT
    if topo == "p2p":
        cfg = scenarios.p2p(None if warm else bw_mbit)
        dst = "192.168.1.3"
    elif topo == "switched":
        cfg = scenarios.switched(3, None if warm else bw_mbit)
        dst = "192.168.1.3"
    else:
        cfg = scenarios.routed(None if warm else bw_mbit)
        dst = "192.168.2.2"
    game = scenarios.build(cfg)
    net = game.simulation.network
    a, b = net.get_node_by_hostname("a"), net.get_node_by_hostname("b")
    dst_back = str(a.network_interface[1].ip_address)
    if warm:
        a.ping(dst, pings=1)
        b.ping(dst_back, pings=1)
        for l in net.links.values():
            l.bandwidth = bw_mbit
    _tick(game)  # recording of each link starts at its first PreTick
    state = {"A": True, "B": True}
    for s in sched:
        if s == "send":
            (a if rng.random() < 0.7 else b).ping(dst if rng.random() < 0.9 else "192.168.1.77", pings=rng.choice([1, 1, 2, 4]))
        elif s == "tick":
            _tick(game)
        elif s.startswith("toggle"):
            side = s[-1]
            state[side] = not state[side]
            _nic_req(game, "a" if side == "A" else "b", state[side])
    _tick(game)
    return rec.take(stimulus={"topology": topo, "bw_bytes": bw_bytes, "warm_arp": warm, "schedule": sched})


def _run_env(rec: LinkRecorder, cfg: Dict[str, Any], steps: int, rng: random.Random, label: str):
    from primaite.session.environment import PrimaiteGymEnv

    env = PrimaiteGymEnv(env_config=copy.deepcopy(cfg))
    env.reset(seed=rng.randrange(10**6))
    n = env.action_space.n
    acts = []
    for _ in range(steps):
        a = rng.randrange(n)
        acts.append(a)
        env.step(a)
    env.close()
    return rec.take(stimulus={"scenario": label, "actions": acts})


def _run_game(rec: LinkRecorder, cfg: Dict[str, Any], steps: int, label: str, pings=()):
    game = scenarios.build(cfg)
    net = game.simulation.network
    for i in range(steps):
        game.step()
        for (src, dst) in pings:
            net.get_node_by_hostname(src).ping(dst, pings=2)
    return rec.take(stimulus={"scenario": label, "steps": steps, "pings": list(pings)})


def _run_two_names(rec: LinkRecorder, cap_bytes: float, ticks: int = 4):
    """ONE radio channel under TWO frequency names (AirSpace.register_frequency; AirSpaceFrequency.frequency_hz: "If two
    names are mapped to the same frequency, they will share a bandwidth"): two pairs of access points, one pair per
    name, all four on 2.4 GHz, both pairs pinging in every tick over a channel of the order of one exchange."""
    from primaite.simulator.network.airspace import AirSpaceFrequency, FREQ_WIFI_2_4
    from primaite.simulator.network.container import Network
    from primaite.simulator.network.hardware.nodes.network.router import ACLAction
    from primaite.simulator.network.hardware.nodes.network.wireless_router import WirelessRouter

    guest_name = "WIFI_2_4_GUEST"
    net = Network()
    air = net.airspace
    if guest_name not in AirSpaceFrequency._registry:
        air.register_frequency(guest_name, FREQ_WIFI_2_4.frequency_hz, FREQ_WIFI_2_4.data_rate_bps)
    guest = AirSpaceFrequency._registry[guest_name]
    routers = []
    for i, (ip, freq) in enumerate([("192.168.1.1", FREQ_WIFI_2_4), ("192.168.1.2", FREQ_WIFI_2_4), ("192.168.3.1", guest), ("192.168.3.2", guest)], 1):
        r = WirelessRouter.from_config(config={"type": "wireless-router", "hostname": f"wr_{i}", "start_up_duration": 0}, airspace=air)
        r.power_on()
        net.add_node(r)
        r.acl.add_rule(action=ACLAction.PERMIT, position=1)
        r.configure_wireless_access_point(ip, "255.255.255.0", frequency=freq)
        routers.append(r)
    r1, _, r3, _ = routers
    # warm the ARP caches on the default (large) capacity, then narrow the channel under both of its names
    net.pre_timestep(0)
    r1.ping("192.168.1.2")
    r3.ping("192.168.3.2")
    net.apply_timestep(0)
    rec.take()  # (the warm-up is not part of the trace)
    cap = cap_bytes / 1048576.0 * 8.0
    air.set_frequency_max_capacity_mbps({"WIFI_2_4": cap, guest_name: cap})
    for t in range(1, ticks + 1):
        net.pre_timestep(t)
        r1.ping("192.168.1.2", pings=2)
        r3.ping("192.168.3.2", pings=2)
        r1.ping("192.168.1.2", pings=1)
        net.apply_timestep(t)
    return rec.take(stimulus={"scenario": f"wireless_two_names_one_channel_{cap_bytes}", "ticks": ticks})


def sig_fn(tr, event, stuck):
    st = (stuck or {}).get("st") or {}
    sig = {"wireless": bool(tr["cfg"].get("wireless"))}
    if isinstance(st, dict):
        sig["nested"] = len(st.get("stack", [])) > 0
    return sig


def main(tier: str, seed: int) -> int:
    chk = common.Check(PROP, "model_checking", tier, seed)
    rng = random.Random(seed)
    # 1. the model
    r = tlc.mc("MC_Link")
    if not r["ok"]:
        chk.violation({"module": "MC_Link", "clause": str(r["violation"])}, {"tlc": r["output_tail"]})
    chk.add_mc("MC_Link(MaxBw=5,Sizes=1..3,MaxNest=3)", r)
    for act in ("Send", "Finish", "Toggle", "PreTick"):
        if r["coverage"].get(act, (0, 0))[1] == 0:
            raise tlc.TLCError(f"vacuous model: action {act} never taken")
    # 2. schedules from the model
    nbeh = 60 if tier == "quick" else 600
    behs, info = tlc.simulate("MC_Link", num=nbeh, depth=14, seed=seed + 1)
    chk.cov["transitions"] += info["states"]
    common.boot()
    rec = LinkRecorder()
    rec.install()
    sizes = _probe_sizes()
    rec.take()
    icmp, arq, arp = sizes["icmp"], sizes["arp_req"], sizes["arp_rep"]
    traces: List[Dict[str, Any]] = []
    combos = []
    for topo in ("p2p", "switched", "routed"):
        for warm, bws in (
            (True, [icmp - 1, icmp, icmp * 1.5, 2 * icmp, 2.5 * icmp, 3 * icmp + 7, 5 * icmp]),
            (False, [arq - 1, arq, arp + 10, arq + arp - 1, arq + arp, arq + arp + icmp, arq + arp + 2 * icmp + 3]),
        ):
            for bw in bws:
                combos.append((topo, warm, bw))
    for i, beh in enumerate(behs):
        sched = _schedule_from_behaviour(beh)
        if not sched:
            continue
        topo, warm, bw = combos[i % len(combos)] if i < 2 * len(combos) else rng.choice(combos)
        trs = _run_micro(rec, topo, bw, warm, sched, rng)
        traces += trs
        chk.add_case({"topo": topo, "warm": warm, "bw": bw, "sched": sched}, nontrivial="send" in sched)
    # 3. scenario scale
    steps = 25 if tier == "quick" else 128
    traces += _run_env(rec, scenarios.shipped("data_manipulation.yaml"), steps, rng, "data_manipulation")
    chk.add_case("data_manipulation")
    wl = scenarios.test_asset("wireless_wan_network_config.yaml")
    traces += _run_game(rec, wl, 4, "wireless_wan", pings=[("pc_a", "192.168.2.2"), ("pc_b", "192.168.0.2")])
    chk.add_case("wireless_wan")
    wl2 = scenarios.test_asset("wireless_wan_network_config_freq_max_override.yaml")
    traces += _run_game(rec, wl2, 4, "wireless_wan_override", pings=[("pc_a", "192.168.2.2"), ("pc_b", "192.168.0.2")])
    chk.add_case("wireless_wan_override")
    # tight wireless channel: capacity of the order of a frame
    for capb in (icmp * 1.5, 2 * icmp + 1, arq - 12, arq, arq + arp - 12, arq + arp + icmp):
        w3 = copy.deepcopy(wl)
        w3["simulation"]["network"]["airspace"] = {"frequency_max_capacity_mbps": {"WIFI_2_4": capb / 1048576.0 * 8.0}}
        traces += _run_game(rec, w3, 3, f"wireless_tight_{capb}", pings=[("pc_a", "192.168.2.2")])
        chk.add_case(f"wireless_tight_{capb}")
    # a channel whose interfaces all go away and come back WITHIN a tick keeps the load it has carried in that tick:
    # traffic, then every access point of the frequency disabled and enabled again (one after the other / all down at
    # once), then more traffic, all before the next tick
    for capb in (icmp * 3, icmp * 12):
        for order in ("both_down", "one_at_a_time"):
            w4 = copy.deepcopy(wl)
            w4["simulation"]["network"]["airspace"] = {"frequency_max_capacity_mbps": {"WIFI_2_4": capb / 1048576.0 * 8.0}}
            game = scenarios.build(w4)
            net = game.simulation.network
            req = game.simulation.apply_request
            for _ in range(3):
                game.step()
                net.get_node_by_hostname("pc_a").ping("192.168.2.2", pings=4)
                if order == "both_down":
                    seq = [("router_1", "disable"), ("router_2", "disable"), ("router_1", "enable"), ("router_2", "enable")]
                else:
                    seq = [("router_1", "disable"), ("router_1", "enable"), ("router_2", "disable"), ("router_2", "enable")]
                for r_, v in seq:
                    req(["network", "node", r_, "network_interface", 1, v])
                net.get_node_by_hostname("pc_a").ping("192.168.2.2", pings=4)
                net.get_node_by_hostname("pc_b").ping("192.168.0.2", pings=2)
            traces += rec.take(stimulus={"scenario": f"wireless_toggle_{order}_{capb}", "steps": 3})
            chk.add_case(f"wireless_toggle_{order}_{capb}")
    # one channel under two frequency names
    n_two = 0
    for capb in (icmp * 2.5, icmp * 4 + 2, icmp * 7):
        trs = _run_two_names(rec, capb)
        n_two += sum(1 for tr in trs for e in tr["ev"] if e["ev"] == "Begin")
        traces += trs
        chk.add_case(f"wireless_two_names_one_channel_{capb}")
    if n_two == 0:
        raise tlc.TLCError("vacuous: no frame was sent on the channel with two names")
    if tier == "thorough":
        traces += _run_env(rec, scenarios.shipped("uc7_config.yaml"), 60, rng, "uc7")
        traces += _run_game(rec, scenarios.shipped("multi_lan_internet_network_example.yaml"), 10, "multi_lan")
    # restore the default wireless capacities (the registry is process-global)
    # 4. TLC judges every trace
    res = tlc.validate("LinkTrace", traces)
    common.judge_traces(chk, "Link", traces, res, sig_fn, selftest="LinkTrace")
    for tr in traces[:3]:
        chk.sample({"cfg": tr["cfg"], "meta": tr.get("meta"), "events": tr["ev"][:12]})
    chk.cov["frame_sizes_bytes"] = sizes
    chk.assumptions += [
        "TLC 1.8.0 and the CommunityModules; the tracer wrappers on Link/AirSpace/NetworkInterface.enabled",
        "sizes are integer bytes (the simulator's Mbit = bytes*8/1024^2 is exact in floating point)",
    ]
    return chk.finish()
