"""./check selftest - hygiene of the machinery itself (no property verdict):

  1. every module of spec/ parses (SANY);
  2. every negative configuration (`MC_*AsCoded*.cfg`, `*Neg.cfg`, `*DeclOrder.cfg`, ...: a model of a wrong design) is
     REFUTED by TLC - a negative model that passes would mean its invariants bind nothing;
  3. MANIFEST.json and every evidence file validate against the task's schemas; known_findings.json is well formed;
  4. every seeded change under seeded/ still applies to the current /repo tree (`git apply --check`), or is marked obsolete.

Exit 0 / 2 (machinery failure).  The binding self-tests of the trace specifications (corrupted traces must be rejected)
run inside each check, on that check's own accepted traces."""
from __future__ import annotations

import json
import re
import subprocess
from concurrent.futures import ThreadPoolExecutor
from pathlib import Path
from typing import Any, Dict, List

from . import common, tlc

NEG = re.compile(r"(AsCoded|Neg|DeclOrder|BadId|ExactDue|Shallow|BusyLink|KeepEnabled|KeepLinks|SharedDir)", re.I)


def main(tier: str, seed: int) -> int:
    spec = common.VERIF / "spec"
    problems: List[str] = []
    # 1. SANY
    mods = sorted(p.stem for p in spec.glob("*.tla"))

    def parse(m):
        p = subprocess.run(["java", f"-Djava.io.tmpdir={tlc._java_tmp()}", "-cp", f"{tlc.JAR}:{tlc.DEPS}", "tla2sany.SANY", f"{m}.tla"], cwd=str(spec), capture_output=True, text=True)
        out = p.stdout + p.stderr
        return m, ("Semantic errors" in out or "Parse Error" in out or "Fatal" in out or "Unknown operator" in out)

    with ThreadPoolExecutor(max_workers=8) as ex:
        for m, bad in ex.map(parse, [m for m in mods if not m.startswith("Apa_")]):
            if bad:
                problems.append(f"SANY: {m}.tla does not parse")
    print(f"selftest: {len(mods)} modules parsed")
    # 2. negative configurations
    negs = sorted(p for p in spec.glob("*.cfg") if NEG.search(p.stem))

    def refute(cfg: Path):
        mod = cfg.stem
        cands = [mod] + [mod[: mod.index(x)] for x in ("AsCoded", "Neg", "DeclOrder", "BadId", "ExactDue", "Shallow", "Reply", "Shadow", "BusyLink", "KeepEnabled", "KeepLinks", "SharedDir") if x in mod]
        module = next((c for c in cands if (spec / f"{c}.tla").exists()), None)
        if module is None:
            return cfg.name, "no module"
        try:
            r = tlc.mc(module, cfg.name, workers=4, coverage=False, timeout=900)
        except tlc.TLCError as e:
            return cfg.name, f"error: {str(e)[:120]}"
        return cfg.name, ("passes" if r["ok"] else f"refuted ({r['violation'][1] or r['violation'][0]})")

    with ThreadPoolExecutor(max_workers=4) as ex:
        for name, verdict in ex.map(refute, negs):
            print(f"selftest: negative {name}: {verdict}")
            if not verdict.startswith("refuted"):
                problems.append(f"negative configuration {name}: {verdict}")
    # 3. schemas
    import jsonschema

    man = json.loads((common.VERIF / "MANIFEST.json").read_text())
    try:
        jsonschema.validate(man, json.loads(Path("/root/.vp/MANIFEST.schema.json").read_text()))
    except Exception as e:  # noqa
        problems.append(f"MANIFEST.json: {str(e)[:200]}")
    evs = json.loads(Path("/root/.vp/EVIDENCE.schema.json").read_text())
    for c in man["checks"]:
        f = Path(c["evidence_file"])
        if not f.exists():
            problems.append(f"evidence file missing: {f}")
            continue
        try:
            jsonschema.validate(json.loads(f.read_text()), evs)
        except Exception as e:  # noqa
            problems.append(f"{f.name}: {str(e)[:200]}")
    kf = json.loads((common.VERIF / "known_findings.json").read_text())
    for e in kf["findings"]:
        if e.get("status") not in ("known", "fixed") or not isinstance(e.get("signature"), dict) or not e.get("property"):
            problems.append(f"known_findings entry malformed: {e.get('id')}")
    print(f"selftest: manifest with {len(man['checks'])} checks, {len(kf['findings'])} findings entries "
          f"({sum(1 for e in kf['findings'] if e['status'] == 'known')} known)")
    # 4. seeded changes
    n_seed = 0
    for d in sorted((common.VERIF / "seeded").iterdir()):
        meta = json.loads((d / "meta.json").read_text()) if (d / "meta.json").exists() else {}
        n_seed += 1
        p = subprocess.run(["git", "-C", str(common.REPO), "apply", "--check", str(d / "patch.diff")], capture_output=True, text=True)
        if p.returncode != 0 and not meta.get("obsolete"):
            problems.append(f"seeded change {d.name} no longer applies: {p.stderr.strip()[:120]}")
        if not meta.get("detected"):
            problems.append(f"seeded change {d.name} is recorded as not detected")
    print(f"selftest: {n_seed} seeded changes")
    for p_ in problems:
        print("selftest PROBLEM:", p_)
    if problems:
        raise tlc.TLCError(f"{len(problems)} problem(s)")
    print("selftest: OK")
    return 0
