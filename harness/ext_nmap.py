"""Extension EXT-nmap (beyond the listed properties): the NMAP application against spec/Nmap.tla.

(a) MC_Nmap is checked exhaustively (MC_NmapAsCoded.cfg - readiness tested after the scanning - must be refuted; the
thorough tier also runs MC_NmapDeep.cfg); (b) TLC -simulate behaviours of MC_NmapSim.cfg (environment changes and scan
requests) plus a few directed scans are replayed on a real network  a, c -- sw -- r -- b  (192.168.1.0/29 and
192.168.2.0/29, the router ACL denying one of the model's classes) through the ping_scan / port_scan /
network_service_recon requests, the Python API, node / interface / service requests; (c) wrappers on
Simulation.apply_request, NMAP.ping_scan / port_scan / network_service_recon / _check_port_open_on_ip_address /
_process_port_scan_request / _process_port_scan_response, ICMP.ping and NIC.send_frame record one event per spec
action with the world (nodes ON, enabled interfaces, RUNNING software) read from the real objects; (d) TLC validates
the recorded traces (one per scan) against NmapTrace.tla; (e) the shipped scenario uc7_config.yaml is stepped (TAP001
scans four networks with all three scan kinds; three more nmap actions are added to the defender's action map and
played) and projected onto the same events, the reachability beyond the scanner's own subnet being taken from the log.
Run: ./check EXT-nmap"""
from __future__ import annotations

import copy
import hashlib
import json
import random
import re
from ipaddress import IPv4Address, IPv4Network
from typing import Any, Dict, List, Optional

from . import common, scenarios, tlc, tracer

KINDS = {"ping_scan": "ping", "port_scan": "port", "network_service_recon": "recon"}
METHOD = {v: k for k, v in KINDS.items()}
MC_ACTIONS = ("MPower", "MNic", "MSw", "MScanStart", "MPing", "MPortPhase", "MProbe", "MAnswer", "MResponse", "MProbeEnd",
              "MScanEnd")
EVENTS = ("ScanStart", "Ping", "PortPhase", "Probe", "Answer", "Response", "ProbeEnd", "ScanEnd", "Power", "Nic", "Sw",
          "EnvSet")
NOST = {"on": [], "nic": [], "run": []}
DEFAULTS = {"node": "", "kind": "", "via": "", "tg": [], "pr": [], "po": [], "addr": 0, "proto": "", "port": 0,
            "flag": False, "n": 0, "m": 0, "res": [], "name": "", "js": True, "same": True, "hasst": False, "st": NOST}
VOLATILE = re.compile(r"traffic|match_count|mac_address_table|nmne|arp|session|pcap", re.I)
MC_BLOCKS = {1: "192.168.1.0/24", 2: "192.168.2.0/24", 9: "10.0.0.0/24"}
MC_NETS = {1: "192.168.1.0/29", 2: "192.168.2.0/29"}
_INSTALLED = [False]
_W: List[Optional["World"]] = [None]


def sw_name(name: str) -> str:
    return name.replace("-", "_")


def real_name(name: str) -> str:
    return name.replace("_", "-")


class Emb:
    """Addresses <-> the naturals of Nmap.tla: (index of the /24 block) * 1000 + last octet; a network as a scan target
    is 1000000 + its index in the table of target networks."""

    def __init__(self):
        self.blocks: Dict[int, IPv4Network] = {}
        self.tnets: Dict[int, IPv4Network] = {}

    def add_block(self, net: IPv4Network, idx: int):
        self.blocks[idx] = net

    def addr(self, ip) -> int:
        ip = IPv4Address(str(ip))
        blk = IPv4Network(f"{ip}/24", strict=False)
        for i, n in self.blocks.items():
            if n == blk:
                return i * 1000 + (int(ip) & 255)
        i = max([0] + list(self.blocks)) + 1
        if i >= 1000:
            raise RuntimeError("EXT-nmap: too many /24 blocks for the address embedding")
        self.blocks[i] = blk
        return i * 1000 + (int(ip) & 255)

    def span(self, net: IPv4Network) -> Dict[str, int]:
        if net.prefixlen < 24:
            raise RuntimeError(f"EXT-nmap: network {net} too large for the address embedding")
        return {"lo": self.addr(net.network_address), "hi": self.addr(net.broadcast_address)}

    def target(self, t) -> int:
        if isinstance(t, IPv4Network) or (isinstance(t, str) and "/" in t):
            net = IPv4Network(str(t))
            for k, n in self.tnets.items():
                if n == net:
                    return 1000000 + k
            k = max([0] + list(self.tnets)) + 1
            self.tnets[k] = net
            return 1000000 + k
        return self.addr(t)

    def ip(self, a: int) -> IPv4Address:
        return IPv4Address(int(self.blocks[a // 1000].network_address) + a % 1000)

    def target_str(self, t: int) -> str:
        return str(self.tnets[t - 1000000]) if t >= 1000000 else str(self.ip(t))

    def nets(self) -> List[Dict[str, int]]:
        return [{"k": k, **self.span(n)} for k, n in sorted(self.tnets.items())]


def net_cfg(deny: List[List[Any]], listen: bool = False) -> Dict[str, Any]:
    """a, c -- sw -- r -- b; the router's ACL denies the given classes and permits everything else."""
    S = scenarios
    dur = {"start_up_duration": 0, "shut_down_duration": 0}
    m29 = "255.255.255.248"
    names = {22: "SSH", 80: "HTTP", 123: "NTP", 21: "FTP", 53: "DNS"}
    acl: Dict[int, Dict[str, Any]] = {}
    for p, q in deny:
        rule: Dict[str, Any] = {"action": "DENY", "protocol": p.upper()}
        if q:
            rule["dst_port"] = names[q]
        acl[len(acl) + 1] = rule
    acl[len(acl) + 1] = {"action": "PERMIT"}
    nodes = [
        S.host("a", "192.168.1.2", "computer", gw="192.168.1.1", mask=m29, **dur),
        S.host("c", "192.168.1.3", "server", gw="192.168.1.1", mask=m29,
               services=[{"type": "web-server", "options": {"listen_on_ports": [631, "SMB"]}} if listen else {"type": "web-server"}],
               **dur),
        S.host("b", "192.168.2.2", "server", gw="192.168.2.1", mask=m29, services=[{"type": "web-server"}], **dur),
        {"hostname": "sw", "type": "switch", "num_ports": 4},
        {"hostname": "r", "type": "router", "num_ports": 3,
         "ports": {1: {"ip_address": "192.168.1.1", "subnet_mask": m29}, 2: {"ip_address": "192.168.2.1", "subnet_mask": m29}},
         "acl": acl, **dur},
    ]
    links = [S.link("a", 1, "sw", 1), S.link("c", 1, "sw", 2), S.link("sw", 3, "r", 1), S.link("b", 1, "r", 2)]
    return S.base_cfg(nodes, links)


def _flat(d: Any, pre: str, out: Dict[str, Any]):
    if isinstance(d, dict):
        for k, v in d.items():
            _flat(v, pre + "/" + str(k), out)
    elif isinstance(d, (list, tuple, set)):
        for i, v in enumerate(sorted(d, key=str) if isinstance(d, set) else d):
            _flat(v, pre + "/" + str(i), out)
    else:
        out[pre] = d


class World:
    """One recorded run: the real network, the address embedding and the traces being written (one per scan)."""

    def __init__(self, network, emb: Emb, routed: bool, deny: List[List[Any]], meta: Dict[str, Any], skip=()):
        from primaite.simulator.network.hardware.node_operating_state import NodeOperatingState
        from primaite.simulator.network.hardware.nodes.network.router import Router

        self.ON = NodeOperatingState.ON
        self.network, self.emb, self.routed, self.deny, self.meta = network, emb, routed, deny, meta
        self.skip = list(skip)
        self.nodes: Dict[str, Any] = {}
        self.kind: Dict[str, str] = {}
        for nd in network.nodes.values():
            ifs = self.ifaces(nd)
            if not ifs or not hasattr(nd, "software_manager"):
                continue
            h = nd.config.hostname
            self.nodes[h] = nd
            self.kind[h] = "router" if isinstance(nd, Router) else "host"
        self.traces: List[Dict[str, Any]] = []
        self.cur: Optional[Dict[str, Any]] = None      # trace being written
        self.ctx: Optional[Dict[str, Any]] = None      # scan in progress
        self.stim: List[Any] = []
        self.counts: Dict[str, int] = {}

    # -- projection of the real objects onto the variables of Nmap.tla
    def ifaces(self, nd):
        return [i for i in nd.network_interface.values()
                if getattr(i, "ip_address", None) is not None and not i.ip_address.is_loopback]

    def project(self) -> Dict[str, Any]:
        on, nic, run = [], [], []
        for h, nd in self.nodes.items():
            if nd.operating_state == self.ON:
                on.append(h)
            for i in self.ifaces(nd):
                if i.enabled:
                    nic.append(self.emb.addr(i.ip_address))
            run.append({"n": h, "sw": sorted(sw_name(k) for k, s in nd.software_manager.software.items()
                                              if s.operating_state.name == "RUNNING")})
        return {"on": sorted(on), "nic": sorted(nic), "run": run}

    def config(self) -> Dict[str, Any]:
        nodes, own, ifnet, swpp, lis = [], [], [], {}, []
        for h, nd in self.nodes.items():
            g = getattr(nd.config, "default_gateway", None) if self.kind[h] == "host" else None
            nodes.append({"n": h, "kind": self.kind[h], "gw": self.emb.addr(g) if g else 0,
                          "inst": sorted(sw_name(k) for k in nd.software_manager.software)})
            for i in self.ifaces(nd):
                own.append({"a": self.emb.addr(i.ip_address), "n": h})
                ifnet.append({"a": self.emb.addr(i.ip_address), **self.emb.span(IPv4Network(str(i.ip_network)))})
            for k, s in nd.software_manager.software.items():
                pp = (str(s.protocol), int(s.port))
                if swpp.setdefault(sw_name(k), pp) != pp:
                    raise RuntimeError(f"EXT-nmap: software {k} uses different ports on different nodes")
                for q in sorted(getattr(s, "listen_on_ports", None) or []):
                    lis.append({"n": h, "name": sw_name(k), "q": int(q)})
        return {"nodes": nodes, "own": own, "nets": self.emb.nets(), "ifnet": ifnet,
                "swpp": [{"name": k, "p": p, "q": q} for k, (p, q) in sorted(swpp.items())],
                "lis": lis, "deny": [{"p": p, "q": q} for p, q in self.deny], "routed": self.routed, "st": self.project(),
                "skip": list(self.skip)}

    def digest(self, but: str) -> str:
        out: Dict[str, Any] = {}
        for nd in self.network.nodes.values():
            h = nd.config.hostname
            if h != but:
                _flat(nd.describe_state(), h, out)
        keep = {k: v for k, v in out.items() if not VOLATILE.search(k)}
        return hashlib.sha1(json.dumps(keep, sort_keys=True, default=str).encode()).hexdigest()

    # -- traces
    def begin(self):
        self.cur = {"cfg": self.config(), "ev": [], "meta": dict(self.meta), "stimulus": list(self.stim)}

    def cut(self):
        """A scan has ended: the trace is complete, the next one starts from the world as it is."""
        if self.cur is not None and self.cur["ev"]:
            self.cur["cfg"]["nets"] = self.emb.nets()       # networks named by the scan itself
            self.cur["stimulus"] = list(self.stim)
            self.traces.append(self.cur)
        self.stim = self.stim[-6:]
        self.begin()

    def emit(self, ev: str, st: bool = False, **kw) -> Dict[str, Any]:
        e = dict(DEFAULTS)
        e.update(kw)
        e["ev"] = ev
        if st:
            e["hasst"], e["st"] = True, self.project()
        if self.cur is None:
            self.begin()
        self.cur["ev"].append(e)
        self.counts[ev] = self.counts.get(ev, 0) + 1
        return e

    # -- a scan
    def targets(self, t) -> List[int]:
        if t is None:
            return []
        if isinstance(t, (str, IPv4Address, IPv4Network)):
            t = [t]
        return [self.emb.target(x) for x in t]

    def open(self, node, nmap, kind: str, via: str, tg, pr, po):
        from primaite.utils.validation.port import PORT_LOOKUP

        if pr is None:
            pr = ["tcp", "udp"]             # "Defaults to None, which includes TCP and UDP"
        elif isinstance(pr, str):
            pr = [pr]
        if po is None:
            po = [v for k, v in PORT_LOOKUP.items() if k not in ("NONE", "UNUSED")]     # "all valid ports"
            if self.cur is not None and "PortsInRequestOrder" not in self.cur["cfg"]["skip"]:
                self.cur["cfg"]["skip"].append("PortsInRequestOrder")      # no order is given for the default
        elif isinstance(po, (int, str)):
            po = [po]
        po = [PORT_LOOKUP[q] if isinstance(q, str) else int(q) for q in po]
        pr = [str(p).lower() for p in pr]
        if kind == "ping":
            pr, po = [], []
        h = node.config.hostname
        self.ctx = {"node": node, "nmap": nmap, "host": h, "kind": kind, "via": via, "win": None, "stray": [0, 0],
                    "digest": self.digest(h)}
        self.emit("ScanStart", node=h, kind=kind, via=via, tg=self.targets(tg), pr=pr, po=po)

    def flatten(self, kind: str, data: Any) -> List[Dict[str, Any]]:
        res = []
        if kind == "ping":
            hosts = data.get("live_hosts", []) if isinstance(data, dict) else (data or [])
            for a in hosts:
                res.append({"a": self.emb.addr(a), "p": "", "q": 0})
        elif isinstance(data, dict):
            for a, by_proto in data.items():
                if not isinstance(by_proto, dict):      # a refusal carries {"reason": text}: nothing is reported
                    continue
                for p, ports in by_proto.items():
                    for q in ports:
                        res.append({"a": self.emb.addr(a), "p": str(p), "q": int(q)})
        return res

    def close(self, ok: bool, data: Any, exc):
        ctx = self.ctx
        self.ctx = None
        if exc is not None:
            self.emit("Raised", st=True, name=type(exc).__name__)
        else:
            js = True
            if ctx["via"] == "request" or ctx.get("json"):
                try:
                    js = json.loads(json.dumps(data)) == data
                except (TypeError, ValueError):
                    js = False
            self.emit("ScanEnd", st=True, flag=bool(ok), res=self.flatten(ctx["kind"], data), js=js,
                      same=self.digest(ctx["host"]) == ctx["digest"], n=ctx["stray"][0], m=ctx["stray"][1])
        self.cut()


def W() -> Optional[World]:
    return _W[0]


def install():
    """Wrappers of the handlers that are actions of Nmap.tla (once per process)."""
    if _INSTALLED[0]:
        return
    _INSTALLED[0] = True
    from primaite.simulator.network.hardware.nodes.host.host_node import NIC
    from primaite.simulator.network.protocols.icmp import ICMPType
    from primaite.simulator.sim_container import Simulation
    from primaite.simulator.system.applications.nmap import NMAP
    from primaite.simulator.system.services.icmp.icmp import ICMP

    # -- requests
    def b_apply(sim, request, context=None):
        w = W()
        if w is None or w.ctx is not None:
            return None
        if (len(request) >= 7 and request[0] == "network" and request[1] == "node" and request[3] == "application"
                and request[4] == "nmap" and request[5] in KINDS and isinstance(request[6], dict)):
            nd = w.nodes.get(request[2])
            if nd is None:
                return None
            o = request[6]
            w.open(nd, nd.software_manager.software.get("nmap"), KINDS[request[5]], "request", o.get("target_ip_address"),
                   o.get("target_protocol"), o.get("target_port"))
            return "scan"
        return None

    def a_apply(sim, tok, ret, exc, request, context=None):
        if tok == "scan":
            w = W()
            w.close(ret is not None and ret.status == "success", ret.data if ret is not None else None, exc)

    tracer.wrap(Simulation, "apply_request", before=b_apply, after=a_apply)

    # -- the Python API
    def api(kind):
        def before(nmap, *a, **k):
            w = W()
            if w is None:
                return None
            tg = k.get("target_ip_address", a[0] if a else None)
            if w.ctx is None:
                w.open(nmap.software_manager.node, nmap, kind, "api", tg, k.get("target_protocol"), k.get("target_port"))
                w.ctx["json"] = bool(k.get("json_serializable"))
                return "api"
            if kind == "port" and w.ctx["kind"] == "recon" and nmap is w.ctx["nmap"]:
                w.emit("PortPhase", tg=w.targets(tg))
            return None

        def after(nmap, tok, ret, exc, *a, **k):
            if tok == "api":
                W().close(exc is None, ret, exc)

        return before, after

    for kind, meth in METHOD.items():
        b, a = api(kind)
        tracer.wrap(NMAP, meth, before=b, after=a)

    # -- frames the scanner puts on the wire
    def b_send(nic, frame, *a, **k):
        w = W()
        if w is None or w.ctx is None or nic._connected_node is not w.ctx["node"]:
            return None
        if frame.icmp is not None and frame.icmp.icmp_type == ICMPType.ECHO_REQUEST:
            return 0
        if type(frame.payload).__name__ == "PortScanPayload" and frame.payload.request:
            return 0
        return 1

    def a_send(nic, tok, ret, exc, frame, *a, **k):
        if tok is None or not ret:
            return
        w = W()
        if w is None or w.ctx is None:
            return
        (w.ctx["win"] if w.ctx["win"] is not None else w.ctx["stray"])[tok] += 1

    tracer.wrap(NIC, "send_frame", before=b_send, after=a_send)

    # -- one ping of the ping scan
    def b_ping(icmp, *a, **k):
        w = W()
        if w is None or w.ctx is None or icmp.software_manager.node is not w.ctx["node"] or w.ctx["win"] is not None:
            return None
        w.ctx["win"] = [0, 0]
        return "ping"

    def a_ping(icmp, tok, ret, exc, *a, **k):
        if tok != "ping":
            return
        target_ip_address = k.get("target_ip_address", a[0] if a else None)
        w = W()
        win, w.ctx["win"] = w.ctx["win"], None
        if exc is None:
            w.emit("Ping", addr=w.emb.addr(target_ip_address), flag=bool(ret), n=win[0], m=win[1])

    tracer.wrap(ICMP, "ping", before=b_ping, after=a_ping)

    # -- one probe of the port scan
    def b_check(nmap, *a, **k):
        w = W()
        if w is None or w.ctx is None or nmap is not w.ctx["nmap"] or k.get("is_re_attempt") or (len(a) > 3 and a[3]):
            return None
        ip = k.get("ip_address", a[0] if a else None)
        port = k.get("port", a[1] if len(a) > 1 else None)
        proto = k.get("protocol", a[2] if len(a) > 2 else None)
        w.ctx["win"] = [0, 0]
        tri = {"addr": w.emb.addr(ip), "proto": str(proto), "port": int(port)}
        w.emit("Probe", **tri)
        return tri

    def a_check(nmap, tok, ret, exc, *a, **k):
        if tok is None:
            return
        w = W()
        win, w.ctx["win"] = w.ctx["win"], None
        if exc is None:
            w.emit("ProbeEnd", flag=bool(ret), n=win[0], m=win[1], **tok)

    tracer.wrap(NMAP, "_check_port_open_on_ip_address", before=b_check, after=a_check)

    # -- the target's NMAP handles the probe (the response is sent, and taken, inside this call: the event keeps the
    #    place of the call's entry and is completed at its return)
    def b_req(nmap, *a, **k):
        w = W()
        if w is None or w.ctx is None:
            return None
        payload = k.get("payload", a[0] if a else None)
        return w.emit("Answer", node=nmap.software_manager.node.config.hostname, addr=w.emb.addr(payload.ip_address),
                      proto=str(payload.protocol), port=int(payload.port))

    def a_req(nmap, tok, ret, exc, *a, **k):
        if tok is None:
            return
        payload = k.get("payload", a[0] if a else None)
        tok["flag"] = payload.request is False

    tracer.wrap(NMAP, "_process_port_scan_request", before=b_req, after=a_req)

    def b_resp(nmap, *a, **k):
        w = W()
        if w is None or w.ctx is None:
            return None
        payload = k.get("payload", a[0] if a else None)
        return payload.uuid in nmap._active_port_scans  # noqa

    def a_resp(nmap, tok, ret, exc, *a, **k):
        if tok:
            W().emit("Response", node=nmap.software_manager.node.config.hostname)

    tracer.wrap(NMAP, "_process_port_scan_response", before=b_resp, after=a_resp)


# ---------------------------------------------------------------------------------------------------------------
# stimulus
# ---------------------------------------------------------------------------------------------------------------


def _req(game, *path):
    return game.simulation.apply_request(["network", "node", *path])


def settle(game, nd, want_on: bool):
    from primaite.simulator.network.hardware.node_operating_state import NodeOperatingState as N

    for _ in range(8):
        if (nd.operating_state == N.ON) == want_on and nd.operating_state in (N.ON, N.OFF):
            return
        game.pre_timestep()
        game.advance_timestep()


def do_scan(w: World, game, rng: random.Random, n: str, kind: str, via: str, ts: List[int], pr: List[str], po: List[int],
            defaults: bool = False):
    strs = [w.emb.target_str(t) for t in ts]
    w.stim.append(["scan", n, kind, via, strs, pr, po])
    nd = w.nodes[n]
    if via == "request":
        opts: Dict[str, Any] = {"target_ip_address": strs[0] if len(strs) == 1 and rng.random() < 0.5 else strs, "show": False}
        if kind != "ping":
            opts["target_protocol"] = None if defaults else (pr[0] if len(pr) == 1 and rng.random() < 0.5 else list(pr))
            opts["target_port"] = None if defaults else (po[0] if len(po) == 1 and rng.random() < 0.5 else list(po))
        try:
            _req(game, n, "application", "nmap", METHOD[kind], opts)
        except Exception:  # noqa  (recorded as a Raised event by the wrapper)
            if w.ctx is not None or not w.traces or w.traces[-1]["ev"][-1]["ev"] != "Raised":
                raise
    else:
        nmap = nd.software_manager.software["nmap"]
        objs = [IPv4Network(s) if "/" in s else IPv4Address(s) for s in strs]
        kw: Dict[str, Any] = {"target_ip_address": objs[0] if len(objs) == 1 and rng.random() < 0.5 else objs, "show": False,
                              "json_serializable": rng.random() < 0.5}
        if kind != "ping":
            kw["target_protocol"] = None if defaults else list(pr)
            kw["target_port"] = None if defaults else list(po)
        try:
            getattr(nmap, METHOD[kind])(**kw)
        except Exception:  # noqa
            if w.ctx is not None or not w.traces or w.traces[-1]["ev"][-1]["ev"] != "Raised":
                raise


def mc_world(deny: List[List[Any]], meta: Dict[str, Any], listen: bool = False):
    game = scenarios.build(net_cfg(deny, listen))
    emb = Emb()
    for i, s in MC_BLOCKS.items():
        emb.add_block(IPv4Network(s), i)
    for k, s in MC_NETS.items():
        emb.tnets[k] = IPv4Network(s)
    w = World(game.simulation.network, emb, True, deny, meta)
    # the hosts' web browser holds tcp/80 like the web server: closed, so that the web server decides about the port
    for h, nd in w.nodes.items():
        if "web-browser" in nd.software_manager.software:
            _req(game, h, "application", "web-browser", "close")
    return game, w


def replay(beh, idx: int, rng: random.Random) -> World:
    deny = [list(x) for x in beh[0]["state"]["deny"]["__set__"]]
    game, w = mc_world(deny, {"behaviour": idx})
    _W[0] = w
    w.begin()
    try:
        for st in beh[1:]:
            a = st["action"]
            if a not in ("MPower", "MNic", "MSw", "MScanStart"):
                continue
            p = tlc.parse_value("<<" + st["params"] + ">>")
            if a == "MPower":
                n, up = p
                w.stim.append(["power", n, up])
                _req(game, n, "startup" if up else "shutdown")
                settle(game, w.nodes[n], up)
                w.emit("Power", st=True, node=n, flag=up)
            elif a == "MNic":
                addr, up = p
                ip = w.emb.ip(addr)
                w.stim.append(["nic", str(ip), up])
                for h, nd in w.nodes.items():
                    for num, i in nd.network_interface.items():
                        if getattr(i, "ip_address", None) == ip:
                            _req(game, h, "network_interface", num, "enable" if up else "disable")
                w.emit("Nic", st=True, addr=addr, flag=up)
            elif a == "MSw":
                n, s, up = p
                w.stim.append(["sw", n, s, up])
                obj = w.nodes[n].software_manager.software[real_name(s)]
                if s == "nmap":
                    if up:
                        obj.run()
                    else:
                        _req(game, n, "application", "nmap", "close")
                else:
                    _req(game, n, "service", real_name(s), "start" if up else "stop")
                w.emit("Sw", st=True, node=n, name=s, flag=up)
            else:
                n, kind, via, ts, pr, po = p
                do_scan(w, game, rng, n, kind, via, ts, pr, po)
    finally:
        _W[0] = None
    return w


def directed(rng: random.Random) -> List[World]:
    """Scans the model's behaviours do not produce: default protocols / ports, every scanner form on one world."""
    out = []
    for deny in ([], [["tcp", 80]]):
        game, w = mc_world(deny, {"directed": True, "deny": deny})
        _W[0] = w
        w.begin()
        try:
            do_scan(w, game, rng, "a", "port", "request", [2002, 1003], [], [], defaults=True)
            do_scan(w, game, rng, "a", "recon", "api", [1000002, 1003], [], [], defaults=True)
            do_scan(w, game, rng, "b", "recon", "request", [1000001], ["tcp"], [80, 22])
            do_scan(w, game, rng, "c", "ping", "api", [1000001, 1000002], [], [])
        finally:
            _W[0] = None
        out.append(w)
    # a service with additional listen_on_ports (common_configuration.rst): ports 445 and 631 of c
    game, w = mc_world([], {"directed": True, "listen_on_ports": True}, listen=True)
    _W[0] = w
    w.begin()
    try:
        do_scan(w, game, rng, "a", "port", "request", [1003, 1001], ["tcp"], [80, 631])
        do_scan(w, game, rng, "b", "recon", "request", [1000001], ["tcp", "udp"], [445, 80])
    finally:
        _W[0] = None
    out.append(w)
    return out


# ---------------------------------------------------------------------------------------------------------------
# scenario scale
# ---------------------------------------------------------------------------------------------------------------


def scenario_run(steps: int, seed: int, rng: random.Random) -> World:
    """uc7_config.yaml: TAP001 scans from its starting host; three more nmap actions are played by the defender."""
    from primaite.session.environment import PrimaiteGymEnv

    cfg = scenarios.shipped("uc7_config.yaml")
    extra = [
        {"action": "node-nmap-ping-scan", "options": {"source_node": "ST_PROJ-A-PRV-PC-2",
                                                      "target_ip_address": ["192.168.230.0/29", "192.168.220.3"], "show": False}},
        {"action": "node-nmap-port-scan", "options": {"source_node": "ST_PROJ-A-PRV-PC-2", "target_ip_address": "192.168.230.0/29",
                                                      "target_protocol": ["tcp", "udp"], "target_port": [5432, 80, 123, 22],
                                                      "show": False}},
        {"action": "node-network-service-recon", "options": {"source_node": "ST_PROJ-A-PRV-PC-3",
                                                             "target_ip_address": ["192.168.230.0/29"], "target_protocol": "tcp",
                                                             "target_port": [22, 5432], "show": False}},
    ]
    first = None
    for ag in cfg["agents"]:
        if ag["type"] == "proxy-agent":
            am = ag["action_space"]["action_map"]
            first = max(int(k) for k in am) + 1
            for i, x in enumerate(extra):
                am[first + i] = x
    if first is None:
        raise RuntimeError("EXT-nmap: uc7_config.yaml has no proxy agent")
    env = PrimaiteGymEnv(env_config=cfg)
    env.reset(seed=seed)
    emb = Emb()
    w = World(env.game.simulation.network, emb, False, [], {"scenario": "uc7_config.yaml", "seed": seed})
    plan = {6: first, 13: first + 1, 21: first + 2, 27: first, 33: first + 1, 41: first + 2}
    _W[0] = w
    w.begin()
    try:
        # the world moves between the scans (green and red agents): it is read just before every scan request
        orig_open = w.open

        def open_with_env(*a, **k):
            w.emit("EnvSet", st=True)
            orig_open(*a, **k)

        w.open = open_with_env  # type: ignore
        for t in range(steps):
            act = plan.get(t, 0)
            w.stim.append(["step", t, act])
            env.step(act)
    finally:
        _W[0] = None
        env.close()
    return w


# ---------------------------------------------------------------------------------------------------------------


PRIORITY = ("NoTrafficUnlessRunning", "ScanRunsToEnd", "AnswerIffOpen", "PortOpenIffListening", "PortScanExact")


def sig(tr, e, stuck) -> Dict[str, Any]:
    """Signature of a rejection: the event, the leading failing clause (so that one cause has one signature whatever
    else it drags along) and the recognisable cause."""
    fail = sorted((stuck or {}).get("fail") or [])
    lead = next((c for c in PRIORITY if c in fail), fail[0] if fail else "no-matching-action")
    start = next((x for x in tr["ev"] if x["ev"] == "ScanStart"), {})
    tg = start.get("tg", [])
    mixed = any(t >= 1000000 for t in tg) and len(tg) > 1
    lports = {x["q"] for x in tr["cfg"].get("lis", [])}
    cause = ""
    if lead == "NoTrafficUnlessRunning":
        cause = "scanner-not-running-still-scans"
    elif lead in ("ScanRunsToEnd", "PortScanExact") and mixed:
        cause = "mixed-target-list-loses-addresses"
    elif lead in ("AnswerIffOpen", "PortOpenIffListening", "PortScanExact") and (
            e.get("port") in lports or any(r["q"] in lports for r in e.get("res", [])) or (lports & set(start.get("po", [])))):
        cause = "listen-on-ports-not-reported"
    elif fail == ["PortsInRequestOrder"]:
        cause = "ports-not-in-request-order"
    return {"ev": e.get("ev"), "clause": lead, "clauses": ",".join(fail), "cause": cause}


def main(tier: str, seed: int) -> int:
    from concurrent.futures import ThreadPoolExecutor

    import time as _time

    chk = common.Check("EXT-nmap", "model_checking", tier, seed)
    t0 = _time.time()
    phases: Dict[str, float] = {}

    def mark(name: str):
        phases[name] = round(_time.time() - t0, 1)

    quick = tier == "quick"
    rng = random.Random(seed)
    pool = ThreadPoolExecutor(max_workers=4)
    f_mc = pool.submit(tlc.mc, "MC_Nmap")
    f_neg = pool.submit(tlc.mc, "MC_Nmap", "MC_NmapAsCoded.cfg")
    f_sim = pool.submit(tlc.simulate, "MC_Nmap", "MC_NmapSim.cfg", 16 if quick else 120, 400 if quick else 600, seed)
    f_deep = pool.submit(tlc.mc, "MC_Nmap", "MC_NmapDeep.cfg") if not quick else None
    common.boot()
    install()
    mark("boot")

    behs, info = f_sim.result()
    worlds: List[World] = []
    stim_counts: Dict[str, int] = {}
    for i, beh in enumerate(behs):
        for st in beh[1:]:
            stim_counts[st["action"]] = stim_counts.get(st["action"], 0) + 1
        worlds.append(replay(beh, i, rng))
    worlds += directed(rng)
    traces = [t for w in worlds for t in w.traces]
    mark("replayed")
    for t in traces:
        chk.add_case(t["stimulus"][-1:] + [t["cfg"]["deny"], t["cfg"]["st"]["on"]])
    res = tlc.validate("NmapTrace", traces, chunk=60, parallel=8)
    mark("validated")
    # the binding self-test (JVMs) runs beside the scenario-scale run (Python)
    f_judge = pool.submit(common.judge_traces, chk, "Nmap", traces, res, sig, "replay", "NmapTrace")
    sw = scenario_run(64 if quick else 128, seed, rng)
    mark("scenario_run")
    straces = sw.traces
    sres = tlc.validate("NmapTrace", straces, chunk=4, parallel=8)
    f_judge.result()
    mark("selftest")
    common.judge_traces(chk, "Nmap", straces, sres, sig, label="uc7_config.yaml")
    mark("scenario")

    r = f_mc.result()
    if not r["ok"]:
        chk.violation({"module": "MC_Nmap", "clause": str(r["violation"])}, {"tlc": r["output_tail"]})
    missing = [a for a in MC_ACTIONS if r["coverage"].get(a, (0, 0))[0] == 0]
    if missing:
        raise tlc.TLCError(f"vacuous model MC_Nmap: actions never taken: {missing}")
    chk.add_mc("MC_Nmap(a, c -- r -- b; 4 ACLs; <= 2 environment changes, 1 scan of 3 kinds x 3 target lists x 2 x 2)", r)
    rn = f_neg.result()
    if rn["ok"] or rn["violation"] != ("invariant", "InvNoTrafficUnlessRunning"):
        raise tlc.TLCError(f"negative configuration MC_NmapAsCoded was not refuted as expected: {rn['violation']}")
    chk.add_mc("MC_NmapAsCoded (readiness tested after scanning: refuted, InvNoTrafficUnlessRunning)", rn)
    if f_deep is not None:
        rd = f_deep.result()
        if not rd["ok"]:
            chk.violation({"module": "MC_NmapDeep", "clause": str(rd["violation"])}, {"tlc": rd["output_tail"]})
        chk.add_mc("MC_NmapDeep(<= 3 environment changes, scanners a and b)", rd)

    mark("model_checked")
    chk.cov["phase_wall_s"] = phases

    counts: Dict[str, int] = {}
    for w in worlds + [sw]:
        for k, v in w.counts.items():
            counts[k] = counts.get(k, 0) + v
    accepted = sum(1 for (a, b) in res["results"] + sres["results"] if a == b + 1)
    never = [e for e in EVENTS if counts.get(e, 0) == 0]
    if never:
        raise RuntimeError(f"EXT-nmap: actions of the model never exercised in the code: {never}")
    seen = chk.cov.get("impl_events", {})
    unjudged = [e for e in EVENTS if seen.get(e, 0) == 0]
    if unjudged or accepted == 0:
        raise RuntimeError(f"EXT-nmap: vacuous validation: accepted traces={accepted}, events never accepted: {unjudged}")
    chk.cov["impl_events_recorded"] = counts
    chk.cov["stimulus_actions"] = stim_counts
    chk.cov["behaviours_replayed"] = len(behs)
    chk.cov["traces"] = {"replay": len(traces), "scenario": len(straces), "accepted": accepted}
    chk.cov["simulate"] = {"states": info["states"], "wall_s": round(info["wall_s"], 1)}
    chk.assumptions += [
        "a target answers a port probe through its own NMAP application (HostNode.receive_frame 'can_accept_nmap', "
        "SoftwareManager.receive_payload_from_session_manager): a target whose NMAP is not RUNNING reports no open port - "
        "modelled as coded",
        "the scanner's own addresses are passed over (nmap.py:218) although the example in nmap.rst lists the scanner's own "
        "address: either is accepted",
        "uc7_config.yaml: reachability beyond the scanner's own subnet (routers, firewalls, their ACLs) is taken from the "
        "log; only its necessary conditions (owner ON, interface enabled, software RUNNING) are judged there",
        "ICMP services are never stopped; the ARP port (udp/219) is link-local (router.py:1444)",
    ]
    if traces:
        chk.sample({"cfg_deny": traces[0]["cfg"]["deny"], "ev": [{k: v for k, v in e.items() if k != "st"} for e in traces[0]["ev"][:6]]})
    return chk.finish()
