"""Extension (beyond the listed properties): NTP client / server and episode scheduling against
spec/NtpSchedule.tla (= Ntp.tla + Schedule.tla side by side).

(a) MC_NtpSchedule is checked exhaustively (plus two negative configurations TLC must refute: the
    server answering replies as coded on a node hosting client and server, and a scheduler handing
    out configurations that share structure with what it keeps).
(b) TLC -simulate behaviours of both components are replayed as stimulus into real objects:
    ntp:   hosts a, p, s behind a real router (PrimaiteGame.from_config), driven through
           NTPClient.configure / request_time, node and service requests, router ACL and ticks;
    sched: real schedule folders / dict / file configs written to a scratch directory, driven through
           PrimaiteGymEnv(...) / reset / step, direct scheduler calls and owners changing the
           configuration they were handed.
(c) every spec action is recorded as one event at the real call (tracer.wrap / tracer.watch) with the
    post-state read from the real objects;  (d) TLC validates the traces against NtpScheduleTrace.tla;
(e) scenario-scale: the shipped schedule folders and shipped scenarios are run through PrimaiteGymEnv with
    random actions past the wrap-around and projected onto both components.
Run: ./check EXT-ntp_schedule"""
from __future__ import annotations

import copy
import hashlib
import json
import os
import random
import shutil
import warnings
from datetime import datetime, timedelta
from pathlib import Path
from typing import Any, Dict, List, Optional

import yaml

from . import common, scenarios, tlc, tracer

PROP = "EXT-ntp_schedule"
SCRATCH = Path("/tmp/ext_ntp_schedule")
MC_ACTIONS_NTP = ("MConfigure", "MSetNode", "MSetSvc", "MSetBlock", "MRequestNow", "MTick", "MClientPhase",
                  "MServerReceive", "MPeerReceive", "MReply", "MClientReceive", "MTickEnd")
MC_ACTIONS_SCHED = ("MEnvCall", "MEnvInit", "MCall", "MResetCall", "MResetDone", "MStep", "MMutate")
NTP_EVENTS = ("Configure", "SetNode", "SetSvc", "SetBlock", "Tick", "Request", "ServerReceive", "Reply",
              "ClientReceive", "PeerReceive", "TickEnd")
SCHED_EVENTS = ("Call", "Mutate", "EnvInit", "Reset", "Step")

ZERO = {"ev": "", "n": "", "d": "", "what": "", "s": "", "b": False, "tm": 0, "post": 0, "times": [], "k": 0,
        "dig": "", "w": 0, "g": "", "a": 0, "o": "", "i": 0}


def E(ev: str, **kw) -> Dict[str, Any]:
    e = dict(ZERO)
    e["ev"] = ev
    e.update(kw)
    return e


def canon(obj: Any) -> Any:
    if isinstance(obj, dict):
        return {f"{type(k).__name__}:{k}": canon(v) for k, v in obj.items()}
    if isinstance(obj, (list, tuple)):
        return [canon(v) for v in obj]
    return obj


def digest(obj: Any) -> str:
    return hashlib.md5(json.dumps(canon(obj), sort_keys=True, default=str).encode()).hexdigest()[:12]


def alias_of(name: str) -> str:
    """Node names become TLA+ record fields: keep them identifier-like."""
    s = "".join(c if c.isalnum() else "_" for c in str(name))
    return s if s[:1].isalpha() else "n_" + s


# ---------------------------------------------------------------------------------------------------
# the server's clock: readings 1, 2, 3 ... seconds after BASE (the time source is the environment of the component)
# ---------------------------------------------------------------------------------------------------
BASE = datetime(2030, 1, 1)


class _Clock:
    n = 0


class FakeDT(datetime):
    @classmethod
    def now(cls, tz=None):
        _Clock.n += 1
        return BASE + timedelta(seconds=_Clock.n)


def serial(dt: Optional[datetime]) -> int:
    if dt is None:
        return 0
    d = dt - BASE
    s = int(d.total_seconds())
    return s if 0 < s < 2 ** 29 and d == timedelta(seconds=s) else 2 ** 29  # a time no server clock reading explains


# ---------------------------------------------------------------------------------------------------
# recorder
# ---------------------------------------------------------------------------------------------------
class Recorder:
    """One NTP trace (the game attached) and one schedule trace (the environment followed) at a time."""

    def __init__(self):
        self.ntp: Optional[Dict[str, Any]] = None
        self.game = None
        self.names: Dict[str, str] = {}      # hostname -> alias (nodes of the attached game that take part)
        self.ips: Dict[str, str] = {}        # ip -> alias
        self.on: Dict[str, bool] = {}
        self.svc: Dict[Any, str] = {}        # (role, alias) -> state
        self.router = None
        self.done_ntp: List[Dict[str, Any]] = []
        self.sched: Optional[Dict[str, Any]] = None
        self.handed: List[Any] = []
        self.handed_dig: List[str] = []
        self.seen_ids: Dict[int, Any] = {}
        self.build_idx = 0                   # index (1-based) of the configuration the current game was built from
        self.follow_env = False
        self.env_meta: Dict[str, Any] = {}
        self.env_router: Optional[str] = None
        self.warns = 0
        self._wstack: List[Any] = []
        self.installed = False

    # ---- installation -----------------------------------------------------------------------------
    def install(self):
        if self.installed:
            return
        self.installed = True
        import primaite.session.episode_schedule as es
        import primaite.simulator.system.services.ntp.ntp_server as ntp_server_mod
        from primaite.game.game import PrimaiteGame
        from primaite.session.environment import PrimaiteGymEnv
        from primaite.simulator.network.hardware.base import Node
        from primaite.simulator.network.protocols.ntp import NTPPacket
        from primaite.simulator.system.core.session_manager import SessionManager
        from primaite.simulator.system.services.ntp.ntp_client import NTPClient
        from primaite.simulator.system.services.ntp.ntp_server import NTPServer
        from primaite.simulator.system.services.service import Service

        self.NTPPacket, self.NTPClient, self.NTPServer = NTPPacket, NTPClient, NTPServer
        ntp_server_mod.datetime = FakeDT
        rec = self

        def arg(a, k, name, pos):
            return k[name] if name in k else (a[pos] if len(a) > pos else None)

        # -- messages handed to the network
        def on_send(sm, *a, **k):
            payload = arg(a, k, "payload", 0)
            if rec.ntp is None or not isinstance(payload, NTPPacket):
                return
            host = rec.names.get(getattr(sm.sys_log, "hostname", None))
            if host is None:
                return
            if payload.ntp_reply is None:
                rec.emit(E("Request", n=host, d=rec.ip_alias(arg(a, k, "dst_ip_address", 1))))
            else:
                sess = sm.sessions_by_uuid.get(arg(a, k, "session_id", 4))
                dst = rec.ip_alias(getattr(sess, "with_ip_address", None)) if sess is not None else "nowhere"
                rec.emit(E("Reply", n=host, d=dst, tm=serial(payload.ntp_reply.ntp_datetime)))

        tracer.wrap(SessionManager, "receive_payload_from_software_manager", before=on_send)

        def on_srv_receive(srv, *a, **k):
            # a *request* enters NTPServer.receive (anything else that reaches a server is no event of the contract:
            # what the server then does with it - answer it, hand it on, drop it - is judged by the events that follow)
            if rec.ntp is None:
                return
            host = rec.names.get(getattr(srv.sys_log, "hostname", None))
            payload = arg(a, k, "payload", 0)
            if host is None or not isinstance(payload, NTPPacket) or payload.ntp_reply is not None:
                return
            frame = k.get("frame")
            src = rec.ip_alias(frame.ip.src_ip_address) if frame is not None and frame.ip is not None else "nowhere"
            rec.emit(E("ServerReceive", n=host, d=src, what="req"))

        tracer.wrap(NTPServer, "receive", before=on_srv_receive)

        def on_cli_receive(cli, tok, ret, exc, *a, **k):
            if rec.ntp is None or exc is not None:
                return
            host = rec.names.get(getattr(cli.sys_log, "hostname", None))
            if host is None:
                return
            payload = arg(a, k, "payload", 0)
            if isinstance(payload, NTPPacket) and payload.ntp_reply is not None:
                rec.emit(E("ClientReceive", n=host, tm=serial(payload.ntp_reply.ntp_datetime), post=serial(cli.time)))
            else:
                rec.emit(E("PeerReceive", n=host, post=serial(cli.time)))

        tracer.wrap(NTPClient, "receive", after=on_cli_receive)

        def on_configure(cli, tok, ret, exc, *a, **k):
            if rec.ntp is None or exc is not None:
                return
            host = rec.names.get(getattr(cli.sys_log, "hostname", None))
            if host is not None:
                rec.emit(E("Configure", n=host, d=rec.target_of(cli)))

        tracer.wrap(NTPClient, "configure", after=on_configure)

        # -- environment of the component: node power and service operating states, as the objects hold them
        def on_node_state(node, name, old, new):
            if rec.ntp is None:
                return
            host = rec.names.get(getattr(getattr(node, "config", None), "hostname", None))
            if host is None:
                return
            now = getattr(new, "name", "") == "ON"
            if rec.on.get(host) != now:
                rec.on[host] = now
                rec.emit(E("SetNode", n=host, b=now))

        tracer.watch(Node, ["operating_state"], on_node_state)

        def on_svc_state(svc, name, old, new):
            if rec.ntp is None or not isinstance(svc, (NTPClient, NTPServer)):
                return
            host = rec.names.get(getattr(getattr(svc, "sys_log", None), "hostname", None))
            if host is None:
                return
            role = "cli" if isinstance(svc, NTPClient) else "srv"
            st = new.name.lower()
            if rec.svc.get((role, host)) != st:
                rec.svc[(role, host)] = st
                rec.emit(E("SetSvc", what=role, n=host, s=st))

        tracer.watch(Service, ["operating_state"], on_svc_state)

        # -- tick
        def before_tick(game, *a, **k):
            if rec.ntp is not None and game is rec.game:
                rec.emit(E("Tick"))

        def after_tick(game, tok, ret, exc, *a, **k):
            if rec.ntp is None or game is not rec.game:
                return
            if exc is not None:
                rec.emit(E("Raised", what=type(exc).__name__))
            else:
                rec.emit(E("TickEnd", times=rec.times()))

        tracer.wrap(PrimaiteGame, "advance_timestep", before=before_tick, after=after_tick)

        # -- the ACL of the router in between (environment of the component)
        from primaite.simulator.network.hardware.nodes.network.router import AccessControlList

        def after_acl_change(acl, tok, ret, exc, *a, **k):
            if rec.ntp is not None and rec.router is not None and acl is rec.router.acl:
                rec.sync_block()

        tracer.wrap(AccessControlList, "add_rule", after=after_acl_change)
        tracer.wrap(AccessControlList, "remove_rule", after=after_acl_change)

        # -- schedulers
        class LogProxy:
            def __init__(self, inner):
                self._inner = inner

            def warning(self, *a, **k):
                rec.warns += 1
                return self._inner.warning(*a, **k)

            warn = warning

            def __getattr__(self, item):
                return getattr(self._inner, item)

        es._LOGGER = LogProxy(es._LOGGER)

        def before_call(sch, *a, **k):
            cw = warnings.catch_warnings(record=True)
            lst = cw.__enter__()
            warnings.simplefilter("always")
            rec._wstack.append((cw, lst, rec.warns))

        def after_call(sch, tok, ret, exc, *a, **k):
            cw, lst, w0 = rec._wstack.pop()
            nwarn = (rec.warns - w0) + len(lst)
            cw.__exit__(None, None, None)
            if rec.sched is None:
                return
            if exc is not None:
                rec.sched["ev"].append(E("Raised", what=type(exc).__name__))
                return
            kk = arg(a, k, "episode_num", 0)
            shared = rec.shares_structure(ret, sch)
            rec.handed.append(ret)
            rec.handed_dig.append(digest(ret))
            rec.sched["ev"].append(E("Call", k=int(kk), dig=rec.handed_dig[-1], w=min(int(nwarn), 1), b=bool(shared)))

        tracer.wrap(es.EpisodeListScheduler, "__call__", before=before_call, after=after_call)
        tracer.wrap(es.ConstantEpisodeScheduler, "__call__", before=before_call, after=after_call)

        # -- environment
        def env_facts(env):
            o = env.observation_space
            return {"g": game_sig(env.game), "a": int(getattr(env.action_space, "n", 0)), "o": digest(str(o))}

        def after_env_init(env, tok, ret, exc, *a, **k):
            if rec.sched is None:
                return
            if exc is not None:
                rec.sched["ev"].append(E("Raised", what=type(exc).__name__))
                return
            rec.build_idx = len(rec.handed)
            rec.sched["ev"].append(E("EnvInit", **env_facts(env)))
            if rec.follow_env:
                rec.attach(env.game, dict(rec.env_meta, episode=0), router=rec.env_router)

        tracer.wrap(PrimaiteGymEnv, "__init__", after=after_env_init)

        def before_env_reset(env, *a, **k):
            if rec.follow_env:
                rec.detach()

        def after_env_reset(env, tok, ret, exc, *a, **k):
            if rec.sched is None:
                return
            if exc is not None:
                rec.sched["ev"].append(E("Raised", what=type(exc).__name__))
                return
            rec.build_idx = len(rec.handed)
            rec.sched["ev"].append(E("Reset", k=int(env.episode_counter), **env_facts(env)))
            if rec.follow_env:
                rec.attach(env.game, dict(rec.env_meta, episode=int(env.episode_counter)), router=rec.env_router)

        tracer.wrap(PrimaiteGymEnv, "reset", before=before_env_reset, after=after_env_reset)

        def after_env_step(env, tok, ret, exc, *a, **k):
            if rec.sched is None:
                return
            rec.sched["ev"].append(E("Raised", what=type(exc).__name__) if exc is not None else E("Step"))

        tracer.wrap(PrimaiteGymEnv, "step", after=after_env_step)

    # ---- ntp trace --------------------------------------------------------------------------------
    def emit(self, e):
        self.ntp["ev"].append(e)

    def ip_alias(self, ip) -> str:
        if ip is None:
            return "none"
        return self.ips.get(str(ip), "nowhere")

    def target_of(self, cli) -> str:
        ip = cli.config.ntp_server_ip
        return "none" if not ip else self.ip_alias(ip)

    def clients(self):
        for host, al in self.names.items():
            node = self.game.simulation.network.get_node_by_hostname(host)
            yield al, node, node.software_manager.software.get("ntp-client"), node.software_manager.software.get("ntp-server")

    def times(self):
        return [{"n": al, "t": serial(c.time) if c is not None else 0} for al, node, c, s in self.clients()]

    def attach(self, game, meta: Dict[str, Any], router: Optional[str] = None):
        """Start an NTP trace on `game`: every node holding an NTP client or server takes part."""
        self.detach()
        self.game = game
        self.names, self.ips, self.on, self.svc = {}, {}, {}, {}
        net = game.simulation.network
        for node in net.nodes.values():
            sw = getattr(getattr(node, "software_manager", None), "software", {})
            if "ntp-client" not in sw and "ntp-server" not in sw:
                continue
            al = alias_of(node.config.hostname)
            if al in self.names.values():
                raise RuntimeError(f"node alias clash {al}")
            self.names[node.config.hostname] = al
            for nic in node.network_interfaces.values():
                if getattr(nic, "ip_address", None) is not None:
                    self.ips[str(nic.ip_address)] = al
        self.router = net.get_node_by_hostname(router) if router else None
        cfg = {"comp": "ntp", "hasSrv": {}, "target": {}, "on": {}, "cst": {}, "sst": {}, "blocked": self.is_blocked()}
        for al, node, c, s in self.clients():
            cfg["hasSrv"][al] = s is not None
            cfg["target"][al] = self.target_of(c) if c is not None else "none"
            cfg["on"][al] = self.on[al] = node.operating_state.name == "ON"
            cfg["cst"][al] = self.svc[("cli", al)] = c.operating_state.name.lower() if c is not None else "absent"
            cfg["sst"][al] = self.svc[("srv", al)] = s.operating_state.name.lower() if s is not None else "absent"
        _Clock.n = 0
        self.ntp = {"cfg": cfg, "ev": [], "meta": dict(meta, comp="ntp"), "stimulus": []}

    def detach(self):
        if self.ntp is not None:
            self.done_ntp.append(self.ntp)
        self.ntp, self.game, self.router = None, None, None

    def is_blocked(self) -> bool:
        """UDP/123 denied by the first rule of the router in between that speaks about it (the rules used here
        carry no addresses)."""
        if self.router is None:
            return False
        for rule in self.router.acl.acl:
            if rule is None:
                continue
            proto_ok = rule.protocol in (None, "udp")
            ports_ok = rule.src_port in (None, 123) and rule.dst_port in (None, 123)
            if proto_ok and ports_ok and rule.src_ip_address is None and rule.dst_ip_address is None:
                return rule.action.name == "DENY"
        return True  # implicit deny

    def sync_block(self):
        b = self.is_blocked()
        if self.ntp is not None and b != self.ntp.get("_blocked", self.ntp["cfg"]["blocked"]):
            self.ntp["_blocked"] = b
            self.emit(E("SetBlock", b=b))

    # ---- schedule trace ---------------------------------------------------------------------------
    def start_sched(self, cfg: Dict[str, Any], meta: Dict[str, Any]):
        self.sched = {"cfg": dict(cfg, comp="sched"), "ev": [], "meta": dict(meta, comp="sched"), "stimulus": []}
        self.handed, self.handed_dig, self.seen_ids, self.build_idx = [], [], {}, 0

    def stop_sched(self) -> Dict[str, Any]:
        t, self.sched = self.sched, None
        self.handed, self.handed_dig, self.seen_ids = [], [], {}
        return t

    def shares_structure(self, cfg: Any, scheduler: Any) -> bool:
        """Does the configuration just handed out share a mutable container with one handed out before (all are
        kept alive here) or with what the scheduler keeps?"""
        mine: Dict[int, Any] = {}

        def walk(o, acc):
            if isinstance(o, (dict, list)):
                if id(o) in acc:
                    return
                acc[id(o)] = o
                for v in (o.values() if isinstance(o, dict) else o):
                    walk(v, acc)

        walk(cfg, mine)
        kept: Dict[int, Any] = {}
        for attr in ("config", "schedule", "episode_data"):
            walk(getattr(scheduler, attr, None), kept)
        # private caches too
        for v in list(getattr(scheduler, "__dict__", {}).values()) + list((getattr(scheduler, "__pydantic_private__", None) or {}).values()):
            walk(v, kept)
        for cls in type(scheduler).__mro__:
            for v in vars(cls).values():
                if isinstance(v, (dict, list)):
                    walk(v, kept)
        shared = any(i in self.seen_ids for i in mine) or any(i in kept for i in mine)
        self.seen_ids.update(mine)
        return shared


REC = Recorder()


def game_sig(game) -> str:
    """What an episode's game is made of (read from the real objects): agents, software per node, NTP targets."""
    sig = {"agents": sorted(game.agents.keys()), "nodes": {}}
    for node in game.simulation.network.nodes.values():
        sm = getattr(node, "software_manager", None)
        sw = sorted(sm.software.keys()) if sm is not None else []
        c = sm.software.get("ntp-client") if sm is not None else None
        sig["nodes"][node.config.hostname] = [sw, str(c.config.ntp_server_ip) if c is not None else ""]
    return digest(sig)


# ---------------------------------------------------------------------------------------------------
# ntp: scenario and replay
# ---------------------------------------------------------------------------------------------------
IP = {"a": "192.168.1.2", "s": "192.168.2.2", "p": "192.168.3.2", "nowhere": "192.168.2.99"}


def ntp_cfg(p_srv: bool, dur: int = 0) -> Dict[str, Any]:
    S = scenarios
    d = {"start_up_duration": dur, "shut_down_duration": dur}
    nodes = [
        S.host("a", IP["a"], "computer", gw="192.168.1.1",
               services=[{"type": "ntp-client", "options": {"ntp_server_ip": IP["s"]}}], **d),
        S.host("p", IP["p"], "server" if p_srv else "computer", gw="192.168.3.1",
               **({"services": [{"type": "ntp-server"}]} if p_srv else {}), **d),
        S.host("s", IP["s"], "server", gw="192.168.2.1", services=[{"type": "ntp-server"}], **d),
        {"hostname": "r", "type": "router", "num_ports": 3,
         "ports": {1: {"ip_address": "192.168.1.1", "subnet_mask": "255.255.255.0"},
                   2: {"ip_address": "192.168.2.1", "subnet_mask": "255.255.255.0"},
                   3: {"ip_address": "192.168.3.1", "subnet_mask": "255.255.255.0"}},
         "acl": {1: {"action": "PERMIT"}}},
    ]
    return S.base_cfg(nodes, [S.link("a", 1, "r", 1), S.link("s", 1, "r", 2), S.link("p", 1, "r", 3)])


def ntp_actions_of(beh) -> List[List[Any]]:
    """Stimulus alphabet from a TLC behaviour (the message / phase steps are consequences, not stimulus)."""
    out = []
    for st in beh[1:]:
        p = [x.strip().strip('"') for x in st["params"].split(",")] if st["params"] else []
        a = st["action"]
        if a == "MConfigure":
            out.append(["configure", p[0], p[1]])
        elif a == "MSetNode":
            out.append(["power", p[0], p[1] == "TRUE"])
        elif a == "MSetSvc":
            out.append(["svc", p[0], p[1], p[2]])
        elif a == "MSetBlock":
            out.append(["block", p[0] == "TRUE"])
        elif a == "MRequestNow":
            out.append(["request", p[0]])
        elif a == "MTick":
            out.append(["tick"])
    return out


def run_ntp(p_srv: bool, actions: List[List[Any]], meta: Dict[str, Any]) -> Dict[str, Any]:
    from ipaddress import IPv4Address

    from primaite.simulator.network.hardware.nodes.network.router import ACLAction

    game = scenarios.build(ntp_cfg(p_srv))
    net = game.simulation.network
    REC.attach(game, dict(meta, p_srv=p_srv), router="r")
    tr = REC.ntp
    tr["stimulus"] = {"p_srv": p_srv, "actions": actions}
    node = {h: net.get_node_by_hostname(h) for h in ("a", "p", "s", "r")}

    def sw(h, role):
        return node[h].software_manager.software.get("ntp-client" if role == "cli" else "ntp-server")

    def tick():
        game.pre_timestep()
        game.advance_timestep()

    def guarded(fn):
        try:
            fn()
            return True
        except Exception as ex:  # noqa - an exception out of repository code is an event no module allows
            if not tr["ev"] or tr["ev"][-1]["ev"] != "Raised":
                tr["ev"].append(E("Raised", what=type(ex).__name__))
            return False

    for act in list(actions) + [["tick"]]:
        kind = act[0]
        ok = True
        if kind == "configure":
            ok = guarded(lambda: sw(act[1], "cli").configure(IPv4Address(IP[act[2]]) if act[2] != "none" else None))
        elif kind == "power":
            want_on = bool(act[2])
            if (node[act[1]].operating_state.name == "ON") != want_on:
                ok = guarded(lambda: game.simulation.apply_request(["network", "node", act[1], "startup" if want_on else "shutdown"]))
        elif kind == "svc":
            role, h, want = act[1], act[2], act[3]
            s = sw(h, role)
            if s is None:
                continue
            cur = s.operating_state.name.lower()
            verb = {("running", "stopped"): "stop", ("paused", "stopped"): "stop", ("stopped", "running"): "start",
                    ("running", "paused"): "pause", ("paused", "running"): "resume"}.get((cur, want))
            if verb:
                ok = guarded(lambda: game.simulation.apply_request(["network", "node", h, "service", s.name, verb]))
        elif kind == "block":
            if bool(act[1]) and not REC.is_blocked():
                ok = guarded(lambda: node["r"].acl.add_rule(action=ACLAction.DENY, protocol="udp", src_port=123, dst_port=123, position=0))
            elif not bool(act[1]) and REC.is_blocked():
                ok = guarded(lambda: node["r"].acl.remove_rule(0))
        elif kind == "request":
            c = sw(act[1], "cli")
            if node[act[1]].operating_state.name == "ON" and c.operating_state.name == "RUNNING" and c.config.ntp_server_ip:
                ok = guarded(c.request_time)
        elif kind == "tick":
            ok = guarded(tick)
        if not ok:
            break
    REC.detach()
    REC.done_ntp.remove(tr)
    tr.pop("_blocked", None)
    return tr


def ntp_directed() -> List[List[List[Any]]]:
    """Directed sequences in the model's alphabet that random simulation reaches rarely."""
    T = ["tick"]
    return [
        # every message kind: served, peer (request to a host without server), nowhere, none
        [T, ["configure", "p", "a"], T, ["configure", "a", "nowhere"], T, ["configure", "a", "none"], T,
         ["configure", "a", "s"], ["configure", "p", "s"], T, T],
        # stopped / paused client, stopped server, power of client and server, block
        [T, ["svc", "cli", "a", "stopped"], T, ["svc", "cli", "a", "running"], T, ["svc", "cli", "a", "paused"], T,
         ["svc", "cli", "a", "running"], ["svc", "srv", "s", "stopped"], T, ["svc", "srv", "s", "running"], T,
         ["power", "s", False], T, ["power", "s", True], T, ["power", "a", False], T, T, ["power", "a", True], T,
         ["block", True], T, ["request", "a"], ["block", False], T, ["request", "a"]],
        # the time survives a stop / power cycle of the client and is overwritten by the next reply only
        [T, ["svc", "cli", "a", "stopped"], T, ["power", "a", False], T, ["power", "a", True], ["block", True], T,
         ["block", False], T],
    ]


def sig_fn(tr, event, stuck):
    """Canonical key of a rejected trace: the root cause, not the circumstances (those are in the replay file)."""
    fail = set((stuck or {}).get("fail") or [])
    meta = tr.get("meta") or {}
    if meta.get("comp") == "ntp":
        st = (stuck or {}).get("st") or {}
        has = (tr.get("cfg") or {}).get("hasSrv") or {}
        net = st.get("net") if isinstance(st, dict) and isinstance(st.get("net"), dict) else {}
        # a reply on its way to a client whose node also hosts an NTP server (both use UDP/123 there)
        if net.get("k") == "rep" and has.get(net.get("dst")):
            return {"comp": "ntp", "root": "reply addressed to a client on a node that also hosts an NTP server",
                    "event": "any", "clause": "ServerAnswersOnlyRequestsOnce|NoLossWithoutCause"}
        return {"comp": "ntp", "in_flight": net.get("k"), "what": event.get("what")}
    return {"comp": "sched", "kind": (tr.get("cfg") or {}).get("kind"), "scenario": meta.get("scenario", "generated")}


# ---------------------------------------------------------------------------------------------------
# episode schedules: generated folders, independent composition, replay
# ---------------------------------------------------------------------------------------------------
def compose(base_text: str, var_texts: List[str]) -> Dict[str, Any]:
    """The documented composition (docs/source/varying_config_files.rst): the variation files define YAML anchors,
    the base scenario refers to them through aliases; a placeholder in the agent list may hold a list of agents."""
    cfg = yaml.safe_load("\n".join(list(var_texts) + [base_text]))
    agents = []
    for a in cfg.get("agents", []):
        agents.extend(a) if isinstance(a, list) else agents.append(a)
    cfg["agents"] = agents
    return cfg


def _blue_agent() -> Dict[str, Any]:
    acts = [
        ("node-shutdown", {"node_name": "a"}), ("node-startup", {"node_name": "a"}),
        ("node-shutdown", {"node_name": "s"}), ("node-startup", {"node_name": "s"}),
        ("node-service-stop", {"node_name": "a", "service_name": "ntp-client"}),
        ("node-service-start", {"node_name": "a", "service_name": "ntp-client"}),
        ("node-service-stop", {"node_name": "s", "service_name": "ntp-server"}),
        ("node-service-start", {"node_name": "s", "service_name": "ntp-server"}),
        ("router-acl-add-rule", {"target_router": "r", "position": 0, "permission": "DENY", "src_ip": "ALL", "dst_ip": "ALL",
                                 "src_port": "NTP", "dst_port": "NTP", "protocol_name": "UDP", "src_wildcard": "NONE",
                                 "dst_wildcard": "NONE"}),
        ("router-acl-remove-rule", {"target_router": "r", "position": 0}),
    ]
    comps = [{"type": "nodes", "label": "NODES", "options": {
        "routers": [], "hosts": [{"hostname": "a", "services": [{"service_name": "ntp-client"}]},
                                 {"hostname": "s", "services": [{"service_name": "ntp-server"}]}],
        "num_services": 1, "num_applications": 1, "num_folders": 1, "num_files": 1, "num_nics": 1,
        "include_num_access": False, "include_nmne": False}}]
    return scenarios.proxy_agent(scenarios.action_map_from(acts), masking=False, components=comps)


GREEN = {"ref": "green_A", "team": "GREEN", "type": "probabilistic-agent",
         "agent_settings": {"action_probabilities": {0: 1.0}},
         "action_space": {"action_map": {0: {"action": "do-nothing", "options": {}}}},
         "reward_function": {"reward_components": [{"type": "dummy"}]}}

VARIATIONS = {
    "greens_0.yaml": "# no green agent\ngreens: &greens []\n",
    "greens_1.yaml": "greens: &greens\n" + "".join("  " + ln + "\n" for ln in yaml.safe_dump([GREEN], sort_keys=False).splitlines()),
    "ntp_on.yaml": ("srv_services: &srv_services\n  - type: ntp-server\n"
                    "a_services: &a_services\n  - type: ntp-client\n    options:\n      ntp_server_ip: 192.168.2.2\n"),
    "ntp_off.yaml": "srv_services: &srv_services []\na_services: &a_services []\n",
}
LISTS = {
    2: [["greens_0.yaml", "ntp_on.yaml"], ["greens_1.yaml", "ntp_off.yaml"]],
    # entries 0 and 2 list the same combination of files
    3: [["greens_0.yaml", "ntp_on.yaml"], ["greens_1.yaml", "ntp_off.yaml"], ["greens_0.yaml", "ntp_on.yaml"]],
}


def base_text() -> str:
    cfg = ntp_cfg(False, dur=1)
    for nd in cfg["simulation"]["network"]["nodes"]:
        if nd["hostname"] == "a":
            nd["services"] = "__ALIAS_a_services__"
        if nd["hostname"] == "s":
            nd["services"] = "__ALIAS_srv_services__"
    cfg["agents"] = ["__ALIAS_greens__", _blue_agent()]
    cfg["game"]["max_episode_length"] = 64
    txt = yaml.safe_dump(cfg, sort_keys=False)
    for name in ("a_services", "srv_services", "greens"):
        for q in ("'", '"', ""):
            txt = txt.replace(f"{q}__ALIAS_{name}__{q}", f"*{name}")
    return txt


def ref_of(cfgs: List[Dict[str, Any]]) -> Dict[str, Any]:
    """Digests of the reference configurations and signatures of the games built from (copies of) them."""
    from primaite.game.game import PrimaiteGame

    ref = [digest(c) for c in cfgs]
    memo: Dict[str, str] = {}
    gref = []
    for c, d in zip(cfgs, ref):
        if d not in memo:
            memo[d] = game_sig(PrimaiteGame.from_config(copy.deepcopy(c)))
        gref.append(memo[d])
    return {"ref": ref, "gref": gref}


def make_schedule(kind: str, n: int, tag: str, form: str = "dir") -> Dict[str, Any]:
    """A generated schedule: kind 'list' -> a folder with schedule.yaml; kind 'const' -> a dict or a single file."""
    root = SCRATCH / f"sched_{os.getpid()}_{tag}"
    shutil.rmtree(root, ignore_errors=True)
    root.mkdir(parents=True)
    bt = base_text()
    if kind == "const":
        cfg = compose(bt, [VARIATIONS["greens_1.yaml"], VARIATIONS["ntp_on.yaml"]])
        facts = ref_of([cfg])
        if form == "file":
            (root / "scenario.yaml").write_text(yaml.safe_dump(cfg, sort_keys=False))
            env_config: Any = root / "scenario.yaml"
            facts = ref_of([yaml.safe_load((root / "scenario.yaml").read_text())])
        else:
            env_config = copy.deepcopy(cfg)
        return {"kind": "const", "n": 1, "env_config": env_config, "files": [[]], "root": root, **facts}
    files = LISTS[n]
    (root / "base.yaml").write_text(bt)
    for f in sorted({f for e in files for f in e}):
        (root / f).write_text(VARIATIONS[f])
    (root / "schedule.yaml").write_text(yaml.safe_dump({"base_scenario": "base.yaml", "schedule": {i: e for i, e in enumerate(files)}}))
    cfgs = [compose(bt, [VARIATIONS[f] for f in e]) for e in files]
    return {"kind": "list", "n": n, "env_config": root, "files": files, "root": root, **ref_of(cfgs)}


def shipped_schedule(path: Path) -> Dict[str, Any]:
    """Reference facts of a shipped schedule folder / scenario file, composed independently of the scheduler."""
    if path.is_file():
        return {"kind": "const", "n": 1, "env_config": path, "files": [[]], **ref_of([yaml.safe_load(path.read_text())])}
    sch = yaml.safe_load((path / "schedule.yaml").read_text())
    bt = (path / sch["base_scenario"]).read_text()
    files = [list(sch["schedule"][i]) for i in sorted(sch["schedule"])]
    cfgs = [compose(bt, [(path / f).read_text() for f in e]) for e in files]
    return {"kind": "list", "n": len(files), "env_config": path, "files": files, **ref_of(cfgs)}


def sched_actions_of(beh) -> List[List[Any]]:
    out = []
    for st in beh[1:]:
        p = [x.strip().strip('"') for x in st["params"].split(",")] if st["params"] else []
        a = st["action"]
        if a == "MCall":
            out.append(["call", int(p[0])])
        elif a == "MResetCall":
            out.append(["reset"])
        elif a == "MStep":
            out.append(["step"])
        elif a == "MMutate":
            out.append(["mutate", int(p[0])])
    return out


def spoil(obj: Any) -> None:
    """What an owner may do to the configuration it was handed: change it in depth."""
    if isinstance(obj, dict):
        for v in list(obj.values()):
            spoil(v)
        for k in list(obj.keys())[1::2]:
            obj.pop(k)
        obj["__spoilt__"] = True
    elif isinstance(obj, list):
        for v in obj:
            spoil(v)
        obj.append("__spoilt__")


def run_sched(spec: Dict[str, Any], actions: List[List[Any]], meta: Dict[str, Any], rng: random.Random,
              follow_ntp: bool = True, router: Optional[str] = "r", prepare=None, allowed=None) -> Dict[str, Any]:
    """One environment over the schedule `spec`, driven by `actions` (call k / reset / step / mutate i)."""
    from primaite.session.environment import PrimaiteGymEnv

    REC.start_sched({"kind": spec["kind"], "n": spec["n"], "ref": spec["ref"], "gref": spec["gref"]},
                    dict(meta, files=spec["files"]))
    tr = REC.sched
    tr["stimulus"] = {"kind": spec["kind"], "n": spec["n"], "files": spec["files"], "actions": actions,
                      "env_config": str(spec["env_config"]) if not isinstance(spec["env_config"], dict) else "(dict)"}
    REC.follow_env, REC.env_meta, REC.env_router = follow_ntp, dict(meta, via="env"), router
    env = None

    def guarded(fn):
        """Run a call into repository code; an exception out of it is an event (Raised), recorded once."""
        try:
            return fn(), True
        except Exception as ex:  # noqa
            if not tr["ev"] or tr["ev"][-1]["ev"] != "Raised":
                tr["ev"].append(E("Raised", what=type(ex).__name__))
            return None, False

    try:
        def prep():
            # Python-API set-up of the fresh game (e.g. installing an NTP server), then the NTP trace starts over
            if prepare is not None and env is not None:
                REC.ntp = None  # what the set-up does is not part of any trace
                prepare(env)
                REC.attach(env.game, dict(REC.env_meta, episode=int(env.episode_counter)), router=router)

        env, ok = guarded(lambda: PrimaiteGymEnv(env_config=spec["env_config"]))
        if ok:
            prep()
        for act in actions:
            if not ok:
                break
            if act[0] == "call":
                _, ok = guarded(lambda: env.episode_scheduler(act[1]))
            elif act[0] == "reset":
                _, ok = guarded(lambda: env.reset())
                if ok:
                    prep()
            elif act[0] == "step":
                for _ in range(act[1] if len(act) > 1 else 1):
                    a = rng.choice(allowed(env)) if allowed is not None else rng.randrange(int(env.action_space.n))
                    _, ok = guarded(lambda: env.step(a))
                    if not ok:
                        break
            elif act[0] == "mutate":
                idxs = range(1, len(REC.handed) + 1) if act[1] == "old" else [act[1]]
                for i in idxs:
                    # the configuration of the running episode may be referred to by live game objects: leave it alone
                    if i == REC.build_idx or not (1 <= i <= len(REC.handed)) or "__spoilt__" in REC.handed[i - 1]:
                        continue
                    spoil(REC.handed[i - 1])
                    tr["ev"].append(E("Mutate", i=i, b=digest(REC.handed[i - 1]) != REC.handed_dig[i - 1]))
    finally:
        REC.detach()
        REC.follow_env = False
        if env is not None:
            try:
                env.close()
            except Exception:  # noqa
                pass
    return REC.stop_sched()


def dm_with_ntp(env) -> None:
    """data_manipulation.yaml: an NTP server is installed on the domain controller and the clients of the other
    servers of its subnet (one switch, no router in between) are configured to it, through the Python API."""
    from ipaddress import IPv4Address

    from primaite.simulator.system.services.ntp.ntp_server import NTPServer

    net = env.game.simulation.network
    dc = net.get_node_by_hostname("domain_controller")
    dc.software_manager.install(NTPServer)
    for h in ("web_server", "database_server", "backup_server"):
        net.get_node_by_hostname(h).software_manager.software["ntp-client"].configure(IPv4Address("192.168.1.10"))


def no_nic_actions(env) -> List[int]:
    """Action numbers of the blue agent except those switching NICs (link state is not part of the NTP model)."""
    am = env.agent.action_manager.action_map
    return [i for i, (name, _opts) in am.items() if not str(name).startswith("host-nic")]


def sched_directed(n: int) -> List[List[Any]]:
    """Run past the end of the schedule twice, every episode consuming and then spoiling what it was handed."""
    seq: List[List[Any]] = []
    for _ in range(2 * n + 1):
        seq += [["step", 3], ["reset"], ["mutate", "old"]]
    seq += [["call", 0], ["call", n], ["call", 2 * n + 1], ["mutate", "old"], ["reset"], ["step", 2]]
    return seq


# ---------------------------------------------------------------------------------------------------
def main(tier: str, seed: int) -> int:
    chk = common.Check(PROP, "model_checking", tier, seed)
    quick = tier == "quick"
    rng = random.Random(seed)
    SCRATCH.mkdir(exist_ok=True)
    import time as _time

    timing: Dict[str, float] = {}
    t_last = [_time.time()]

    def lap(name):
        now = _time.time()
        timing[name] = round(timing.get(name, 0) + now - t_last[0], 1)
        t_last[0] = now

    # (a) exhaustive model + the two negative configurations, (b) behaviours: five independent TLC runs, started
    # together while primaite is imported
    from concurrent.futures import ThreadPoolExecutor

    n_ntp, d_ntp, n_sch, d_sch = (36, 70, 9, 18) if quick else (1000, 120, 120, 24)
    negatives = (("MC_NtpScheduleAsCoded.cfg", "ServerAnswersOnlyRequests"), ("MC_NtpScheduleShallow.cfg", "HandOverFresh"))
    with ThreadPoolExecutor(max_workers=5) as pool:
        f_mc = pool.submit(tlc.mc, "MC_NtpSchedule", cfg="MC_NtpSchedule.cfg" if quick else "MC_NtpScheduleDeep.cfg")
        f_neg = [pool.submit(tlc.mc, "MC_NtpSchedule", cfg=c, coverage=False, workers=4) for c, _ in negatives]
        f_sn = pool.submit(tlc.simulate, "MC_NtpSchedule", cfg="MC_NtpScheduleSimNtp.cfg", num=n_ntp, depth=d_ntp, seed=seed + 1)
        f_ss = pool.submit(tlc.simulate, "MC_NtpSchedule", cfg="MC_NtpScheduleSimSched.cfg", num=n_sch, depth=d_sch, seed=seed + 2)
        common.boot()
        REC.install()
        lap("boot")
        r = f_mc.result()
        rneg = [f.result() for f in f_neg]
        behs_n, info_n = f_sn.result()
        behs_s, info_s = f_ss.result()
    if not r["ok"]:
        chk.violation({"module": "MC_NtpSchedule", "clause": str(r["violation"])}, {"tlc": r["output_tail"]})
    chk.add_mc("MC_NtpSchedule(ntp: a,p,s + ACL, clock %d; sched: const/list2/list3)" % (2 if quick else 3), r)
    for act in MC_ACTIONS_NTP + MC_ACTIONS_SCHED:
        if r["coverage"].get(act, (0, 0))[1] == 0:
            raise tlc.TLCError(f"vacuous model: action {act} never taken")
    for (cfg, want), rn in zip(negatives, rneg):
        if rn["ok"] or not rn["violation"] or rn["violation"][1] != want:
            raise tlc.TLCError(f"negative configuration {cfg} was not refuted with {want}: {rn['violation']}")
        chk.cov.setdefault("negative_models_refuted", {})[cfg] = f"{rn['violation'][0]} {want}"
    chk.cov["transitions"] += info_n["states"] + info_s["states"]
    traces: List[Dict[str, Any]] = []
    lap("tlc_mc_and_simulate")

    # (c) ntp replays
    for j, beh in enumerate(behs_n):
        p_srv = bool(beh[0]["state"]["hasSrv"]["p"])
        acts = ntp_actions_of(beh)
        fam = "sim"
        if p_srv and j % 2:
            # keep away from the trigger of the divergence found on the unchanged tree (a reply delivered to a node
            # whose server owns UDP/123), so that it does not mask the rest of that configuration's behaviour
            acts = [a for a in acts if not (a[0] == "configure" and a[1] == "p" and a[2] == "s")]
            fam = "sim-avoiding-colocation"
        traces.append(run_ntp(p_srv, acts, {"family": fam}))
        chk.add_case({"p_srv": p_srv, "acts": acts})
    for seq in ntp_directed():
        for p_srv in (False, True):
            acts = [a for a in seq if not (p_srv and a[0] == "configure" and a[1] == "p" and a[2] == "s")]
            traces.append(run_ntp(p_srv, acts, {"family": "directed"}))
            chk.add_case({"p_srv": p_srv, "acts": acts})
    # the co-located configuration, on purpose and once
    traces.append(run_ntp(True, [["tick"], ["configure", "p", "s"], ["tick"], ["tick"]], {"family": "colocated"}))

    lap("replay_ntp")
    # (c) schedule replays
    forms = ["dict", "file"]
    for j, beh in enumerate(behs_s):
        st0 = beh[0]["state"]
        kind, n = st0["kind"], int(st0["n"])
        spec = make_schedule(kind, n, f"sim{j}", form=forms[j % 2])
        acts = sched_actions_of(beh)
        traces.append(run_sched(spec, acts, {"family": "sim", "form": forms[j % 2] if kind == "const" else "dir"}, rng))
        chk.add_case({"kind": kind, "n": n, "acts": acts})
        shutil.rmtree(spec["root"], ignore_errors=True)
    for kind, n, form in (("list", 2, "dir"), ("list", 3, "dir"), ("const", 1, "dict"), ("const", 1, "file")):
        spec = make_schedule(kind, n, f"dir{kind}{n}{form}", form=form)
        traces.append(run_sched(spec, sched_directed(n), {"family": "directed", "form": form}, rng))
        chk.add_case({"kind": kind, "n": n, "form": form, "directed": True})
        shutil.rmtree(spec["root"], ignore_errors=True)

    lap("replay_sched")
    # (e) scenario scale: shipped schedule folders and shipped scenarios through PrimaiteGymEnv, random actions,
    # past the wrap-around; projected onto both components
    shipped = [("scenario_with_placeholders", 6, 6), ("mini_scenario_with_simulation_variation", 5, 6), ("data_manipulation.yaml", 2, 40)]
    if not quick:
        shipped += [("uc7_multiple_attack_variants", 22, 8), ("uc7_config.yaml", 2, 40), ("data_manipulation.yaml", 4, 120)]
    def episodes(resets, steps):
        acts: List[List[Any]] = []
        for _ in range(resets):
            acts += [["step", steps], ["reset"], ["mutate", "old"]]
        return acts + [["step", steps]]

    for name, resets, steps in shipped:
        spec = shipped_schedule(scenarios.PKG / name)
        traces.append(run_sched(spec, episodes(resets, steps), {"family": "shipped", "scenario": name}, rng, router=None))
        chk.add_case({"shipped": name, "resets": resets, "steps": steps})
    # a shipped scenario in which NTP traffic really flows
    spec = shipped_schedule(scenarios.PKG / "data_manipulation.yaml")
    resets, steps = (1, 50) if quick else (6, 128)
    traces.append(run_sched(spec, episodes(resets, steps), {"family": "shipped+ntp-server", "scenario": "data_manipulation.yaml"},
                            rng, router=None, prepare=dm_with_ntp, allowed=no_nic_actions))
    chk.add_case({"shipped": "data_manipulation.yaml+ntp", "resets": resets, "steps": steps})
    traces += REC.done_ntp
    REC.done_ntp = []
    for t in traces:
        t.pop("_blocked", None)

    traces = [t for t in traces if t["ev"]]
    lap("scenario_scale")
    # (d) TLC judges
    res = tlc.validate("NtpScheduleTrace", traces, chunk=150)
    lap("validate")
    # the binding self-test corrupts the directed traces (both components; one JVM per corrupted trace)
    pick = [i for i, t in enumerate(traces) if t["meta"].get("family") == "directed" and t["meta"].get("via") != "env"]
    rest = [i for i in range(len(traces)) if i not in set(pick)]
    for idx, st in ((pick, "NtpScheduleTrace"), (rest, None)):
        sub = {"results": [res["results"][i] for i in idx], "stuck": [res["stuck"][i] for i in idx],
               "states": res["states"] if st else 0, "distinct": res["distinct"] if st else 0}
        common.judge_traces(chk, "NtpSchedule", [traces[i] for i in idx], sub, sig_fn, selftest=st)
    lap("binding_selftest")
    chk.cov["timing_s"] = timing

    # vacuity: every spec action was exercised in the real code, in accepted prefixes
    seen = chk.cov.get("impl_events", {})
    missing = [e for e in NTP_EVENTS + SCHED_EVENTS if seen.get(e, 0) == 0]
    if missing:
        raise RuntimeError(f"vacuous binding: no accepted event of {missing}")
    accepted = sum(1 for (reached, length) in res["results"] if reached == length + 1)
    if accepted == 0:
        raise RuntimeError("vacuous binding: no trace accepted")
    by: Dict[str, List[int]] = {}
    for t, (reached, length) in zip(traces, res["results"]):
        key = f"{t['meta'].get('comp')}/{t['meta'].get('family')}" + ("/env" if t["meta"].get("via") == "env" else "")
        a = by.setdefault(key, [0, 0, 0])
        a[0] += int(reached == length + 1)
        a[1] += 1
        a[2] += length
    chk.cov["accepted_total_events_by_family"] = {k: {"accepted": v[0], "traces": v[1], "events": v[2]} for k, v in sorted(by.items())}
    chk.cov["behaviours"] = {"ntp": len(behs_n), "sched": len(behs_s)}
    for t in traces:
        if t["meta"].get("family") in ("directed", "shipped") and len(chk.cov["samples"]) < 4:
            chk.sample({"cfg": t["cfg"], "meta": t["meta"], "events": [{k: v for k, v in e.items() if v not in (0, "", False, [])} for e in t["ev"][:8]]})
    chk.assumptions += [
        "the server's clock is the environment of the NTP component: ntp_server.datetime is replaced in the harness process by a "
        "clock whose readings are 1, 2, 3 ... seconds after a base time (times are logged as these serials, None as 0)",
        "node power, service operating states and the router ACL are the environment of the NTP component: SetNode / SetSvc / "
        "SetBlock events report every change the real objects make (tracer.watch on operating_state, ACL add/remove), "
        "whatever caused it (requests, agent actions, power cycles, boot completion inside a tick)",
        "a message counts as sent when it is handed to SessionManager.receive_payload_from_software_manager and as received when "
        "NTPServer.receive is entered / NTPClient.receive returns; 'blocked' = the first ACL rule of the router that speaks about "
        "UDP/123 without addresses denies (the generated networks route everything through one router)",
        "in the shipped scenarios no NTP server is configured: the projection checks that no client asks, is answered or changes "
        "its time, and that nothing raises; NIC / link state is not modelled (no generated action touches it)",
        "reference configurations of a schedule are composed by the harness from the files the schedule lists (YAML anchors / "
        "aliases as documented) and compared by digest; the game signature (agents, software per node, NTP targets) is read from "
        "a game the harness builds from the reference and from the environment's game",
        "S7 (spaces agree) is not stated by any docstring of episode_schedule.py in the pinned tree; it is the gymnasium contract, "
        "checked for the schedules run",
    ]
    return chk.finish()
