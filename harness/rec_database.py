"""Scenario, world and recorder for Database.tla (C17).

The network: two client hosts ``c1``/``c2`` (database-client), the database server ``db``
(database-service + ftp-client), the backup host ``bk`` (ftp-server), every host on its own port of the
router ``r`` so that an ACL rule can block exactly one path.  Node power durations are 0.

One event per spec action is emitted at the return of the real call with the arguments, the result and
the post-state projected from the objects:

* wrappers (installed once per process, ``install()``) on ``DatabaseClient.get_new_connection`` (Connect),
  ``DatabaseClient._query`` outermost call (Query), ``DatabaseClient._disconnect`` (Disconnect),
  ``DatabaseService.backup_database`` / ``restore_backup`` (Backup / Restore) - so connections, queries
  and transfers made *inside* other calls (application ``execute`` requests, the red applications, the
  backup of tick 1, the restore at the end of a fix) are events too;
* ``DatabaseService._process_connect`` / ``_process_sql`` are only observed (status answered / "the
  service ran the query");
* the driver (``World`` methods) emits SvcReq, Power, Block, BlockBk, Tick, FsOp, ClientUninstall, Raised.

Connection ids are canonicalised: the i-th uuid ever seen in the service's connection table or in a
client's handles is i; an id never seen is 0 (forged).
"""
from __future__ import annotations

from typing import Any, Dict, List, Optional

from . import scenarios, tracer

IP = {"c1": "192.168.1.2", "c2": "192.168.2.2", "db": "192.168.3.2", "bk": "192.168.4.2"}
CLIENTS = ("c1", "c2")
ACL_POS = {"c1": 1, "c2": 2, "bk_fwd": 3, "bk_rev": 4}
SVC = "database-service"
APP = "database-client"
SQL_CAT = {"SELECT": "SELECT", "INSERT": "INSERT", "DELETE": "DELETE", "ENCRYPT": "ENCRYPT"}


def sym(pw: Optional[str]) -> str:
    """Projection of a password: None (no password) is "none"."""
    return "none" if pw is None else str(pw)


def net_cfg(db_password: Optional[str], fixing_duration: int = 1, bots: bool = False,
            bandwidth: float = 100000.0) -> Dict[str, Any]:
    """Scenario dict (fed to PrimaiteGame.from_config like a YAML file).  The links are wide so that
    several 5 MB transfers fit in one tick (link saturation is C18's subject, not C17's)."""
    S = scenarios
    svc_opts: Dict[str, Any] = {"backup_server_ip": IP["bk"], "fixing_duration": fixing_duration}
    if db_password is not None:
        svc_opts["db_password"] = db_password

    def client(name: str, gw: str) -> Dict[str, Any]:
        o: Dict[str, Any] = {"db_server_ip": IP["db"]}
        if db_password is not None:
            o["server_password"] = db_password
        apps = [{"type": APP, "options": o}]
        if bots:
            b: Dict[str, Any] = {"server_ip": IP["db"]}
            if db_password is not None:
                b["server_password"] = db_password
            apps.append({"type": "data-manipulation-bot",
                         "options": {**b, "payload": "DELETE", "port_scan_p_of_success": 1.0,
                                     "data_manipulation_p_of_success": 1.0}})
            apps.append({"type": "ransomware-script", "options": {**b, "payload": "ENCRYPT"}})
        return S.host(name, IP[name], "computer", gw=gw, applications=apps)

    nodes = [
        client("c1", "192.168.1.1"),
        client("c2", "192.168.2.1"),
        S.host("db", IP["db"], "server", gw="192.168.3.1",
               services=[{"type": SVC, "options": svc_opts}, {"type": "ftp-client"}]),
        S.host("bk", IP["bk"], "server", gw="192.168.4.1", services=[{"type": "ftp-server"}]),
        {"hostname": "r", "type": "router", "num_ports": 5,
         "ports": {i: {"ip_address": f"192.168.{i}.1", "subnet_mask": "255.255.255.0"} for i in (1, 2, 3, 4)},
         "acl": {20: {"action": "PERMIT"}}},
    ]
    for nd in nodes:
        nd["start_up_duration"] = 0
        nd["shut_down_duration"] = 0
    links = [S.link("c1", 1, "r", 1, bandwidth), S.link("c2", 1, "r", 2, bandwidth),
             S.link("db", 1, "r", 3, bandwidth), S.link("bk", 1, "r", 4, bandwidth)]
    return S.base_cfg(nodes, links)


_CUR: List[Optional["World"]] = [None]


class World:
    """One real network + the trace recorded on it."""

    def __init__(self, db_password: Optional[str], cap: int, fixing_duration: int = 1, restart_duration: int = 0,
                 bots: bool = False, bk_block: str = "fwd", meta: Optional[Dict[str, Any]] = None):
        self.game = scenarios.build(net_cfg(db_password, fixing_duration, bots))
        self.sim = self.game.simulation
        net = self.sim.network
        self.node = {h: net.get_node_by_hostname(h) for h in ("c1", "c2", "db", "bk", "r")}
        self.db = self.node["db"].software_manager.software[SVC]
        self.db.max_sessions = cap
        self.db.restart_duration = restart_duration
        self.bots = bots
        self.bk_block = bk_block
        self.ids: Dict[str, int] = {}
        self.uuids: List[str] = []
        self.last_status = 0
        self.ran = False
        self.forged = 0
        self.ip2name = {v: k for k, v in IP.items()}
        _CUR[0] = self
        init = self.project()
        self.trace: Dict[str, Any] = {
            "cfg": {"pw": sym(self.db.password), "cap": int(cap), "clients": list(CLIENTS), "init": init},
            "ev": [],
            "meta": dict(meta or {}, bk_block=bk_block, bots=bots, fixing_duration=fixing_duration,
                         restart_duration=restart_duration),
            "stimulus": {"db_password": db_password, "cap": cap, "fixing_duration": fixing_duration,
                         "restart_duration": restart_duration, "bots": bots, "bk_block": bk_block, "ops": []},
        }

    # ------------------------------------------------------------------ identities
    def app(self, c: str):
        return self.node[c].software_manager.software.get(APP)

    def client_of(self, app) -> Optional[str]:
        for c in CLIENTS:
            if self.app(c) is app:
                return c
        return None

    def canon(self, uuid: str) -> int:
        if uuid not in self.ids:
            self.uuids.append(uuid)
            self.ids[uuid] = len(self.uuids)
        return self.ids[uuid]

    def lookup(self, uuid: Any) -> int:
        return self.ids.get(uuid, 0) if isinstance(uuid, str) else 0

    def uuid_of(self, i: int) -> Optional[str]:
        return self.uuids[i - 1] if 1 <= i <= len(self.uuids) else None

    # ------------------------------------------------------------------ projection
    def project(self) -> Dict[str, Any]:
        svc = self.db
        table = svc.connections
        for u in table:
            self.canon(u)
        held = {}
        inst = []
        for c in CLIENTS:
            a = self.app(c)
            if a is not None:
                inst.append(c)
                held[c] = sorted(self.canon(u) for u in a.client_connections)
            else:
                held[c] = []
        pairs = sorted((self.ids[u], self.ip2name.get(str(d.get("ip_address")), "?")) for u, d in table.items())
        f = svc.db_file
        b = self.node["bk"].file_system.get_file(folder_name=str(svc.uuid), file_name="database.db")
        acl = self.node["r"].acl.acl
        return {
            "op": svc.operating_state.name,
            "health": svc.health_state_actual.name,
            "conns": [p[0] for p in pairs],
            "own": [p[1] for p in pairs],
            "held": held,
            "file": f.health_status.name if f is not None else "absent",
            "backup": b.health_status.name if b is not None else "none",
            "srvOn": self.node["db"].operating_state.name == "ON",
            "bkOn": self.node["bk"].operating_state.name == "ON",
            "reach": {c: acl[ACL_POS[c]] is None for c in CLIENTS},
            "bkPath": acl[ACL_POS["bk_fwd"]] is None and acl[ACL_POS["bk_rev"]] is None,
            "inst": inst,
        }

    def emit(self, ev: str, **kw):
        e = {"ev": ev, "c": "", "pwd": "", "id": 0, "q": "", "kind": "", "on": False, "ok": False, "ran": False,
             "status": 0}
        e.update(kw)
        e.update(self.project())
        self.trace["ev"].append(e)
        return e

    # ------------------------------------------------------------------ stimuli (driver level)
    def req(self, host: str, *tail) -> bool:
        r = self.sim.apply_request(["network", "node", host, *tail])
        return getattr(r, "status", None) == "success"

    def set_password(self, c: str, pwd: Optional[str]):
        """Through the application's configure request; no / empty password only by attribute
        (the request keeps the old value for a falsy one)."""
        a = self.app(c)
        if a is None or a.server_password == pwd:
            return
        if pwd:
            self.req(c, "application", APP, "configure", {"server_password": pwd})
        if a.server_password != pwd:
            a.server_password = pwd

    def connect(self, c: str, pwd: Optional[str], how: str) -> str:
        a = self.app(c)
        if a is None:
            return "skip"
        self.set_password(c, pwd)
        if how in ("native", "execute") and a.native_connection is not None:
            how = "new"
        if how == "native":
            a.connect()
        elif how == "execute":
            self.req(c, "application", APP, "execute")
        else:
            a.get_new_connection()
        return how

    def query(self, c: str, i: int, sql: str, how: str) -> str:
        a = self.app(c)
        if a is None:
            return "skip"
        uuid = self.uuid_of(i)
        if uuid is None:
            self.forged += 1
            uuid = f"00000000-0000-4000-8000-{self.forged:012d}"
        if how == "bot" and self.bots and sql in ("DELETE", "ENCRYPT"):
            self.req(c, "application", "data-manipulation-bot" if sql == "DELETE" else "ransomware-script", "execute")
            return "bot"
        conn = a.client_connections.get(uuid)
        if conn is not None and how != "raw":
            if a.native_connection is conn:
                a.query(sql)
                return "native"
            conn.query(sql)
            return "conn"
        a._query(sql, connection_id=uuid)  # noqa  the payload the client would send, with a closed/foreign/forged id
        return "raw"

    def disconnect(self, c: str, i: int) -> str:
        a = self.app(c)
        uuid = self.uuid_of(i)
        if a is None or uuid is None:
            return "skip"
        conn = a.client_connections.get(uuid)
        if conn is None:
            return "skip"
        if a.native_connection is conn:
            a.disconnect()
            return "native"
        conn.disconnect()
        return "conn"

    def uninstall(self, c: str) -> str:
        if self.app(c) is None:
            return "skip"
        ok = self.req(c, "software_manager", "application", "uninstall", APP)
        self.emit("ClientUninstall", c=c, ok=ok and self.app(c) is None)
        return "request"

    def svc(self, kind: str):
        ok = self.req("db", "service", SVC, kind)
        self.emit("SvcReq", kind=kind, ok=ok)

    def backup(self):
        self.db.backup_database()

    def restore(self):
        self.db.restore_backup()

    def power(self, node: str, on: bool):
        ok = self.req("db" if node == "srv" else "bk", "startup" if on else "shutdown")
        self.emit("Power", kind=node, on=bool(on), ok=ok)

    def _rule(self, pos: int, src: Optional[str], dst: Optional[str], add: bool) -> bool:
        if add:
            return self.req("r", "acl", "add_rule", "DENY", "ALL", src or "ALL", "NONE", "ALL", dst or "ALL", "NONE",
                            "ALL", pos)
        return self.req("r", "acl", "remove_rule", pos)

    def block(self, c: str, blocked: bool):
        self._rule(ACL_POS[c], IP[c], None, blocked)
        self.emit("Block", c=c, on=bool(blocked))

    def block_bk(self, blocked: bool):
        """fwd: the requests db -> bk are dropped; rev: what bk sends to db is dropped; both."""
        if blocked:
            if self.bk_block in ("fwd", "both"):
                self._rule(ACL_POS["bk_fwd"], IP["db"], IP["bk"], True)
            if self.bk_block in ("rev", "both"):
                self._rule(ACL_POS["bk_rev"], IP["bk"], IP["db"], True)
        else:
            acl = self.node["r"].acl.acl
            for k in ("bk_fwd", "bk_rev"):
                if acl[ACL_POS[k]] is not None:
                    self._rule(ACL_POS[k], None, None, False)
        self.emit("BlockBk", on=bool(blocked))

    def tick(self):
        self.game.pre_timestep()
        self.game.advance_timestep()
        self.emit("Tick")

    def fs(self, kind: str, how: str) -> str:
        if kind == "delete" and how == "folder":
            ok = self.req("db", "file_system", "delete", "folder", "database")
        elif kind == "delete":
            how = "file"
            ok = self.req("db", "file_system", "delete", "file", "database", "database.db")
        else:
            how = "file"
            ok = self.req("db", "file_system", "folder", "database", "file", "database.db", "repair")
        self.emit("FsOp", kind=kind, ok=ok)
        return how

    def raised(self, exc: BaseException):
        self.emit("Raised", kind=type(exc).__name__)
        self.trace["meta"]["exception"] = repr(exc)

    def close(self):
        if _CUR[0] is self:
            _CUR[0] = None
        return self.trace


def _world_of_client(app) -> Optional[World]:
    w = _CUR[0]
    if w is None or w.client_of(app) is None:
        return None
    return w


def _world_of_service(svc) -> Optional[World]:
    w = _CUR[0]
    return w if w is not None and w.db is svc else None


_installed = [False]


def install():
    """Install the wrappers (once per process; they act only on the objects of the current World)."""
    if _installed[0]:
        return
    _installed[0] = True
    from primaite.simulator.system.applications.database_client import DatabaseClient
    from primaite.simulator.system.services.database.database_service import DatabaseService

    def b_gnc(app, *a, **k):
        w = _world_of_client(app)
        if w is None:
            return None
        w.last_status = 0
        return (w, w.client_of(app), sym(app.server_password))

    def a_gnc(app, tok, ret, exc, *a, **k):
        if tok is None or exc is not None:
            return
        w, c, pwd = tok
        w.emit("Connect", c=c, pwd=pwd, ok=ret is not None, status=int(w.last_status))

    def a_pc(svc, tok, ret, exc, *a, **k):
        w = _world_of_service(svc)
        if w is not None and exc is None and isinstance(ret, dict):
            w.last_status = int(ret.get("status_code") or 0)

    def b_q(app, *a, **k):
        w = _world_of_client(app)
        if w is None:
            return None
        reattempt = k.get("is_reattempt", a[3] if len(a) > 3 else False)
        if reattempt:
            return None
        sql = k.get("sql", a[0] if len(a) > 0 else "")
        cid = k.get("connection_id", a[1] if len(a) > 1 else None)
        w.ran = False
        return (w, w.client_of(app), sql, cid)

    def a_q(app, tok, ret, exc, *a, **k):
        if tok is None or exc is not None:
            return
        w, c, sql, cid = tok
        w.emit("Query", c=c, id=w.lookup(cid), q=SQL_CAT.get(sql, "OTHER"), ran=bool(w.ran), ok=bool(ret))

    def b_ps(svc, *a, **k):
        w = _world_of_service(svc)
        if w is not None:
            w.ran = True

    def b_d(app, *a, **k):
        w = _world_of_client(app)
        if w is None:
            return None
        cid = k.get("connection_id", a[0] if a else None)
        return (w, w.client_of(app), w.lookup(cid))

    def a_d(app, tok, ret, exc, *a, **k):
        if tok is None or exc is not None:
            return
        w, c, i = tok
        w.emit("Disconnect", c=c, id=i, ok=bool(ret))

    def a_bk(svc, tok, ret, exc, *a, **k):
        w = _world_of_service(svc)
        if w is not None and exc is None:
            w.emit("Backup", ok=bool(ret))

    def a_rs(svc, tok, ret, exc, *a, **k):
        w = _world_of_service(svc)
        if w is not None and exc is None:
            w.emit("Restore", ok=bool(ret))

    tracer.wrap(DatabaseClient, "get_new_connection", before=b_gnc, after=a_gnc)
    tracer.wrap(DatabaseService, "_process_connect", after=a_pc)
    tracer.wrap(DatabaseClient, "_query", before=b_q, after=a_q)
    tracer.wrap(DatabaseService, "_process_sql", before=b_ps)
    tracer.wrap(DatabaseClient, "_disconnect", before=b_d, after=a_d)
    tracer.wrap(DatabaseService, "backup_database", after=a_bk)
    tracer.wrap(DatabaseService, "restore_backup", after=a_rs)
