"""Recorder and scenario builders for Forwarding.tla / Routes.tla (C08).

* ``embed`` / ``real_plen``: the prefix-preserving embedding of the models' 8-bit addresses into IPv4
  (prefix lengths 0/2/4/6/8 -> /0 /8 /24 /30 /32; every pair of model bits is one injectively coded
  field of the real address).
* ``cfg_from_topo``: a PrimAITE scenario dict for a topology value of MC_Forwarding (as parsed from a
  TLC behaviour); ``Scene``: the topology *read back from the built objects* in the encoding of
  ForwardingTrace (address = IPv4 mod 2^30, prefix length - 2).
* ``FwdRecorder``: wrappers on the frame-level methods; one trace per Frame object (routers and
  switches pass the same object on), events in call order.
"""
from __future__ import annotations

import copy
from ipaddress import IPv4Address, IPv4Network
from typing import Any, Dict, List, Optional, Tuple

from . import scenarios, tracer

BCAST = "ff:ff:ff:ff:ff:ff"
MOD = 1 << 30

# ---------------------------------------------------------------------------------------
# embedding of 8-bit model addresses
# ---------------------------------------------------------------------------------------
F8 = [10, 20, 33, 44]  # first octet (< 64: the top two IPv4 bits are 0, so  ip mod 2^30 = ip)
F16 = [1, 4103, 43200, 60001]  # second + third octet
F6 = [1, 22, 41, 62]  # upper six bits of the last octet (never 0 / 63: no network or broadcast address)
REAL_PLEN = {0: 0, 2: 8, 4: 24, 6: 30, 8: 32}


def embed_int(a: int) -> int:
    b = [(a >> 6) & 3, (a >> 4) & 3, (a >> 2) & 3, a & 3]
    return (F8[b[0]] << 24) | (F16[b[1]] << 8) | (F6[b[2]] << 2) | b[3]


def embed(a: int) -> str:
    return str(IPv4Address(embed_int(a)))


def real_plen(p: int) -> int:
    return REAL_PLEN[p]


def mask_of(plen: int) -> str:
    return str(IPv4Network(f"0.0.0.0/{plen}").netmask)


def embed_net(net: int, plen: int) -> Tuple[str, str]:
    """Real (address, mask) of a model route net/plen.  A canonical model network address (host bits 0)
    becomes a canonical real one; host bits that are set stay set (non-strict network)."""
    rp = real_plen(plen)
    block = 1 << (8 - plen)
    v = embed_int(net)
    if net % block == 0:
        v &= (0xFFFFFFFF << (32 - rp)) & 0xFFFFFFFF if rp else 0
    return str(IPv4Address(v)), mask_of(rp)


def enc_addr(ip) -> int:
    """ForwardingTrace encoding of a real address."""
    return int(IPv4Address(str(ip))) % MOD


def enc_plen(plen: int) -> int:
    return max(0, int(plen) - 2)


# ---------------------------------------------------------------------------------------
# scenario from a model topology
# ---------------------------------------------------------------------------------------
PERMIT_ALL = {1: {"action": "PERMIT"}}
SERVER_SERVICES = [
    {"type": "dns-server", "options": {"domain_mapping": {}}},
    {"type": "web-server"},
    {"type": "ntp-server"},
    {"type": "database-service"},
    {"type": "ftp-server"},
]
CLIENT_SERVICES = [{"type": "ftp-client"}]
CLIENT_APPS = [{"type": "database-client", "options": {}}]


def _seq(v):
    return v if isinstance(v, list) else []


def cfg_from_topo(topo: List[Dict[str, Any]], clients=(), servers=()) -> Dict[str, Any]:
    """PrimAITE scenario dict for a topology of MC_Forwarding (list of node records); hosts named in ``servers`` get
    the server software, those in ``clients`` the client software that is not system software."""
    nodes, links = [], []
    members: Dict[Tuple[int, int], List[Tuple[str, int]]] = {}  # subnet -> [(hostname, port)]
    switches: Dict[Tuple[int, int], str] = {}
    for n in topo:
        ifs = _seq(n["ifs"])
        if n["kind"] == "switch":
            for f in ifs:  # (one entry per subnet the switch carries)
                switches[(f["addr"] >> (8 - f["plen"]), f["plen"])] = n["name"]
            nodes.append({"hostname": n["name"], "type": "switch", "num_ports": 8})
            continue
        for i, f in enumerate(ifs):
            members.setdefault((f["addr"] >> (8 - f["plen"]), f["plen"]), []).append((n["name"], i + 1))
        if n["kind"] == "host":
            f = ifs[0]
            h = scenarios.host(n["name"], embed(f["addr"]), "server", gw=embed(n["gw"]) if n["gw"] else None,
                               mask=mask_of(real_plen(f["plen"])))
            if n["name"] in servers:
                h["services"] = copy.deepcopy(SERVER_SERVICES)
            elif n["name"] in clients:
                h["services"] = copy.deepcopy(CLIENT_SERVICES)
                h["applications"] = copy.deepcopy(CLIENT_APPS)
            nodes.append(h)
        else:
            r = {
                "hostname": n["name"],
                "type": "router",
                "num_ports": max(2, len(ifs)),
                "ports": {i + 1: {"ip_address": embed(f["addr"]), "subnet_mask": mask_of(real_plen(f["plen"]))}
                          for i, f in enumerate(ifs)},
                "acl": copy.deepcopy(PERMIT_ALL),
            }
            routes = []
            for rt in _seq(n["routes"]):
                addr, mask = embed_net(rt["net"], rt["plen"])
                routes.append({"address": addr, "subnet_mask": mask, "next_hop_ip_address": embed(rt["hop"]),
                               "metric": rt["metric"]})
            if routes:
                r["routes"] = routes
            if n["dflt"]:
                r["default_route"] = {"next_hop_ip_address": embed(n["dflt"])}
            nodes.append(r)
    next_port: Dict[str, int] = {}
    for key, mem in members.items():
        sw = switches.get(key)
        if sw:
            for (h, p) in mem:
                next_port[sw] = next_port.get(sw, 0) + 1
                links.append(scenarios.link(h, p, sw, next_port[sw]))
        elif len(mem) == 2:
            links.append(scenarios.link(mem[0][0], mem[0][1], mem[1][0], mem[1][1]))
        elif len(mem) > 2:
            raise ValueError(f"subnet {key} has {len(mem)} stations and no switch")
    return scenarios.base_cfg(nodes, links)


def with_roles(cfg: Dict[str, Any], clients=(), servers=()) -> Dict[str, Any]:
    """A copy of a scenario dict in which the named hosts carry the client / server software."""
    cfg = copy.deepcopy(cfg)
    for n in cfg["simulation"]["network"]["nodes"]:
        if n.get("hostname") in servers:
            n["services"] = copy.deepcopy(SERVER_SERVICES)
        elif n.get("hostname") in clients:
            n["services"] = copy.deepcopy(CLIENT_SERVICES)
            n["applications"] = copy.deepcopy(CLIENT_APPS)
    return cfg


def expected_nodes(topo: List[Dict[str, Any]]) -> List[Dict[str, Any]]:
    """The model topology in ForwardingTrace encoding (to compare with what was read back)."""
    out = []
    for n in topo:
        if n["kind"] == "switch":
            out.append({"name": n["name"], "kind": "switch", "ifs": [], "gw": 0, "routes": [], "dflt": 0})
            continue
        rts = []
        for rt in _seq(n["routes"]):
            addr, mask = embed_net(rt["net"], rt["plen"])
            rts.append({"net": enc_addr(addr), "plen": enc_plen(real_plen(rt["plen"])), "hop": enc_addr(embed(rt["hop"])),
                        "metric": rt["metric"]})
        out.append({
            "name": n["name"], "kind": n["kind"],
            "ifs": [{"addr": enc_addr(embed(f["addr"])), "plen": enc_plen(real_plen(f["plen"]))} for f in _seq(n["ifs"])],
            "gw": enc_addr(embed(n["gw"])) if n["gw"] else 0,
            "routes": rts,
            "dflt": enc_addr(embed(n["dflt"])) if n["dflt"] else 0,
        })
    return out


# ---------------------------------------------------------------------------------------
# the topology as the built objects have it
# ---------------------------------------------------------------------------------------
class Scene:
    """Topology of a built network in ForwardingTrace encoding + look-up tables for the recorder."""

    def __init__(self, network, order: Optional[List[str]] = None):
        from primaite.simulator.network.hardware.nodes.network.router import Router
        from primaite.simulator.network.hardware.nodes.network.switch import Switch

        self.network = network
        objs = list(network.nodes.values())
        if order:
            by = {n.config.hostname: n for n in objs}
            objs = [by[h] for h in order] + [n for n in objs if n.config.hostname not in order]
        self.nodes: List[Dict[str, Any]] = []
        self.index: Dict[int, int] = {}  # id(node object) -> 1-based index
        self.by_name: Dict[str, int] = {}
        self.obj: Dict[str, Any] = {}
        self.mac_addr: Dict[str, int] = {}  # MAC -> encoded address of the owning interface
        self.keep = objs
        seen_addr: Dict[int, str] = {}
        for i, n in enumerate(objs):
            name = n.config.hostname
            self.index[id(n)] = i + 1
            self.by_name[name] = i + 1
            self.obj[name] = n
            if isinstance(n, Switch):
                self.nodes.append({"name": name, "kind": "switch", "ifs": [], "gw": 0, "routes": [], "dflt": 0})
                continue
            ifs = []
            for port in sorted(n.network_interface):
                ni = n.network_interface[port]
                ip = getattr(ni, "ip_address", None)
                if ip is None or IPv4Address(str(ip)).is_loopback:
                    continue
                a = enc_addr(ip)
                real = str(ip)
                if seen_addr.get(a, real) != real:
                    raise RuntimeError(f"address encoding collision: {real} / {seen_addr[a]}")
                seen_addr[a] = real
                ifs.append({"addr": a, "plen": enc_plen(ni.ip_network.prefixlen)})
                self.mac_addr[ni.mac_address] = a
            if isinstance(n, Router):  # includes firewalls
                rts = []
                for rt in n.route_table.routes:
                    net = IPv4Network(f"{rt.address}/{rt.subnet_mask}", strict=False)
                    rts.append({"net": enc_addr(rt.address), "plen": enc_plen(net.prefixlen),
                                "hop": enc_addr(rt.next_hop_ip_address), "metric": int(rt.metric)})
                d = n.route_table.default_route
                self.nodes.append({"name": name, "kind": "router", "ifs": ifs, "gw": 0, "routes": rts,
                                   "dflt": enc_addr(d.next_hop_ip_address) if d else 0})
            else:
                gw = getattr(n.config, "default_gateway", None)
                self.nodes.append({"name": name, "kind": "host", "ifs": ifs, "gw": enc_addr(gw) if gw else 0,
                                   "routes": [], "dflt": 0})

    def cfg(self, mode: str) -> Dict[str, Any]:
        return {"mode": mode, "nodes": self.nodes}

    def node_of(self, obj) -> int:
        return self.index.get(id(obj), 0)

    def addr_of_node(self, name: str) -> int:
        return self.nodes[self.by_name[name] - 1]["ifs"][0]["addr"]

    def real_ip(self, name: str) -> str:
        n = self.obj[name]
        return str(n.network_interface[min(n.network_interface)].ip_address)


# ---------------------------------------------------------------------------------------
# recorder
# ---------------------------------------------------------------------------------------
def blank(ev: str, **kw) -> Dict[str, Any]:
    d = {"ev": ev, "node": 0, "dst": 0, "tb": 0, "ta": 0, "acc": False, "nh": 0, "kind": "", "src": 0, "saddr": 0,
         "ok": False, "perm": False, "n": 0}
    d.update(kw)
    return d


def frame_kind(frame) -> str:
    if frame.udp is not None and int(frame.udp.dst_port) == 219:
        return "arp"
    if frame.icmp is not None:
        return "icmp"
    if frame.tcp is not None:
        return f"tcp/{int(frame.tcp.dst_port)}"
    if frame.udp is not None:
        return f"udp/{int(frame.udp.dst_port)}"
    return "ip"


class FwdRecorder:
    """One trace per unicast Frame object, from its first send_frame, events in call order."""

    def __init__(self):
        self.scene: Optional[Scene] = None
        self.active = False
        self.traces: Dict[int, Dict[str, Any]] = {}
        self.order: List[int] = []
        self.keep: List[Any] = []
        self.ignored: Dict[int, Any] = {}
        self.open: Dict[int, List[Dict[str, Any]]] = {}  # frame -> IfaceRecv events whose ttl-after is not yet known
        self.installed = False
        self.max_events = 4000

    # -- helpers
    def _trace(self, frame) -> Optional[Dict[str, Any]]:
        return self.traces.get(id(frame)) if self.active else None

    def _fill_open(self, frame):
        for e in self.open.get(id(frame), []):
            if e["ta"] is None:
                e["ta"] = int(frame.ip.ttl)
                e["acc"] = True

    def install(self):
        if self.installed:
            return
        self.installed = True
        from primaite.simulator.network.hardware.nodes.host.host_node import HostNode, NIC
        from primaite.simulator.network.hardware.nodes.network.firewall import Firewall
        from primaite.simulator.network.hardware.nodes.network.router import Router, RouterInterface
        from primaite.simulator.network.hardware.nodes.network.switch import Switch, SwitchPort
        from primaite.simulator.network.hardware.nodes.network.wireless_router import WirelessAccessPoint
        from primaite.simulator.system.core.session_manager import SessionManager
        from primaite.simulator.system.core.software_manager import SoftwareManager

        rec = self

        # ---- send: Emit (first sighting) or Forward (a router passes a known frame on)
        def before_send(nic, frame):
            if not rec.active or frame.ip is None:
                return None
            key = id(frame)
            if key in rec.ignored:
                return None
            sc = rec.scene
            node = sc.node_of(nic._connected_node)
            mac = frame.ethernet.dst_mac_addr
            nh = sc.mac_addr.get(mac, 0) if isinstance(mac, str) else 0
            tr = rec.traces.get(key)
            if tr is None:
                if isinstance(mac, str) and mac.lower() == BCAST:
                    rec.ignored[key] = frame
                    return None
                tr = {"cfg": sc.cfg("frame"), "ev": [],
                      "meta": {"kind": frame_kind(frame), "src": str(frame.ip.src_ip_address), "dst": str(frame.ip.dst_ip_address),
                               "emitter": sc.nodes[node - 1]["name"] if node else "?"}}
                rec.traces[key] = tr
                rec.order.append(key)
                rec.keep.append(frame)
                e = blank("Emit", node=node, dst=enc_addr(frame.ip.dst_ip_address), ta=int(frame.ip.ttl), tb=int(frame.ip.ttl),
                          nh=nh, kind=frame_kind(frame), acc=True)
                tr["ev"].append(e)
                return e
            if len(tr["ev"]) >= rec.max_events:
                return None
            rec._fill_open(frame)
            e = blank("Forward", node=node, nh=nh, tb=int(frame.ip.ttl), ta=int(frame.ip.ttl), acc=True)
            tr["ev"].append(e)
            return e

        def after_send(nic, tok, ret, exc, frame):
            if tok is not None and tok["ev"] == "Forward" and exc is None:
                tok["acc"] = bool(ret)  # (an exception further down the delivery leaves "sent")

        # ---- an interface sees the frame
        def before_recv(nic, frame):
            tr = rec._trace(frame)
            if tr is None or frame.ip is None or len(tr["ev"]) >= rec.max_events:
                return None
            rec._fill_open(frame)
            e = blank("IfaceRecv", node=rec.scene.node_of(nic._connected_node), tb=int(frame.ip.ttl))
            e["ta"] = None
            tr["ev"].append(e)
            rec.open.setdefault(id(frame), []).append(e)
            return e

        def after_recv(nic, tok, ret, exc, frame):
            if tok is None:
                return
            if tok["ta"] is None:
                tok["ta"] = int(frame.ip.ttl)
                tok["acc"] = bool(ret) and exc is None
            lst = rec.open.get(id(frame))
            if lst and tok in lst:
                lst.remove(tok)

        # ---- the node takes the frame from its interface (ttl after the interface stage is known here)
        def before_node(node, frame, from_network_interface):
            tr = rec._trace(frame)
            if tr is None:
                return None
            rec._fill_open(frame)
            return (tr, len(tr["ev"]))

        def after_node(node, tok, ret, exc, frame, from_network_interface):
            if tok is None or exc is not None:
                return
            tr, pos = tok
            me = rec.scene.node_of(node)
            if any(e["node"] == me and e["ev"] in ("Local", "Forward") for e in tr["ev"][pos:]):
                return
            if len(tr["ev"]) < rec.max_events:
                tr["ev"].append(blank("Drop", node=me, tb=int(frame.ip.ttl), ta=int(frame.ip.ttl)))

        def before_switch(node, frame, from_network_interface):
            if rec._trace(frame) is not None:
                rec._fill_open(frame)

        def before_local(sm, frame, from_network_interface):
            tr = rec._trace(frame)
            if tr is not None and len(tr["ev"]) < rec.max_events:
                rec._fill_open(frame)
                tr["ev"].append(blank("Local", node=rec.scene.node_of(sm.node)))

        def before_deliver(swm, *a, **k):
            frame = k.get("frame") if "frame" in k else (a[5] if len(a) > 5 else None)
            if frame is None:
                return
            tr = rec._trace(frame)
            if tr is not None and len(tr["ev"]) < rec.max_events:
                tr["ev"].append(blank("Deliver", node=rec.scene.node_of(swm.node)))

        for cls in (NIC, RouterInterface, WirelessAccessPoint):
            tracer.wrap(cls, "send_frame", before=before_send, after=after_send)
        for cls in (NIC, RouterInterface, SwitchPort, WirelessAccessPoint):
            tracer.wrap(cls, "receive_frame", before=before_recv, after=after_recv)
        for cls in (HostNode, Router, Firewall):
            tracer.wrap(cls, "receive_frame", before=before_node, after=after_node)
        tracer.wrap(Switch, "receive_frame", before=before_switch)
        tracer.wrap(SessionManager, "receive_frame", before=before_local)
        tracer.wrap(SoftwareManager, "receive_payload_from_session_manager", before=before_deliver)

    # -- control
    def start(self, scene: Scene):
        self.scene = scene
        self.traces, self.order, self.keep, self.ignored, self.open = {}, [], [], {}, {}
        self.active = True

    def take(self, stimulus: Optional[Dict[str, Any]] = None) -> List[Dict[str, Any]]:
        out = []
        for k in self.order:
            tr = self.traces[k]
            for e in tr["ev"]:
                if e["ta"] is None:  # a receive that never returned (exception / alarm)
                    e["ta"] = e["tb"]
                    e["acc"] = False
            if stimulus is not None:
                tr["stimulus"] = stimulus
            out.append(tr)
        self.traces, self.order, self.keep, self.ignored, self.open = {}, [], [], {}, {}
        return out

    def stop(self):
        self.active = False
