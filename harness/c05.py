"""C05 - requests resolve to a documented status; refused requests change nothing.

Model: spec/Requests.tla (MC_Requests: every small manager tree x guard valuation x path incl. misspelt
keys; the observation of a resolution determines its outcome).  Binding: on live simulations (shipped
and generated scenarios, all node types) the harness walks the real manager tree for every request it
submits (independent dry run: which key was missing / which permission rule refused), submits the
request, digests the whole simulation before and after, and TLC validates every (observation, status,
digests) record against RequestsTrace.tla.  Requests = every registered agent action type crossed with
the live components, live-tree leaves with well-formed parameters, and mutations of the path elements.
"""
from __future__ import annotations

import copy
import random
from typing import Any, Dict, List

from . import common, scenarios, tlc
from . import rec_requests as rq

PROP = "C05"

# well-formed parameter lists for live-tree leaves that no agent action reaches
LEAF_PARAMS = {
    "compromise": [],
    "logon": [],
    "logoff": [],
    "scan": [],
    "remote_logout": ["no-such-session"],
}


def odd_names(cfg: Dict[str, Any]) -> Dict[str, Any]:
    """The same network with component names that are valid but unusual: a host called "101" (digits only), one with
    a dot and a dash, a switch whose name is a keyword of the request tree."""
    ren = {"a": "101", "b": "srv-1.lan", "sw": "node"}
    cfg = copy.deepcopy(cfg)
    for n in cfg["simulation"]["network"]["nodes"]:
        n["hostname"] = ren.get(n["hostname"], n["hostname"])
    for l in cfg["simulation"]["network"]["links"]:
        for k in ("endpoint_a_hostname", "endpoint_b_hostname"):
            l[k] = ren.get(l[k], l[k])
    return cfg


def scenario_list(tier: str):
    out = [
        ("data_manipulation", scenarios.shipped("data_manipulation.yaml")),
        ("firewalled_dmz", scenarios.firewalled(dmz=True)),
        ("wireless_wan", scenarios.test_asset("wireless_wan_network_config.yaml")),
        ("switched", scenarios.switched(3)),
        ("switched_odd_names", odd_names(scenarios.switched(3))),
    ]
    if tier == "thorough":
        out.append(("uc7", scenarios.shipped("uc7_config.yaml")))
        out.append(("multi_lan", scenarios.shipped("multi_lan_internet_network_example.yaml")))
        out.append(("basic_c2", scenarios.test_asset("basic_c2_setup.yaml")))
    return out


def explore(label: str, cfg: Dict[str, Any], budget: int, rng: random.Random, chk: common.Check) -> List[Dict[str, Any]]:
    game = scenarios.build(cfg)
    sim = game.simulation
    numbering = rq.DigestNumbering()
    events: List[Dict[str, Any]] = []
    meta: List[Dict[str, Any]] = []
    cur = numbering.num(rq.state_digest(sim))
    start_dig = cur
    done = 0
    rounds = 0
    kinds_seen = set()
    while done < budget:
        rounds += 1
        insts = rq.action_instances(game, rng, per_type=3)
        rng.shuffle(insts)
        batch = []
        for (aname, opts, exist) in insts:
            try:
                req = rq.form(aname, opts)
            except Exception as e:  # noqa - option schema rejected our instance: not a request
                continue
            batch.append((req, True, exist, aname, "wellformed"))
        # live-tree leaves not reached by actions
        paths = sim._request_manager.get_request_types_recursively()
        for p in rng.sample(paths, min(25, len(paths))):
            if p[-1] in LEAF_PARAMS:
                batch.append((list(p) + LEAF_PARAMS[p[-1]], False, False, "tree:" + str(p[-1]), "wellformed"))
        # every path of the live tree is a request by itself (no parameters after the last name): it is answered, whatever
        # its handler would have liked to find behind it (power requests left out: they would end the exploration)
        bare = [p for p in paths if str(p[-1]) not in ("shutdown", "reset", "startup")]
        for p in rng.sample(bare, min(30, len(bare))):
            batch.append((list(p), False, False, "bare:" + str(p[-1]), "bare"))
        # mutations of a sample of well-formed requests
        for (req, isact, exist, aname, _) in rng.sample(batch, min(30, len(batch))):
            obs, leaf = rq.dry_run(sim, req)
            depth = len(obs) if leaf else len(obs)
            muts = rq.mutations(req, depth, rng)
            for mname, m in rng.sample(muts, min(3, len(muts))):
                batch.append((m, False, False, aname, mname))
        rng.shuffle(batch)
        removed_on = set()  # nodes on which a component was removed since the instances were drawn: no existence claim
        for (req, isact, exist, aname, mut) in batch[: max(40, budget // 6)]:
            if len(req) > 2 and str(req[2]) in removed_on:
                exist = False
            obs, leaf = rq.dry_run(sim, req)
            gone = rq.addresses_absent(sim, req)
            pw = rq.documented_power_ok(sim, req)
            status, reason, raised = "", False, None
            try:
                resp = sim.apply_request(copy.deepcopy(req))
                status = getattr(resp, "status", None) or f"not-a-response:{type(resp).__name__}"
                data = getattr(resp, "data", None) or {}
                reason = bool(data.get("reason")) if isinstance(data, dict) else False
            except Exception as e:  # noqa - an exception out of repository code is an event no module allows
                status = f"raised:{type(e).__name__}"
                raised = repr(e)
            post = numbering.num(rq.state_digest(sim))
            events.append(rq.req_event(obs, leaf, True, status, reason, cur, post, "na", isact, exist, gone, pwok=pw))
            meta.append({"request": [str(x)[:60] for x in req], "kind": aname, "mutation": mut, "raised": raised})
            if len(req) > 2 and (any(str(x) in ("uninstall", "delete") for x in req[3:]) or aname in ("node-application-remove", "node-file-delete")):
                removed_on.add(str(req[2]))
            kinds_seen.add((aname, mut.split("@")[0]))
            chk.add_case({"s": label, "k": aname, "m": mut.split("@")[0], "o": [tuple(sorted(o.items())) for o in obs], "st": status},
                         nontrivial=True)
            cur = post
            done += 1
            if done % 25 == 0:
                try:
                    game.pre_timestep()
                    game.advance_timestep()
                except Exception as e:  # noqa - a tick that raises after these requests (e.g. an application that was
                    # installed on a switch and now runs): reported with the exception as signature, this history ends
                    chk.violation({"module": "Requests", "event": "Tick", "exc": repr(e)[:200]},
                                  {"scenario": label, "requests_before": meta[-25:], "exception": repr(e)})
                    done = budget
                    break
                cur = numbering.num(rq.state_digest(sim))
                events.append(rq.tick_event(cur))
                meta.append({"request": "tick"})
            if done >= budget:
                break
    # chunk into short traces so that one divergence shadows little
    traces = []
    CH = 8
    dig = start_dig
    for i in range(0, len(events), CH):
        evs = events[i : i + CH]
        traces.append({"cfg": {"dig": dig}, "ev": evs, "meta": {"scenario": label, "requests": meta[i : i + CH]}})
        for e in evs:
            if e["ev"] == "Tick" or e["exec"]:
                dig = e["post"]
    chk.cov.setdefault("request_kinds", {})[label] = len(kinds_seen)
    return traces


def explore_repeats(label: str, cfg: Dict[str, Any], rng: random.Random, chk: common.Check) -> List[Dict[str, Any]]:
    """Directed histories: for every leaf verb of the live request tree one well-formed instance is sent TWICE in a row
    (the second one finds the state the first one made: already compromised, already stopped, already scanned ...).  Both
    must be answered with a documented status."""
    game = scenarios.build(cfg)
    sim = game.simulation
    numbering = rq.DigestNumbering()
    paths = sim._request_manager.get_request_types_recursively()
    by_verb: Dict[str, List[Any]] = {}
    for p in paths:
        v = str(p[-1])
        if v in LEAF_PARAMS and v not in ("shutdown", "reset", "startup"):
            by_verb.setdefault(v, []).append(p)
    traces = []
    for v in sorted(by_verb):
        p = rng.choice(by_verb[v])
        req = list(p) + LEAF_PARAMS[v]
        cur = numbering.num(rq.state_digest(sim))
        dig0, events, meta = cur, [], []
        for rep in (1, 2):
            obs, leaf = rq.dry_run(sim, req)
            gone = rq.addresses_absent(sim, req)
            pw = rq.documented_power_ok(sim, req)
            status, reason, raised = "", False, None
            try:
                resp = sim.apply_request(copy.deepcopy(req))
                status = getattr(resp, "status", None) or f"not-a-response:{type(resp).__name__}"
                data = getattr(resp, "data", None) or {}
                reason = bool(data.get("reason")) if isinstance(data, dict) else False
            except Exception as e:  # noqa - an exception out of repository code is an event no module allows
                status = f"raised:{type(e).__name__}"
                raised = repr(e)
            post = numbering.num(rq.state_digest(sim))
            events.append(rq.req_event(obs, leaf, True, status, reason, cur, post, "na", False, False, gone, pwok=pw))
            meta.append({"request": [str(x)[:60] for x in req], "kind": "repeat:" + v, "mutation": f"sent #{rep}", "raised": raised})
            chk.add_case({"s": label, "k": "repeat:" + v, "n": rep, "st": status}, nontrivial=True)
            cur = post
        traces.append({"cfg": {"dig": dig0}, "ev": events, "meta": {"scenario": label, "requests": meta}})
    return traces


def explore_after_uninstall(label: str, cfg: Dict[str, Any], rng: random.Random, chk: common.Check, per_scenario: int = 6) -> List[Dict[str, Any]]:
    """Directed histories: an application is uninstalled through its request, then every request it used to offer (the
    routes read from the live tree BEFORE the removal, plus the generic application verbs) is sent to its name.  The
    component is gone by the simulator's own tables: none of these may succeed or change anything."""
    traces = []
    game0 = scenarios.build(cfg)
    pairs = [(n.config.hostname, a.name) for n in game0.simulation.network.nodes.values() for a in n.applications.values()]
    rng.shuffle(pairs)
    # prefer applications of different kinds
    chosen, seen_kinds = [], set()
    for h, a in pairs:
        if a not in seen_kinds or len(chosen) < per_scenario // 2:
            chosen.append((h, a))
            seen_kinds.add(a)
        if len(chosen) >= per_scenario:
            break
    for h, a in chosen:
        game = scenarios.build(cfg)
        sim = game.simulation
        numbering = rq.DigestNumbering()
        prefix = ["network", "node", h, "application", a]
        routes = [list(p) for p in sim._request_manager.get_request_types_recursively() if [str(x) for x in p[:5]] == prefix]
        verbs = {tuple(str(x) for x in p[5:]) for p in routes} | {("execute",), ("scan",), ("fix",), ("close",), ("compromise",)}
        events, meta = [], []
        cur = numbering.num(rq.state_digest(sim))
        start = cur
        # first: the application route asked to uninstall SERVICES of that node (no application of that name exists)
        svc_names = sorted(sw.name for sw in sim.network.get_node_by_hostname(h).services.values())
        seq = [(["network", "node", h, "software_manager", "application", "uninstall", sname], "uninstall-service-as-application")
               for sname in rng.sample(svc_names, min(2, len(svc_names)))]
        seq += [(["network", "node", h, "software_manager", "application", "uninstall", a], "uninstall")]
        for v in sorted(verbs):
            tail = list(v)
            if a == "nmap" and v and v[0] in ("ping_scan", "port_scan", "network_service_recon"):
                tail = tail + [{"target_ip_address": "192.168.1.0/29", "show": False, "target_port": [80], "target_protocol": ["tcp"]}]
            seq.append((prefix + tail, "after-uninstall"))
        for req, what in seq:
            obs, leaf = rq.dry_run(sim, req)
            gone = rq.addresses_absent(sim, req)
            pw = rq.documented_power_ok(sim, req)
            status, reason, raised = "", False, None
            try:
                resp = sim.apply_request(copy.deepcopy(req))
                status = getattr(resp, "status", None) or f"not-a-response:{type(resp).__name__}"
                data = getattr(resp, "data", None) or {}
                reason = bool(data.get("reason")) if isinstance(data, dict) else False
            except Exception as e:  # noqa
                status = f"raised:{type(e).__name__}"
                raised = repr(e)
            post = numbering.num(rq.state_digest(sim))
            events.append(rq.req_event(obs, leaf, True, status, reason, cur, post, "na", False, False, gone))
            meta.append({"request": [str(x)[:60] for x in req], "kind": f"{what}:{a}", "mutation": "wellformed", "raised": raised})
            chk.add_case({"s": label, "k": f"{what}:{a}", "v": [str(x) for x in req[5:6]], "st": status}, nontrivial=True)
            cur = post
            if what == "uninstall" and status != "success":
                break
        traces.append({"cfg": {"dig": start}, "ev": events, "meta": {"scenario": label + ":after-uninstall", "requests": meta}})
    return traces


def explore_declared_off(rng: random.Random, chk: common.Check) -> List[Dict[str, Any]]:
    """Directed histories: nodes of every kind DECLARED off in the scenario (their interfaces are attached while the node is
    off), started by the ordinary request; once they are on every agent action naming one of their existing components
    must reach that component (probed), and the interface actions are executed."""
    traces = []
    cases = []
    c = scenarios.routed()
    cases.append(("declared_off:routed", c, ["a", "r"]))
    c = scenarios.switched(3)
    cases.append(("declared_off:switched", c, ["sw", "b"]))
    c = scenarios.firewalled(dmz=True)
    cases.append(("declared_off:firewalled", c, ["fw", "int"]))
    for label, cfg, off in cases:
        for n in cfg["simulation"]["network"]["nodes"]:
            if n["hostname"] in off:
                n["operating_state"] = "OFF"
        game = scenarios.build(cfg)
        sim = game.simulation
        numbering = rq.DigestNumbering()
        events, meta = [], []
        for h in off:
            sim.apply_request(["network", "node", h, "startup"])
        for _ in range(6):
            game.pre_timestep()
            game.advance_timestep()
        if any(sim.network.get_node_by_hostname(h).operating_state.name != "ON" for h in off):
            raise tlc.TLCError(f"{label}: the nodes declared off did not come up")
        cur = numbering.num(rq.state_digest(sim))
        start = cur
        for h in off:
            probe_node_actions(game, h, rng, numbering, cur, events, meta, chk, label, only=())
        # ... and the interface actions are executed
        for (aname, opts, exist) in rq.action_instances(game, rng, per_type=50):
            tgt = opts.get("node_name") or opts.get("target_nodename")
            if tgt not in off or not aname.startswith(("host-nic-", "network-port-")):
                continue
            try:
                req = rq.form(aname, opts)
            except Exception:  # noqa
                continue
            obs, leaf = rq.dry_run(sim, req)
            status, reason, raised = "", False, None
            try:
                resp = sim.apply_request(copy.deepcopy(req))
                status = getattr(resp, "status", None) or f"not-a-response:{type(resp).__name__}"
                data = getattr(resp, "data", None) or {}
                reason = bool(data.get("reason")) if isinstance(data, dict) else False
            except Exception as e:  # noqa
                status = f"raised:{type(e).__name__}"
                raised = repr(e)
            post = numbering.num(rq.state_digest(sim))
            events.append(rq.req_event(obs, leaf, True, status, reason, cur, post, "na", True, exist))
            meta.append({"request": [str(x)[:60] for x in req], "kind": aname, "mutation": "wellformed", "raised": raised})
            chk.add_case({"s": label, "k": aname, "st": status}, nontrivial=True)
            cur = post
        if not any(e["exec"] for e in events):
            raise tlc.TLCError(f"{label}: no interface action was executed on a node declared off")
        CH = 40
        dig = start
        for i in range(0, len(events), CH):
            evs = events[i : i + CH]
            traces.append({"cfg": {"dig": dig}, "ev": evs, "meta": {"scenario": label, "requests": meta[i : i + CH]}})
            for e in evs:
                if e["ev"] == "Tick" or e["exec"]:
                    dig = e["post"]
    return traces


def explore_power_requests(rng: random.Random, chk: common.Check) -> List[Dict[str, Any]]:
    """Directed histories: power requests at every power state of hosts whose start-up and shut-down durations differ
    (0 / 3 and 3 / 0: one transition instantaneous, the other timed) - a power request that its documented rule refuses
    (start-up unless OFF, shut-down and reset unless ON) must not succeed and must change nothing."""
    traces = []
    for up, down in ((0, 3), (3, 0), (1, 1)):
        cfg = scenarios.p2p()
        for n in cfg["simulation"]["network"]["nodes"]:
            n["start_up_duration"], n["shut_down_duration"] = up, down
        game = scenarios.build(cfg)
        sim = game.simulation
        numbering = rq.DigestNumbering()
        events, meta = [], []
        cur = numbering.num(rq.state_digest(sim))
        start = cur
        script = ["shutdown", "startup", "reset", "tick", "startup", "shutdown", "tick", "tick", "tick", "tick", "startup", "reset", "shutdown",
                  "tick", "startup", "tick", "tick", "tick", "tick", "reset", "startup", "tick", "shutdown", "startup"]
        script += [rng.choice(["shutdown", "startup", "reset", "tick"]) for _ in range(30)]
        for what in script:
            if what == "tick":
                game.pre_timestep()
                game.advance_timestep()
                cur = numbering.num(rq.state_digest(sim))
                events.append(rq.tick_event(cur))
                meta.append({"request": "tick"})
                continue
            req = ["network", "node", "a", what]
            obs, leaf = rq.dry_run(sim, req)
            pw = rq.documented_power_ok(sim, req)
            resp = sim.apply_request(list(req))
            status = getattr(resp, "status", None) or "not-a-response"
            data = getattr(resp, "data", None) or {}
            post = numbering.num(rq.state_digest(sim))
            events.append(rq.req_event(obs, leaf, True, status, bool(data.get("reason")) if isinstance(data, dict) else False, cur, post, "na",
                                       True, True, False, pwok=pw))
            meta.append({"request": req, "kind": f"node-{what}", "mutation": "wellformed", "raised": None})
            chk.add_case({"s": f"power:{up}/{down}", "k": what, "st": status, "pw": pw}, nontrivial=True)
            cur = post
        traces.append({"cfg": {"dig": start}, "ev": events, "meta": {"scenario": f"power-requests:{up}/{down}", "requests": meta}})
    return traces


def probe_node_actions(game, node_name: str, rng: random.Random, numbering, cur: int, events, meta, chk, label: str,
                       only=("node-file-", "node-folder-")):
    """Dry-run every agent action aimed at one node (no execution): an action whose parameters name existing
    components must resolve to that component's operation, whatever the history of the node."""
    sim = game.simulation
    for (aname, opts, exist) in rq.action_instances(game, rng, per_type=50):
        if only and not aname.startswith(only):
            continue
        tgt = opts.get("node_name") or opts.get("target_router") or opts.get("target_firewall_nodename") or opts.get("target_nodename") or opts.get("source_node")
        if tgt != node_name:
            continue
        try:
            req = rq.form(aname, opts)
        except Exception:  # noqa
            continue
        obs, leaf = rq.dry_run(sim, req)
        events.append(rq.req_event(obs, leaf, False, "", False, cur, cur, "na", True, exist))
        meta.append({"request": [str(x)[:60] for x in req], "kind": aname, "mutation": "wellformed", "raised": None, "probe": True})
        chk.add_case({"s": label, "k": aname, "probe": [tuple(sorted(o.items())) for o in obs]}, nontrivial=True)


def explore_fs_histories(behs, rng: random.Random, chk: common.Check) -> List[Dict[str, Any]]:
    """State generator from another module of the library: behaviours of the file-system model (create / delete /
    restore of files and folders, ticks) are executed on a host and after every operation all file / folder actions
    of that host are probed."""
    from .c15 import _args

    traces = []
    for bi, beh in enumerate(behs):
        game = scenarios.build(scenarios.p2p())
        sim = game.simulation
        fs = sim.network.get_node_by_hostname("a").file_system
        for fo in fs.folders.values():
            fo.restore_duration = 1 + bi % 3
        fs._default_folder_restore_duration = 1 + bi % 3
        numbering = rq.DigestNumbering()
        events, meta = [], []
        cur = numbering.num(rq.state_digest(sim))
        start = cur

        def req(tail):
            return sim.apply_request(["network", "node", "a", "file_system"] + tail)

        for st in beh[1:]:
            a, args = st["action"], _args(st["params"])
            try:
                if a == "MPreTick":
                    game.pre_timestep()
                elif a == "MTick":
                    game.advance_timestep()
                elif a == "MCreateFile":
                    req(["create", "file", args[0], args[1], False])
                elif a == "MCreateFolder":
                    req(["create", "folder", args[0]])
                elif a == "MDeleteFile":
                    req(["delete", "file", args[0], args[1]])
                elif a == "MDeleteFolder":
                    req(["delete", "folder", args[0]])
                elif a == "MRestoreFile":
                    req(["restore", "file", args[0], args[1]])
                elif a == "MRestoreFolder":
                    req(["restore", "folder", args[0]])
            except Exception:  # noqa - C15 reports exceptions of these operations
                break
            cur = numbering.num(rq.state_digest(sim))
            events.append(rq.tick_event(cur))
            meta.append({"request": [a] + args})
            probe_node_actions(game, "a", rng, numbering, cur, events, meta, chk, "fs-history")
        dig = start
        CH = 40
        for i in range(0, len(events), CH):
            evs = events[i : i + CH]
            traces.append({"cfg": {"dig": dig}, "ev": evs, "meta": {"scenario": "fs-history", "requests": meta[i : i + CH]}})
            for e in evs:
                if e["ev"] == "Tick" or e["exec"]:
                    dig = e["post"]
    return traces


def _live(game, facet: str, action: str) -> bool:
    """Do the parameters of this tour action name components that exist right now?"""
    from . import tour

    node, comp = tour.TARGET[facet]
    n = game.simulation.network.get_node_by_hostname(node)
    if facet == "svc" or action.startswith("node-") and action.split("-")[1] in ("shutdown", "startup", "reset"):
        return True
    if facet == "app":
        return comp in n.software_manager.software or action == "node-application-install"
    fo = n.file_system.get_folder(comp)
    if action in ("node-file-create", "node-folder-create"):
        return True
    if fo is None:
        return False
    if action.startswith("node-folder-"):
        return True
    f = fo.get_file("t.txt")
    return f is not None and not f.deleted


def explore_tours(seed: int, chk: common.Check, visits: int, facets=("svc", "app", "fs")) -> List[Dict[str, Any]]:
    """State generator: transition tours of spec/Lifecycle.tla (every agent operation at every reachable power x
    component state).  Every tour step is submitted as a request (walk before, digests around it) followed by a tick;
    at the first `visits` visits of every abstract state all agent actions aimed at the target node are probed."""
    from . import tour

    traces = []
    for facet in facets:
        g = tour.graph(facet)
        eps, st = tour.tour(g, random.Random(seed), episode_len=300, level="coarse" if visits == 1 else "exact")
        chk.add_mc(f"Lifecycle({facet})", g["tlc"])
        chk.cov[f"tour_{facet}"] = st
        cfg, idx = tour.scenario(facet)
        amap = cfg["agents"][0]["action_space"]["action_map"]
        label = f"tour:{facet}"
        seen: Dict[Any, int] = {}
        rng = random.Random(seed)
        for ei, ep in enumerate(eps):
            game = scenarios.build(cfg)
            sim = game.simulation
            if facet == "app" and ei % 2 == 1:
                # the toured application shares its (port, protocol) pair with software installed AFTER it on the same node
                # (a web server next to the web browser): removing the one must not leave the other's - or its own - route behind
                from primaite.simulator.system.services.web_server.web_server import WebServer

                sim.network.get_node_by_hostname(tour.TARGET[facet][0]).software_manager.install(WebServer)
            numbering = rq.DigestNumbering()
            events, meta = [], []
            cur = numbering.num(rq.state_digest(sim))
            start = cur
            for a, state in zip(ep, tour.states_along(g, ep)):
                if a == "red-compromise":
                    tour.compromise(game, facet)
                    cur = numbering.num(rq.state_digest(sim))
                    events.append(rq.tick_event(cur))
                    meta.append({"request": "red-compromise"})
                entry = amap[idx[a]]
                req = rq.form(entry["action"], entry["options"])
                obs, leaf = rq.dry_run(sim, req)
                gone = rq.addresses_absent(sim, req)
                pw = rq.documented_power_ok(sim, req)
                exist = _live(game, facet, entry["action"])
                status, reason, raised = "", False, None
                try:
                    resp = sim.apply_request(copy.deepcopy(req))
                    status = getattr(resp, "status", None) or f"not-a-response:{type(resp).__name__}"
                    data = getattr(resp, "data", None) or {}
                    reason = bool(data.get("reason")) if isinstance(data, dict) else False
                except Exception as e:  # noqa - an exception out of repository code is an event no module allows
                    status = f"raised:{type(e).__name__}"
                    raised = repr(e)
                post = numbering.num(rq.state_digest(sim))
                events.append(rq.req_event(obs, leaf, True, status, reason, cur, post, "na", True, exist, gone, pwok=pw))
                meta.append({"request": [str(x)[:60] for x in req], "kind": entry["action"], "mutation": "wellformed", "raised": raised})
                chk.add_case({"s": label, "k": entry["action"], "at": state, "st": status}, nontrivial=True)
                try:
                    game.pre_timestep()
                    game.advance_timestep()
                except Exception as e:  # noqa - C01's business; the history ends here
                    chk.notes.append(f"{label}: tick raised {type(e).__name__} (reported by C01); history abandoned")
                    break
                cur = numbering.num(rq.state_digest(sim))
                events.append(rq.tick_event(cur))
                meta.append({"request": "tick"})
                seen[state] = seen.get(state, 0) + 1
                if seen[state] <= visits:
                    probe_node_actions(game, tour.TARGET[facet][0], rng, numbering, cur, events, meta, chk, label, only=())
            dig = start
            CH = 40
            for i in range(0, len(events), CH):
                evs = events[i : i + CH]
                traces.append({"cfg": {"dig": dig}, "ev": evs, "meta": {"scenario": label, "requests": meta[i : i + CH]}})
                for e in evs:
                    if e["ev"] == "Tick" or e["exec"]:
                        dig = e["post"]
        chk.cov[f"tour_{facet}_states_probed"] = len(seen)
    return traces


def sig_fn(tr, event, stuck):
    pos = (stuck or {}).get("pos", 1)
    m = tr["meta"]["requests"][pos - 1] if 0 < pos <= len(tr["meta"]["requests"]) else {}
    kind = m.get("kind") if isinstance(m, dict) else None
    mut = (m.get("mutation") or "").split("@")[0] if isinstance(m, dict) else None
    st = (stuck or {}).get("st") or {}
    import re as _re
    exc = _re.sub(r"\d+", "N", (m.get("raised") or "") if isinstance(m, dict) else "")[:90]
    return {"kind": kind if mut == "wellformed" else "*", "exc": exc, "mutation": mut, "status": event.get("status"), "outcome": st.get("outcome") if isinstance(st, dict) else None}


def main(tier: str, seed: int) -> int:
    chk = common.Check(PROP, "model_checking", tier, seed)
    rng = random.Random(seed)
    r = tlc.mc("MC_Requests")
    if not r["ok"]:
        chk.violation({"module": "MC_Requests", "clause": str(r["violation"])}, {"tlc": r["output_tail"]})
    chk.add_mc("MC_Requests(400 trees x 120 paths)", r)
    common.boot()
    traces = []
    budget = 180 if tier == "quick" else 2500
    for label, cfg in scenario_list(tier):
        traces += explore(label, cfg, budget, rng, chk)
    n_gone = 0
    for label, cfg in scenario_list(tier)[: 3 if tier == "quick" else None]:
        trs = explore_after_uninstall(label, cfg, rng, chk, 6 if tier == "quick" else 30)
        n_gone += sum(1 for tr in trs for e in tr["ev"] if e["gone"])
        traces += trs
    for label, cfg in scenario_list(tier)[: 2 if tier == "quick" else None]:
        traces += explore_repeats(label, cfg, rng, chk)
    traces += explore_declared_off(rng, chk)
    traces += explore_power_requests(rng, chk)
    if n_gone == 0:
        raise tlc.TLCError("vacuous: no request was addressed to an uninstalled application")
    chk.cov["requests_to_uninstalled_applications"] = n_gone
    fs_behs, info = tlc.simulate("MC_FileSystem", "Sim_FileSystem.cfg", num=25 if tier == "quick" else 250, depth=30, seed=seed + 4)
    # plus every short history of ONE file and its folder over the file-system model's action alphabet (bounded-
    # exhaustive: all sequences of length <= 3, a seeded sample of length 4 / all of length 4 in thorough), each followed
    # by enough ticks for a timed folder restore to complete
    import itertools

    def st(a, p=""):
        return {"action": a, "params": p, "state": {}}

    alphabet = [st("MCreateFile", '"f","a.txt"'), st("MDeleteFile", '"f","a.txt"'), st("MDeleteFolder", '"f"'),
                st("MRestoreFile", '"f","a.txt"'), st("MRestoreFolder", '"f"'), st("MTick")]
    tail = [st("MPreTick"), st("MTick"), st("MPreTick"), st("MTick"), st("MPreTick"), st("MTick"), st("MPreTick"), st("MTick")]
    seqs = [list(x) for n in (1, 2, 3) for x in itertools.product(alphabet, repeat=n)]
    four = [list(x) for x in itertools.product(alphabet, repeat=4)]
    seqs += four if tier == "thorough" else rng.sample(four, 100)
    directed = [[st("Init"), st("MCreateFile", '"f","a.txt"')] + q + tail for q in seqs]
    n_explore = len(traces)  # (the exploration traces: executed requests with digests - the ones the self-test corrupts)
    traces += explore_fs_histories(fs_behs + directed, rng, chk)
    # (quick: one facet per run, rotating with the seed - C01, C11 and C14 run all three tours on every change)
    traces += explore_tours(seed, chk, visits=1 if tier == "quick" else 3,
                            facets=(("svc", "app", "fs")[seed % 3],) if tier == "quick" else ("svc", "app", "fs"))
    res = tlc.validate("RequestsTrace", traces)
    # the binding self-test corrupts the exploration traces (every event an executed request): in the probe-only and
    # tick-heavy history traces most fields are not constrained by any clause, so corrupting THEM shows nothing
    part = lambda r, a, b: {"results": r["results"][a:b], "stuck": r["stuck"][a:b], "states": 0, "distinct": 0, "wall_s": 0}  # noqa
    common.binding_selftest(chk, "RequestsTrace", traces[:n_explore], part(res, 0, n_explore))
    common.judge_traces(chk, "Requests", traces, res, sig_fn)
    for tr in traces[:2]:
        chk.sample({"cfg": tr["cfg"], "requests": tr["meta"]["requests"][:4], "events": tr["ev"][:4]})
    chk.assumptions += [
        "the state digest covers an attribute walk of every component reachable from Simulation plus describe_state(), "
        "with uuids/MACs/timestamps canonicalised; logs and packet captures are excluded",
        "leaves are called with well-formed parameter lists (those the action classes produce); mutations apply to path elements only",
    ]
    return chk.finish()
