"""C13 - services and applications follow their lifecycle; only running software works.

Model: spec/Software.tla (MC_Software: exhaustive over one service, one application and a second
application that is installed / uninstalled / re-installed, durations 0..2, three port layouts;
MC_SoftwareLive.cfg: liveness of the timed completions under fairness of Tick).  Binding: TLC -simulate behaviours of MC_Software are replayed
event by event through the request API on a real host for every shipped service / application type
(the model's names svc / app / app2 bound to real software), the whole node's software state is
projected after every event (operating states, four registries, open ports, who handled an injected
payload) and TLC validates the recorded histories against SoftwareTrace.tla.
"""
from __future__ import annotations

import json
import random
from typing import Any, Dict, List

from . import common, rec_software as rs, tlc

PROP = "C13"
MC_ACTIONS = ("MReq", "MInstall", "MUninstall", "MTick", "MPower", "MPayload")


def sig_fn(tr, event, stuck):
    """Canonical key of a rejected trace: what diverged, not where in the stimulus it happened."""
    st = (stuck or {}).get("st") or {}
    fail = set((stuck or {}).get("fail") or [])
    op = st.get("op") if isinstance(st, dict) else None
    op = op if isinstance(op, dict) else {}
    n = event.get("n") or ""
    variant = tr["meta"]["variant"] + ("+dupcfg" if tr["meta"].get("dup_system") else "")
    pof = tr["cfg"]["portsOf"]
    eop = event.get("op") or {}
    # keys are kept coarse (root cause, not circumstances): the circumstances are in the replay file
    if fail & {"RunningKeepsPortOpen", "NoPortOpenUnlessRunning"}:
        want = {p for m, s_ in eop.items() if s_ == "RUNNING" for p in pof.get(m, [])}
        diff = sorted(want.symmetric_difference(set(event.get("ports") or [])))
        return {"variant": variant, "port": diff[0] if diff else 0, "event": "any"}
    if "NotRunningNeverHandles" in fail:
        bad = sorted(m for m in event.get("handled") or [] if not (event.get("on") and op.get(m) == "RUNNING"))
        return {"variant": variant, "handler": bad[0] if bad else "", "port": event.get("port")}
    if fail & {"TimedNotLate", "TimedNotEarly", "NoSpontaneousChange"}:
        ch = sorted(m for m in eop if op.get(m) in ("RESTARTING", "INSTALLING") or eop.get(m) != op.get(m))
        return {"sw": ch[0] if ch else "", "state_before": op.get(ch[0]) if ch else None,
                "state_after": eop.get(ch[0]) if ch else None}
    if fail & {"RegistriesAgree", "NoDuplicateInstances"}:
        regs = {k: event.get(k) or [] for k in ("installed", "nodeList", "routes", "reported")}
        present = sorted(m for m, s_ in eop.items() if s_ != "ABSENT")
        odd = sorted({m for v in regs.values() for m in v if v.count(m) > 1} | {m for v in regs.values() for m in set(v) ^ set(present)})
        return {"variant": variant, "sw": odd[0] if odd else "", "registries": {k: (v.count(odd[0]) if odd else 0) for k, v in regs.items()}}
    return {
        "sw": n,
        "verb": event.get("verb") if event.get("ev") in ("Req", "Power", "Raised") else "",
        "state_before": op.get(n) if n else None,
    }


def _extra_sequences() -> List[List[List[Any]]]:
    """A few directed sequences in the model's alphabet that random simulation reaches rarely (each is
    still validated by TLC like every other trace)."""
    T = ["tick"]
    return [
        [["req", "svc", "restart"], ["req", "svc", "pause"], T, ["req", "svc", "stop"], T, T, T, ["payload", "svc"]],
        [["req", "svc", "restart"], T, ["req", "svc", "disable"], T, T, T, ["req", "svc", "start"], ["req", "svc", "enable"],
         ["req", "svc", "start"], ["payload", "svc"]],
        [["req", "svc", "restart"], ["power", "shutdown"], T, T, T, ["payload", "svc"], ["power", "startup"], T, T, T, T,
         ["payload", "svc"]],
        [["install", "app2"], ["payload", "app2"], T, ["req", "app2", "close"], T, T, ["payload", "app2"], ["payload", "svc"],
         ["payload", "app"], ["uninstall", "app2"], ["payload", "svc"], ["payload", "app"], ["install", "app2"], T, T, T,
         ["req", "app2", "close"], ["uninstall", "app2"], ["req", "app2", "execute"]],
        [["install", "app2"], ["power", "shutdown"], T, T, T, ["power", "startup"], T, T, T, ["payload", "app2"],
         ["uninstall", "app2"]],
        [["uninstall", "app"], ["req", "app", "close"], ["payload", "app"], ["install", "app"], ["install", "app"], T,
         ["req", "app", "execute"], T, T, ["payload", "app"], ["req", "app", "close"], ["payload", "app"],
         ["req", "app", "execute"], ["payload", "app"]],
        [["req", "svc", "pause"], ["payload", "svc"], ["req", "svc", "restart"], ["req", "svc", "resume"], ["req", "svc", "stop"],
         ["payload", "svc"], ["req", "svc", "restart"], ["req", "svc", "start"], ["req", "svc", "disable"], ["power", "shutdown"],
         ["power", "startup"], ["req", "svc", "enable"], ["req", "svc", "start"], ["payload", "svc"]],
        [["req", "app", "close"], ["payload", "app"], ["req", "app", "scan"], ["req", "app", "fix"], ["req", "app", "execute"],
         ["power", "shutdown"], ["req", "app", "execute"], ["install", "app2"], ["power", "startup"], ["payload", "app"]],
    ]


def main(tier: str, seed: int) -> int:
    chk = common.Check(PROP, "model_checking", tier, seed)
    rng = random.Random(seed)
    r = tlc.mc("MC_Software")
    if not r["ok"]:
        chk.violation({"module": "MC_Software", "clause": str(r["violation"])}, {"tlc": r["output_tail"]})
    chk.add_mc("MC_Software(MaxDur=2, svc+app+app2, 3 port layouts, safety)", r)
    for act in MC_ACTIONS:
        if r["coverage"].get(act, (0, 0))[1] == 0:
            raise tlc.TLCError(f"vacuous model: action {act} never taken")
    rl = tlc.mc("MC_Software", cfg="MC_SoftwareLive.cfg")
    if not rl["ok"]:
        chk.violation({"module": "MC_SoftwareLive", "clause": str(rl["violation"])}, {"tlc": rl["output_tail"]})
    chk.add_mc("MC_SoftwareLive(MaxDur=2, 1 port layout, liveness of timed completions under WF(Tick))", rl)

    quick = tier == "quick"
    types = rs.QUICK_TYPES if quick else rs.SERVICES + rs.APPLICATIONS
    n_clean, n_shared, n_listen = (9, 3, 3) if quick else (44, 14, 12)
    depth = 36 if quick else 60
    per_type = n_clean + n_shared + n_listen
    behs, info = tlc.simulate("MC_Software", num=per_type * len(types), depth=depth, seed=seed + 13)
    chk.cov["transitions"] += info["states"]

    common.boot()
    # timed transitions while the node is power-cycled with TIMED start-up and shut-down (Software.tla's power is
    # instantaneous; the timing of power is C12's): the transition tours of Lifecycle.tla's service and application facets,
    # through PrimaiteGymEnv, validated against LifecycleTrace.tla (restart / install counted over the ticks the node is ON); run BEFORE this check's
    # own recorders and its install-duration hook are put on the classes
    from . import ext_lifecycle

    ext_lifecycle.run_facets(chk, ("svc", "app"), tier, seed)
    rec = rs.Recorder()
    rec.install()
    holder: Dict[str, Any] = {"id": None}
    rs.install_duration_hook(holder)
    extra = _extra_sequences()

    # stimulus variants that keep away from the trigger of a divergence found on the unchanged tree, so
    # that it does not mask the rest of that software's behaviour (DESIGN.md 5.3)
    AVOID = {
        "nmap": [("req", "app", "close"), ("req", "app", "scan")],           # nmap has no close / scan route
        "data-manipulation-bot": [("install", "app"), ("uninstall", "app")],  # its installation never completes
    }

    def filtered(sw_type, actions):
        pats = AVOID.get(sw_type, [])
        return [a for a in actions if not any(tuple(a[: len(p)]) == p for p in pats)]

    traces = []
    bi = 0
    for ti, sw_type in enumerate(types):
        jobs = []
        for j in range(per_type):
            beh = behs[bi]
            bi += 1
            variant = "clean" if j < n_clean else ("shared" if j < n_clean + n_shared else "listen")
            acts = rs.actions_of(beh)
            if sw_type in AVOID and j % 2:
                acts = filtered(sw_type, acts)
            jobs.append((variant, beh[0]["state"]["restartDur"], beh[0]["state"]["installDur"], acts, False))
        for xi, seq in enumerate(extra):  # directed sequences, durations cycling over 0..2
            for variant in ("clean", "shared", "listen"):
                jobs.append((variant, (xi + ti) % 3, (xi + ti + (variant == "shared")) % 3, seq, False))
                if sw_type in AVOID and variant == "clean":
                    jobs.append((variant, (xi + ti + 1) % 3, (xi + ti) % 3, filtered(sw_type, seq), False))
        # the scenario file lists software the node type already ships with
        jobs.append(("clean", 1, 1, extra[0], True))
        for ji, (variant, rd, idur, actions, dup) in enumerate(jobs):
            node_kind = "server" if (ji + ti) % 2 == 0 else "computer"
            if variant == "listen":
                # the listening partner keeps its configured listen_on_ports only as long as it is the instance
                # that was configured: never uninstall it (a re-installed instance has the class defaults)
                actions = [a for a in actions if a[:2] != ["uninstall", "app"] or sw_type in rs.APPLICATIONS]
            tr = rs.run_actions(rec, holder, sw_type, variant, node_kind, rd, idur, actions, dup)
            traces.append(tr)
            chk.add_case({"t": sw_type, "v": variant, "rd": rd, "id": idur, "dup": dup, "acts": actions},
                         nontrivial=any(a[0] in ("install", "power") or (a[0] == "req" and a[2] == "restart") for a in actions))
    res = tlc.validate("SoftwareTrace", traces, chunk=120)
    common.judge_traces(chk, "Software", traces, res, sig_fn)

    # drift report (DESIGN.md 5.2): where inside the allowed window the implementation completes
    drift: Dict[str, int] = {}
    for tr in traces:
        pend: Dict[str, int] = {}
        prev = tr["cfg"]["op"]
        for e in tr["ev"]:
            for n, s in e["op"].items():
                was = prev.get(n)
                if s in ("RESTARTING", "INSTALLING") and was != s:
                    pend[n] = 0
                elif s == was and s in ("RESTARTING", "INSTALLING") and e["ev"] == "Tick" and e["on"]:
                    pend[n] = pend.get(n, 0) + 1
                elif was in ("RESTARTING", "INSTALLING") and s == "RUNNING" and e["ev"] == "Tick" and n in pend:
                    d = tr["cfg"]["rd"] if was == "RESTARTING" else tr["cfg"]["id"]
                    key = f"{was.lower()} d={d} completed on ON-tick {pend.pop(n) + 1}"
                    drift[key] = drift.get(key, 0) + 1
                elif s != was:
                    pend.pop(n, None)
            prev = e["op"]
    chk.cov["timing_drift_report"] = dict(sorted(drift.items()))
    chk.cov["software_types"] = types
    chk.cov["traces_by_variant"] = {v: sum(1 for t in traces if t["meta"]["variant"] == v) for v in ("clean", "shared", "listen")}
    acc: Dict[str, Dict[str, List[int]]] = {}
    for tr, (reached, length) in zip(traces, res["results"]):
        v = tr["meta"]["variant"] + ("+dupcfg" if tr["meta"].get("dup_system") else "")
        a = acc.setdefault(tr["meta"]["sw_type"], {}).setdefault(v, [0, 0])
        a[0] += int(reached == length + 1)
        a[1] += 1
    chk.cov["accepted_of_total_by_type_and_variant"] = acc
    for tr in traces[:2]:
        chk.sample({"cfg": tr["cfg"], "meta": tr["meta"], "events": tr["ev"][:6]})
    chk.assumptions += [
        "timed completions follow the DESIGN.md 5.2 window (k-th tick may complete iff k >= d, must when k = d+1; d = 0: "
        "inside the request or on tick 1); lower bound counted in all ticks, upper bound in ticks with the node ON",
        "install_duration of an application created by an install request has no configuration key: it is set as an "
        "attribute when Application.install is entered; restart_duration is set as an attribute on every service before recording",
        "node power uses start_up/shut_down duration 0 (instantaneous); the timing of power is C12's",
        "a payload counts as handled by software whose receive() was invoked for a frame sent by the peer host and was not "
        "stopped by its _can_perform_action gate (and, for software other than the addressee, returned True)",
        "status of fix / execute, of install of present software and of uninstall of absent software is not pinned by the "
        "documentation and left free; enable may lead to STOPPED or RUNNING",
        "clean variant: background software sharing a port with the bound software is disabled / uninstalled through the "
        "request API before recording; shared variant leaves it alone; listen variant = clean + the bound partner's "
        "listen_on_ports attribute set to the ports of the software under test",
    ]
    return chk.finish()


def replay(path: str) -> int:
    """Re-execute the stimulus of a replay file and print the first event TLC cannot explain."""
    d = json.loads(open(path).read())
    stim = d["detail"]["stimulus"]
    common.boot()
    rec = rs.Recorder()
    rec.install()
    holder: Dict[str, Any] = {"id": None}
    rs.install_duration_hook(holder)
    tr = rs.run_actions(rec, holder, stim["sw_type"], stim["variant"], stim["node_kind"], stim["rd"], stim["id"],
                        stim["actions"], stim.get("dup_system", False))
    res = tlc.validate("SoftwareTrace", [tr])
    reached, length = res["results"][0]
    if reached == length + 1:
        print(f"replay: all {length} events accepted")
        return 0
    st = res["stuck"][0] or {}
    print(f"replay: event {reached} of {length} not explained; failing clauses: {st.get('fail')}")
    print("spec state before:", json.dumps(st.get("st"), default=str))
    print("event:", json.dumps(tr["ev"][reached - 1], default=str))
    return 1
