"""C11 - the action mask agrees with what the simulator would refuse.

Model: spec/Requests.tla (MaskAllows = the resolution reaches its handler; MC_Requests checks the
intended check_valid against it on every small tree and refutes the leaf-only variant).  Binding: on
environments with action masking, after reset and after every step, *every* entry of the action map is
recorded as (mask bit from env.action_masks(), observation of the harness' own walk of the live manager
tree); every request actually applied by any agent is recorded with (check_valid at that moment, walk,
response status).  TLC validates all records against RequestsTrace.tla (MaskExact,
MaskedNeverSucceeds, RefusedNotSuccess).
"""
from __future__ import annotations

import copy
import random
from typing import Any, Dict, List

from . import common, scenarios, tlc, tracer
from . import rec_requests as rq

PROP = "C11"


class Applied:
    """Observation of every request applied to the simulation (mask bit and walk taken right before)."""

    def __init__(self):
        self.events: List[Dict[str, Any]] = []
        self.meta: List[Any] = []
        self.on = False
        self.handed = None  # (request, mask bit) of the action about to be stepped, as the environment handed the mask out

    def hand(self, env, a):
        """Remember the mask bit the environment hands out NOW for entry a (the agent chooses with it; pre_timestep runs before
        the action is executed)."""
        try:
            aname, opts = env.agent.action_manager.action_map[a]
            self.handed = (list(env.agent.action_manager.form_request(aname, opts)), bool(env.action_masks()[a]))
        except Exception:  # noqa - an entry that cannot be formed is not a request
            self.handed = None

    def install(self):
        from primaite.simulator.sim_container import Simulation

        rec = self

        def before(sim, request, context=None):
            if not rec.on:
                return None
            obs, leaf = rq.dry_run(sim, request)
            pw = rq.documented_power_ok(sim, request)
            try:
                bit = bool(sim._request_manager.check_valid(request, {}))
                mask = "allow" if bit else "deny"
            except Exception as e:  # noqa
                mask = f"raised:{type(e).__name__}"
            if rec.handed is not None and list(request) == rec.handed[0]:
                # "a masked-out action never succeeds": the bit that counts for the agent is the one it was handed before the
                # step (only the denying direction is taken over: what pre_timestep may legitimately end - a session timing
                # out - is not held against the mask)
                if not rec.handed[1]:
                    mask = "deny"
                rec.handed = None
            return (obs, leaf, mask, pw)

        def after(sim, tok, ret, exc, request, context=None):
            if not rec.on or tok is None:
                return
            obs, leaf, mask, pw = tok
            status = getattr(ret, "status", None) or ("raised:" + type(exc).__name__ if exc else "not-a-response")
            data = getattr(ret, "data", None) or {}
            reason = bool(data.get("reason")) if isinstance(data, dict) else False
            rec.events.append(rq.req_event(obs, leaf, True, status, reason, 0, 0, mask, True, False, pwok=pw))
            rec.meta.append({"request": [str(x)[:50] for x in request], "applied": True})

        tracer.wrap(Simulation, "apply_request", before=before, after=after)


def all_entries(env, rec: Applied):
    agent = env.agent
    masks = env.action_masks()
    sim = env.game.simulation
    for i, (aname, opts) in agent.action_manager.action_map.items():
        req = agent.action_manager.form_request(aname, opts)
        obs, leaf = rq.dry_run(sim, req)
        rec.events.append(rq.req_event(obs, leaf, False, "", False, 0, 0, "allow" if bool(masks[i]) else "deny", True, False,
                                       pwok=rq.documented_power_ok(sim, req)))
        rec.meta.append({"entry": i, "action": aname, "options": {k: str(v) for k, v in opts.items()}})


def check_declared(env, a: int, rec: Applied):
    """After env.step(a): what the agent executed must be the entry declared under key a of its action map."""
    agent = env.agent
    h = agent.history[-1] if agent.history else None
    if h is None:
        return
    try:
        aname, opts = agent.action_manager.action_map[a]   # the entry stored under KEY a
        want = [str(x) for x in agent.action_manager.form_request(aname, opts)]
    except Exception:  # noqa - no claim
        return
    got = [str(x) for x in h.request]
    norm = lambda xs: [{"False": "0", "True": "1"}.get(x, x) for x in xs]  # noqa  (a flag may be written 0 / false)
    if norm(got) != norm(want):
        obs, leaf = rq.dry_run(env.game.simulation, list(h.request))
        rec.events.append(rq.req_event(obs, leaf, True, getattr(h.response, "status", ""), False, 0, 0, "na", True, False, declared=False))
        rec.meta.append({"entry": a, "declared": want[:12], "executed": got[:12]})


def run_env(label: str, cfg: Dict[str, Any], steps: int, episodes: int, rng: random.Random, rec: Applied, chk: common.Check):
    from primaite.session.environment import PrimaiteGymEnv

    env = PrimaiteGymEnv(env_config=copy.deepcopy(cfg))
    traces = []
    n = env.action_space.n
    amap = env.agent.action_manager.action_map
    power = [i for i, (a, o) in amap.items() if a in ("node-shutdown", "node-startup", "node-reset", "node-service-restart",
                                                      "node-service-stop", "node-service-disable", "node-service-pause",
                                                      "node-application-close", "host-nic-disable", "network-port-disable",
                                                      "node-file-delete", "node-application-remove", "node-application-install")]
    for ep in range(episodes):
        env.reset(seed=rng.randrange(10**6))
        rec.on = True
        rec.events, rec.meta = [], []
        all_entries(env, rec)
        acts = []
        for s in range(steps):
            a = rng.choice(power) if power and rng.random() < 0.45 else rng.randrange(n)
            acts.append(a)
            mark = len(rec.events)
            rec.hand(env, a)
            try:
                env.step(a)
            except Exception as e:  # noqa - a step that raises is C01's business; note it and start a new episode
                chk.notes.append(f"{label}: env.step raised {type(e).__name__} (reported by C01); episode abandoned")
                break
            check_declared(env, a, rec)
            all_entries(env, rec)
            traces.append({"cfg": {"dig": 0}, "ev": rec.events[mark:], "meta": {"scenario": label, "episode": ep, "step": s,
                                                                               "requests": rec.meta[mark:]},
                           "stimulus": {"scenario": label, "actions": list(acts)}})
            chk.add_case({"s": label, "e": ep, "t": s, "m": [e["mask"] for e in rec.events[mark:]]}, nontrivial=True)
        rec.on = False
    env.close()
    return traces


def run_no_idle_entry(seed: int, rec: Applied, chk: common.Check, steps: int):
    """Action maps WITHOUT an always-permitted entry (no do-nothing; entry 0 is a power action of a host with timed
    transitions): while the host is shutting down or booting every entry is refused at once - the mask must say so for
    every entry, entry 0 included."""
    from primaite.session.environment import PrimaiteGymEnv

    traces = []
    rng = random.Random(seed)
    for order in (("node-startup", "node-shutdown", "node-reset"), ("node-shutdown", "node-startup"), ("node-reset", "node-startup")):
        cfg = scenarios.p2p(dur=2)
        # (keys written in descending order: an action map is a mapping, the order in which its keys are written means nothing)
        amap = {i: {"action": a, "options": {"node_name": "a"}} for i, a in reversed(list(enumerate(order)))}
        cfg["agents"] = [scenarios.proxy_agent(amap, masking=True)]
        env = PrimaiteGymEnv(env_config=cfg)
        env.reset(seed=seed)
        label = "no-idle-entry:" + "/".join(order)
        rec.on = True
        rec.events, rec.meta = [], []
        all_entries(env, rec)
        acts, all_denied = [], 0
        for s_ in range(steps):
            a = rng.randrange(len(order))
            acts.append(a)
            mark = len(rec.events)
            env.step(a)
            check_declared(env, a, rec)
            all_entries(env, rec)
            if env.game.simulation.network.get_node_by_hostname("a").operating_state.name in ("BOOTING", "SHUTTING_DOWN"):
                all_denied += 1
            traces.append({"cfg": {"dig": 0}, "ev": rec.events[mark:], "meta": {"scenario": label, "episode": 0, "step": s_, "requests": rec.meta[mark:]},
                           "stimulus": {"scenario": label, "actions": list(acts)}})
            chk.add_case({"s": label, "t": s_, "m": [e["mask"] for e in rec.events[mark:]]}, nontrivial=True)
        rec.on = False
        env.close()
        if all_denied == 0:
            raise tlc.TLCError(f"vacuous: {label} never reached a state in which every entry is refused")
    return traces


def run_tour(facet: str, seed: int, rec: Applied, chk: common.Check, visits: int):
    """Transition tour of spec/Lifecycle.tla through a masking environment: the mask of EVERY action-map entry is
    compared with the harness' walk at the first `visits` visits of every abstract (power x component) state, and every
    applied request is recorded as usual."""
    from primaite.session.environment import PrimaiteGymEnv

    from . import tour

    g = tour.graph(facet)
    eps, st = tour.tour(g, random.Random(seed), episode_len=300, level="coarse" if visits == 1 else "exact")
    chk.add_mc(f"Lifecycle({facet})", g["tlc"])
    chk.cov[f"tour_{facet}"] = st
    cfg, idx = tour.scenario(facet, masking=True)
    env = PrimaiteGymEnv(env_config=cfg)
    traces = []
    seen: Dict[Any, int] = {}
    for ei, ep in enumerate(eps):
        env.reset(seed=seed + ei)
        rec.on = True
        rec.events, rec.meta = [], []
        acts = []
        for a, state in zip(ep, tour.states_along(g, ep)):
            acts.append(a)
            mark = len(rec.events)
            if a == "red-compromise":
                tour.compromise(env.game, facet)
            rec.hand(env, idx[a])
            try:
                env.step(idx[a])
            except Exception as e:  # noqa - C01's business
                chk.notes.append(f"tour:{facet}: env.step raised {type(e).__name__} (reported by C01); episode abandoned")
                break
            seen[state] = seen.get(state, 0) + 1
            if seen[state] <= visits:
                all_entries(env, rec)
            if len(rec.events) > mark:
                traces.append({"cfg": {"dig": 0}, "ev": rec.events[mark:],
                               "meta": {"scenario": f"tour:{facet}", "episode": ei, "step": len(acts), "requests": rec.meta[mark:]},
                               "stimulus": {"scenario": f"tour:{facet}", "episode": ei, "actions": list(acts)}})
                chk.add_case({"s": f"tour:{facet}", "e": ei, "t": len(acts), "m": [e["mask"] for e in rec.events[mark:]]}, nontrivial=True)
        rec.on = False
    env.close()
    chk.cov[f"tour_{facet}_states_masked"] = len(seen)
    return traces


def generated_cfg(base: Dict[str, Any], rng: random.Random, per_type: int) -> Dict[str, Any]:
    """Replace the proxy agent of `base` (or add one) by one whose action map is drawn from all action types."""
    game = scenarios.build(base)
    insts = rq.action_instances(game, rng, per_type=per_type)
    ok = []
    for (a, o, ex) in insts:
        try:
            rq.form(a, o)
            ok.append((a, o))
        except Exception:  # noqa
            pass
    cfg = copy.deepcopy(base)
    agents = [ag for ag in cfg.get("agents", []) if ag.get("type") != "proxy-agent"]
    old = [ag for ag in cfg.get("agents", []) if ag.get("type") == "proxy-agent"]
    new = scenarios.proxy_agent(scenarios.action_map_from(ok), masking=True)
    if old:
        new["ref"] = old[0]["ref"]
        new["observation_space"] = old[0]["observation_space"]
        new["reward_function"] = old[0]["reward_function"]
        new["agent_settings"] = dict(old[0].get("agent_settings", {}), action_masking=True)
    agents.append(new)
    cfg["agents"] = agents
    return cfg


def sig_fn(tr, event, stuck):
    pos = (stuck or {}).get("pos", 1)
    reqs = tr["meta"]["requests"]
    m = reqs[pos - 1] if 0 < pos <= len(reqs) else {}
    path = event.get("path") or []
    bad = next((i for i, p in enumerate(path) if not (p["present"] and p["guard"])), -1)
    return {
        "action": m.get("action") or (m.get("request") or ["?"])[-1] if isinstance(m, dict) else None,
        "mask": event.get("mask"),
        "refused_at_depth": bad,
        "path_len": len(path),
        "applied": bool(event.get("exec")),
    }


def main(tier: str, seed: int) -> int:
    chk = common.Check(PROP, "model_checking", tier, seed)
    rng = random.Random(seed)
    r = tlc.mc("MC_Requests")
    if not r["ok"]:
        chk.violation({"module": "MC_Requests", "clause": str(r["violation"])}, {"tlc": r["output_tail"]})
    chk.add_mc("MC_Requests(400 trees x 120 paths; CheckValid vs MaskAllows)", r)
    neg = tlc.mc("MC_Requests", "MC_RequestsAsCoded.cfg", coverage=False)
    if neg["ok"] or neg["violation"] != ("invariant", "MaskExact"):
        raise tlc.TLCError("the leaf-only variant of check_valid should be refuted by TLC (binding self-check)")
    common.boot()
    rec = Applied()
    rec.install()
    traces = []
    dm = scenarios.shipped("data_manipulation.yaml")
    steps = 30 if tier == "quick" else 128
    eps = 1 if tier == "quick" else 2
    traces += run_env("data_manipulation", dm, steps, eps, rng, rec, chk)
    traces += run_env("data_manipulation+all_actions", generated_cfg(dm, rng, 2 if tier == "quick" else 4), steps, eps, rng, rec, chk)
    fw = scenarios.firewalled(dmz=True)
    traces += run_env("firewalled_dmz+all_actions", generated_cfg(fw, rng, 3), steps, eps, rng, rec, chk)
    if tier == "thorough":
        uc7 = scenarios.shipped("uc7_config.yaml")
        for ag in uc7["agents"]:
            if ag.get("type") == "proxy-agent":
                ag.setdefault("agent_settings", {})["action_masking"] = True
        traces += run_env("uc7+masking", uc7, 80, 1, rng, rec, chk)
        wl = scenarios.test_asset("wireless_wan_network_config.yaml")
        traces += run_env("wireless+all_actions", generated_cfg(wl, rng, 3), 60, 1, rng, rec, chk)
    traces += run_no_idle_entry(seed, rec, chk, 24 if tier == "quick" else 120)
    for facet in ("svc", "app", "fs"):
        traces += run_tour(facet, seed, rec, chk, visits=1 if tier == "quick" else 3)
    res = tlc.validate("RequestsTrace", traces, chunk=60)
    common.judge_traces(chk, "Requests", traces, res, sig_fn, selftest="RequestsTrace")
    for tr in traces[:1]:
        chk.sample({"requests": tr["meta"]["requests"][:3], "events": tr["ev"][:3]})
    chk.cov["mask_records"] = sum(len(t["ev"]) for t in traces)
    stats: Dict[str, int] = {}
    for t in traces:
        for e in t["ev"]:
            bad = next((i for i, p in enumerate(e["path"]) if not (p["present"] and p["guard"])), -1)
            why = "reaches-handler" if bad < 0 else ("missing" if not e["path"][bad]["present"] else "refused") + f"@{bad}/{len(e['path'])}"
            k = f"{e['mask']}:{'applied' if e['exec'] else 'entry'}:{why}"
            stats[k] = stats.get(k, 0) + 1
    chk.cov["mask_stats"] = stats
    chk.assumptions += [
        "the harness' own walk of the live RequestManager tree (keys looked up, every permission rule on the path evaluated, "
        "no handler called, RequestManager.check_valid not used) is the oracle for 'would be turned away before its handler'",
    ]
    return chk.finish()
