"""Extension EXT-io (beyond the listed properties): the session output of environments against spec/SessionIO.tla.

What an environment leaves on disk per io_settings option (agent-actions file per finished episode, step metadata,
sys logs / packet captures / agent logs by option and level, the layout of the session directory) over
Construct ; (Step | Reset)* ; Close, with up to two environments in one process.

 (a) TLC exhausts MC_SessionIO (and refutes the two code-shaped variants: process-level option cells, one session
     directory per process);
 (b) behaviours of MC_SessionIO (-simulate, MC_SessionIOSim.cfg) are replayed on real PrimaiteGymEnv instances over a
     two-host network (own host / agent names per environment, so that every file has one owner): Construct / Step /
     Reset / Close are the environment's calls, the writer actions are direct calls of a node's SysLog, of an
     agent's AgentLog and a ping request (frames for the packet captures);
 (c) a recorder (tracer.wrap on the SysLog / AgentLog level methods, PacketCapture.capture_*, PrimaiteIO
     .write_agent_log; `print` of the two log modules replaced) emits one event per environment call and one per
     (environment, writer, level / direction) with what is found on disk afterwards;
 (d) TLC validates the traces against SessionIOTrace.tla (named clauses, binding self-test);
 (e) scenario-scale: the shipped data_manipulation.yaml (thorough: also uc7_config.yaml) stepped with random actions
     over several episodes under several io_settings profiles, same recorder, same trace specification.

Every run has HOME redirected to a scratch directory (set before primaite is imported), and every behaviour has a
sessions root of its own below it (PRIMAITE_PATHS.user_sessions_path is moved, PrimAITE's logging handlers are closed
between behaviours): a behaviour stands for one process.  Run: ./check EXT-io
"""
from __future__ import annotations

import atexit
import copy
import json
import os
import random
import re
import shutil
import tempfile
import time
import zlib
from concurrent.futures import ThreadPoolExecutor
from pathlib import Path
from typing import Any, Dict, List, Optional, Tuple

# --- HOME is redirected before anything of primaite is imported (primaite derives every path from it at import)
_BASE = Path("/tmp/ext_io")
_BASE.mkdir(parents=True, exist_ok=True)
SCRATCH = Path(tempfile.mkdtemp(prefix="run_", dir=str(_BASE)))
_REAL_HOME = os.environ.get("HOME", "/root")
if os.path.isdir(os.path.join(_REAL_HOME, ".cache", "matplotlib")):
    os.environ.setdefault("MPLCONFIGDIR", os.path.join(_REAL_HOME, ".cache", "matplotlib"))  # read-only reuse of the font cache
HOME = SCRATCH / "home"
HOME.mkdir()
os.environ["HOME"] = str(HOME)
if not os.environ.get("VERIF_KEEP"):
    atexit.register(lambda: shutil.rmtree(SCRATCH, ignore_errors=True))

from . import common, scenarios, tlc, tracer  # noqa: E402

INST = ("A", "B")
SUFFIX = {"A": "1", "B": "2"}
LEVEL = {"debug": 1, "info": 2, "warning": 3, "error": 4, "critical": 5}
LNAME = {1: "DEBUG", 2: "INFO", 3: "WARNING", 4: "ERROR", 5: "CRITICAL"}
LNUM = {v: k for k, v in LNAME.items()}
MSG = {"plain": "verif probe message", "json": '{"verif": "probe"}', "tail": 'verif probe state {"k": 1}'}
OPT_KEYS = ("acts", "meta", "pcap", "sys", "agt", "sysLvl", "agtLvl", "sysTerm", "agtTerm")
PROFILES = {  # the same table as MC_SessionIO.tla Profile() (the replay reads the options from TLC's initial state)
    "on": (True, True, True, True, True, 2, 1, False, False),
    "off": (False, False, False, False, False, 3, 2, False, False),
    "files": (True, True, False, False, False, 3, 3, True, False),
    "logs": (False, False, True, True, True, 3, 2, False, True),
    "warn": (True, False, False, True, True, 4, 4, True, True),
    "debug": (False, True, True, True, False, 1, 1, False, False),
}
NEUTRAL = {"ev": "", "i": "A", "lvl": 0, "dir": "", "n": 0, "nj": 0, "ntail": 0, "tt": 0, "lines": 0, "term": 0, "items": [],
           "hfull": [], "nw": 0, "act": 0, "rew": 0, "mhas": False, "mep": 0, "mstep": 0, "mact": 0, "mrew": 0,
           "mstate": False, "files": [], "metas": [], "stray": 0, "outside": 0, "nsysf": 0, "npcapf": 0, "nagtf": 0,
           "what": ""}
LAYOUT = [re.compile(p) for p in (
    r"^agent_actions/episode_\d+\.json$",
    r"^simulation_output/seed\.log$",
    r"^simulation_output/episode_\d+/step_metadata/step_\d+\.json$",
    r"^simulation_output/(episode_\d+/)?(?P<h>[^/]+)/(?P=h)_sys\.log$",
    r"^simulation_output/(episode_\d+/)?(?P<h>[^/]+)/(?P=h)_[^/]+_(inbound|outbound)_pcap\.log$",
    r"^agent_behaviour/(episode_\d+/)?(?P<h>[^/]+)/(?P=h)\.log$",
)]
RE_SYS = re.compile(r"^\d{4}-\d\d-\d\d \d\d:\d\d:\d\d,\d+::(DEBUG|INFO|WARNING|ERROR|CRITICAL)::")
RE_AGT = re.compile(r"^-?\d+::(DEBUG|INFO|WARNING|ERROR|CRITICAL)::")
RE_SESSION = re.compile(r"^\d{4}-\d\d-\d\d/\d\d-\d\d-\d\d([-_.]\w+)?$")  # <DATE>/<TIME>; a distinguishing suffix is tolerated


def opt_record(t) -> Dict[str, Any]:
    return dict(zip(OPT_KEYS, t))


def io_settings(o: Dict[str, Any]) -> Dict[str, Any]:
    return {"save_agent_actions": o["acts"], "save_step_metadata": o["meta"], "save_pcap_logs": o["pcap"],
            "save_sys_logs": o["sys"], "save_agent_logs": o["agt"], "sys_log_level": LNAME[o["sysLvl"]],
            "agent_log_level": LNAME[o["agtLvl"]], "write_sys_log_to_terminal": o["sysTerm"],
            "write_agent_log_to_terminal": o["agtTerm"]}


def small_cfg(sfx: str, o: Dict[str, Any], frac: bool) -> Dict[str, Any]:
    """Two hosts on one wire, a learning agent with a varied action map and a scripted agent; names carry `sfx`."""
    a, b = "a" + sfx, "b" + sfx
    acts = [("node-nmap-ping-scan", {"source_node": a, "target_ip_address": ["192.168.1.3"], "show": False}),
            ("node-shutdown", {"node_name": b}),
            ("node-startup", {"node_name": b}),
            ("node-application-execute", {"node_name": a, "application_name": "web-browser"}),
            ("node-file-create", {"node_name": a, "folder_name": "docs", "file_name": "x.txt"}),
            ("node-service-stop", {"node_name": b, "service_name": "dns-client"}),
            ("node-application-execute", {"node_name": "nobody", "application_name": "web-browser"})]
    c = scenarios.p2p()
    for n in c["simulation"]["network"]["nodes"]:
        n["hostname"] += sfx
    for ln in c["simulation"]["network"]["links"]:
        ln["endpoint_a_hostname"] += sfx
        ln["endpoint_b_hostname"] += sfx
    rewards = [{"type": "action-penalty", "weight": 0.5, "options": {"action_penalty": -1.0, "do_nothing_penalty": 0.25}}] if frac else None
    c["agents"] = [
        scenarios.proxy_agent(scenarios.action_map_from(acts), masking=False, ref="defender" + sfx, rewards=rewards),
        {"ref": "green" + sfx, "team": "GREEN", "type": "probabilistic-agent",
         "agent_settings": {"action_probabilities": {0: 0.5, 1: 0.5}},
         "action_space": {"action_map": {0: {"action": "do-nothing", "options": {}},
                                         1: {"action": "node-application-execute", "options": {"node_name": a, "application_name": "web-browser"}}}},
         "reward_function": {"reward_components": [{"type": "dummy"}]}}]
    c["io_settings"] = io_settings(o)
    c["game"]["max_episode_length"] = 256
    return c


def dig(o: Any) -> int:
    try:
        s = json.dumps(json.loads(json.dumps(o, default=str)), sort_keys=True)
    except Exception:  # noqa
        s = repr(o)
    return zlib.crc32(s.encode()) & 0x3FFFFFFF


class Recorder:
    """One per process: buffers the writer calls of the current stimulus, reads the session directories back."""

    def __init__(self):
        self.buf: Dict[Tuple, List[int]] = {}     # (ev, inst, lvl, dir) -> [n, tt, term, njson, ntail]
        self.stack: List[List[int]] = []
        self.host: Dict[str, str] = {}            # hostname -> instance
        self.agent: Dict[str, str] = {}           # agent name -> instance
        self.io: Dict[int, str] = {}              # id(PrimaiteIO) -> instance
        self.env: Dict[str, Any] = {}             # instance -> environment (also closed ones)
        self.nw: Dict[str, int] = {}
        self.known: set = set()
        self.cache: Dict[str, Tuple[int, Dict[str, int]]] = {}
        self.calls = {"SysWrite": 0, "PcapWrite": 0, "AgentWrite": 0}
        self.single: Optional[str] = None         # scenario-scale: every host / agent belongs to this instance

    # -- installation ---------------------------------------------------------------------------------------
    def install(self):
        import primaite.game.agent.agent_log as agent_log_mod
        import primaite.simulator.system.core.sys_log as sys_log_mod
        from primaite.game.agent.agent_log import AgentLog
        from primaite.session.io import PrimaiteIO
        from primaite.simulator.system.core.packet_capture import PacketCapture
        from primaite.simulator.system.core.sys_log import SysLog

        def printer(*a, **k):
            if self.stack:
                self.stack[-1][2] += 1

        sys_log_mod.print = printer          # the module's own name `print`: nothing reaches the terminal, all is counted
        agent_log_mod.print = printer

        def shape_of(msg) -> str:
            m = str(msg)
            if m.startswith("{") and m.endswith("}"):
                return "json"
            if m.startswith("{") or m.endswith("}"):
                return "tail"
            return "plain"

        def enter(key, to_terminal, shape="plain"):
            ent = self.buf.setdefault(key, [0, 0, 0, 0, 0])
            ent[0] += 1
            ent[1] += 1 if to_terminal else 0
            ent[3] += 1 if shape == "json" else 0
            ent[4] += 1 if shape == "tail" else 0
            self.stack.append(ent)
            self.calls[key[0]] += 1
            return key

        def leave(_self, key, _ret, exc, *_a, **_k):
            if self.stack:
                self.stack.pop()
            if exc is not None and key in self.buf:
                # the call did not complete: it is reported as Raised by the driver, not as a writer event
                # (shape / terminal counts of a call that raised are left: such a trace ends with Raised anyway)
                self.buf[key][0] -= 1
                self.calls[key[0]] -= 1
                if self.buf[key][0] <= 0:
                    del self.buf[key]

        for name, lv in LEVEL.items():
            def before_sys(slog, msg="", to_terminal=False, _lv=lv):
                return enter(("SysWrite", self.owner_host(slog.hostname), _lv, ""), to_terminal, shape_of(msg))

            def before_agt(alog, msg="", to_terminal=False, _lv=lv):
                return enter(("AgentWrite", self.owner_agent(alog.agent_name), _lv, ""), to_terminal)

            tracer.wrap(SysLog, name, before=before_sys, after=leave)
            tracer.wrap(AgentLog, name, before=before_agt, after=leave)
        for meth, d in (("capture_inbound", "inb"), ("capture_outbound", "outb")):
            def before_pcap(pc, frame=None, _d=d):
                return enter(("PcapWrite", self.owner_host(pc.hostname), 0, _d), False)

            tracer.wrap(PacketCapture, meth, before=before_pcap, after=leave)

        def before_write(io, *a, **k):
            inst = self.io.get(id(io), "?")
            self.nw[inst] = self.nw.get(inst, 0) + 1

        tracer.wrap(PrimaiteIO, "write_agent_log", before=before_write)

    def owner_host(self, h: str) -> str:
        return self.host.get(h) or self.single or "?"

    def owner_agent(self, a: str) -> str:
        return self.agent.get(a) or self.single or "?"

    # -- a fresh "process" ----------------------------------------------------------------------------------
    def new_run(self, k: int) -> Path:
        import logging

        from primaite import PRIMAITE_PATHS
        from primaite.simulator.system.core.packet_capture import PacketCapture

        PacketCapture.clear()
        for _name, lg in list(logging.root.manager.loggerDict.items()):
            if not isinstance(lg, logging.Logger):
                continue
            mine = [h for h in lg.handlers if isinstance(h, logging.FileHandler) and str(getattr(h, "baseFilename", "")).startswith(str(HOME))]
            for h in mine:
                lg.removeHandler(h)
                try:
                    h.close()
                except Exception:  # noqa
                    pass
            if mine:
                for f in lg.filters[:]:
                    lg.removeFilter(f)
        for p in HOME.glob("runs/*"):
            shutil.rmtree(p, ignore_errors=True)
        root = HOME / "runs" / f"r{k}" / "sessions"
        root.mkdir(parents=True)
        PRIMAITE_PATHS.user_sessions_path = root
        self.buf.clear()
        self.stack.clear()
        self.host.clear()
        self.agent.clear()
        self.io.clear()
        self.env.clear()
        self.nw.clear()
        self.cache.clear()
        self.single = None
        self.sessions_root = root
        self.known = self.all_files()
        return root

    def all_files(self) -> set:
        out = set()
        for d, _dirs, files in os.walk(HOME):
            for f in files:
                out.add(os.path.join(d, f))
        return out

    # -- reading the disk back ------------------------------------------------------------------------------
    def sdir(self, inst: str) -> Optional[Path]:
        e = self.env.get(inst)
        return Path(e.io.session_path) if e is not None else None

    def _count(self, path: str, kind: str) -> Dict[str, int]:
        """Records per level (sys, agent) / lines (pcap) of one append-only log file, read incrementally."""
        try:
            size = os.path.getsize(path)
        except OSError:
            return {}
        off, cnt = self.cache.get(path, (0, {}))
        if size < off:
            off, cnt = 0, {}
        if size > off:
            with open(path, "rb") as f:
                f.seek(off)
                data = f.read()
            end = data.rfind(b"\n") + 1
            cnt = dict(cnt)
            for line in data[:end].decode("utf8", "replace").split("\n"):
                if kind == "pcap":
                    if line.strip():
                        cnt["n"] = cnt.get("n", 0) + 1
                else:
                    m = (RE_SYS if kind == "sys" else RE_AGT).match(line)
                    if m:
                        cnt[m.group(1)] = cnt.get(m.group(1), 0) + 1
            off += end
            self.cache[path] = (off, cnt)
        return cnt

    def log_files(self, inst: str) -> Dict[str, List[str]]:
        """The log files owned by `inst` (by host / agent name) in its session directory."""
        out = {"sys": [], "inb": [], "outb": [], "agt": []}
        sd = self.sdir(inst)
        if sd is None:
            return out
        for sub in ("simulation_output", "agent_behaviour"):
            for d, _dirs, files in os.walk(sd / sub):
                owner = os.path.basename(d)
                for f in files:
                    p = os.path.join(d, f)
                    if sub == "agent_behaviour":
                        if f.endswith(".log") and self.owner_agent(owner) == inst and (owner in self.agent or self.single):
                            out["agt"].append(p)
                    elif f.endswith("_sys.log"):
                        if self.owner_host(owner) == inst and (owner in self.host or self.single):
                            out["sys"].append(p)
                    elif f.endswith("_inbound_pcap.log") or f.endswith("_outbound_pcap.log"):
                        if self.owner_host(owner) == inst and (owner in self.host or self.single):
                            out["inb" if f.endswith("_inbound_pcap.log") else "outb"].append(p)
        return out

    def lines(self, inst: str, ev: str, lvl: int, d: str) -> int:
        lf = self.log_files(inst)
        if ev == "PcapWrite":
            return sum(self._count(p, "pcap").get("n", 0) for p in lf[d])
        kind = "sys" if ev == "SysWrite" else "agt"
        return sum(self._count(p, kind).get(LNAME[lvl], 0) for p in lf[kind])

    def flush(self) -> List[Dict[str, Any]]:
        """One event per (writer, environment, level / direction) called since the last flush."""
        out = []
        for (ev, inst, lvl, d), (n, tt, term, nj, ntail) in list(self.buf.items()):
            e = dict(NEUTRAL)
            e.update({"ev": ev, "i": inst, "lvl": lvl, "dir": d, "n": n, "nj": nj, "ntail": ntail, "tt": tt, "term": term,
                      "lines": self.lines(inst, ev, lvl, d) if inst in self.env else 0})
            out.append(e)
        self.buf.clear()
        return out

    @staticmethod
    def item_rec(name: str, ts, action, parameters, status, data) -> Dict[str, Any]:
        return {"ag": name, "ts": int(ts), "act": str(action), "par": dig(parameters), "st": str(status), "dat": dig(data)}

    def history_step(self, env, s: int) -> List[Dict[str, Any]]:
        out = []
        for name, ag in env.game.agents.items():
            if len(ag.history) > s:
                h = ag.history[s]
                out.append(self.item_rec(name, h.timestep, h.action, h.parameters, h.response.status, h.response.data))
        return out

    def history_full(self, env) -> List[List[Dict[str, Any]]]:
        n = max([len(a.history) for a in env.game.agents.values()] or [0])
        return [self.history_step(env, s) for s in range(n)]

    def file_view(self) -> Tuple[List[Dict[str, Any]], List[Dict[str, Any]]]:
        files, metas = [], []
        for inst in INST:
            sd = self.sdir(inst)
            if sd is None:
                continue
            for p in sorted((sd / "agent_actions").glob("episode_*.json"), key=lambda q: int(re.findall(r"\d+", q.name)[-1])):
                k = int(re.findall(r"\d+", p.name)[-1])
                steps, hdr = [], True
                try:
                    data = json.loads(p.read_text())
                    keys = sorted(data, key=int)
                    hdr = keys == [str(x) for x in range(len(keys))]
                    for idx, key in enumerate(keys):
                        ent = data[key]
                        hdr = hdr and ent.get("episode") == k and ent.get("timestep") == idx
                        steps.append([self.item_rec(nm, v.get("timestep", -1), v.get("action"), v.get("parameters"),
                                                    (v.get("response") or {}).get("status"), (v.get("response") or {}).get("data"))
                                      for nm, v in ent.items() if nm not in ("timestep", "episode")])
                except Exception:  # noqa  (not a readable episode file)
                    steps, hdr = [], False
                files.append({"i": inst, "ep": k, "hdr": bool(hdr), "steps": steps})
            for p in (sd / "simulation_output").glob("episode_*/step_metadata/step_*.json"):
                metas.append({"i": inst, "ep": int(re.findall(r"\d+", p.parent.parent.name)[-1]), "step": int(re.findall(r"\d+", p.name)[-1])})
        metas.sort(key=lambda m: (m["i"], m["ep"], m["step"]))
        return files, metas

    def strays(self) -> Tuple[int, int]:
        sdirs = [str(self.sdir(i)) for i in INST if self.sdir(i) is not None]
        stray = outside = 0
        for sd in set(sdirs):
            rel = os.path.relpath(sd, str(self.sessions_root))
            if rel.startswith("..") or not RE_SESSION.match(rel):
                stray += 1
        for p in self.all_files() - self.known:
            home = [sd for sd in sdirs if p.startswith(sd + os.sep)]
            if not home:
                outside += 1
                continue
            rel = os.path.relpath(p, home[0])
            m = next((r.match(rel) for r in LAYOUT if r.match(rel)), None)
            if m is None:
                stray += 1
            elif "h" in m.groupdict() and not self.single and m.group("h") not in self.host and m.group("h") not in self.agent:
                stray += 1
        return stray, outside

    def hook_event(self, ev: str, inst: str, **extra) -> Dict[str, Any]:
        e = dict(NEUTRAL)
        files, metas = self.file_view()
        stray, outside = self.strays()
        e.update({"ev": ev, "i": inst, "nw": self.nw.pop(inst, 0), "files": files, "metas": metas, "stray": stray, "outside": outside})
        e.update(extra)
        self.nw.clear()
        return e


class Driver:
    """Runs one behaviour (= one process): owns the environments and the trace."""

    def __init__(self, rec: Recorder, rng: random.Random, opts: Dict[str, Dict[str, Any]], frac: bool, label: str):
        self.rec, self.rng, self.opts, self.frac = rec, rng, opts, frac
        self.trace = {"cfg": {"opt": opts}, "ev": [], "meta": {"label": label, "frac_rewards": frac, "session_dirs": {}}, "stimulus": []}
        self.dead = False

    def _raised(self, inst: str, what: str, ex: BaseException):
        self.trace["ev"] += self.rec.flush()
        e = dict(NEUTRAL)
        e.update({"ev": "Raised", "i": inst, "what": f"{what}:{type(ex).__name__}"})
        self.trace["ev"].append(e)
        self.trace["meta"]["raised"] = f"{what}:{type(ex).__name__}: {str(ex)[:200]}"
        self.dead = True

    def construct(self, inst: str, cfg: Dict[str, Any], hosts: Optional[List[str]] = None, agents: Optional[List[str]] = None):
        from primaite.session.environment import PrimaiteGymEnv

        for h in hosts or []:
            self.rec.host[h] = inst
        for a in agents or []:
            self.rec.agent[a] = inst
        try:
            env = PrimaiteGymEnv(env_config=copy.deepcopy(cfg))
        except Exception as ex:  # noqa
            return self._raised(inst, "construct", ex)
        self.rec.env[inst] = env
        self.rec.io[id(env.io)] = inst
        self.trace["meta"]["session_dirs"][inst] = str(env.io.session_path)
        self.trace["ev"] += self.rec.flush()
        self.trace["ev"].append(self.rec.hook_event("Construct", inst))

    def step(self, inst: str, action: Optional[int] = None):
        env = self.rec.env[inst]
        if action is None:
            action = self.rng.randrange(env.action_space.n)
        k, s = env.episode_counter, env.game.step_counter
        try:
            _obs, reward, _term, _trunc, _info = env.step(action)
        except Exception as ex:  # noqa
            return self._raised(inst, "step", ex)
        items = self.rec.history_step(env, max(len(a.history) for a in env.game.agents.values()) - 1)
        extra = {"items": items, "act": int(action), "rew": int(round(float(reward) * 1000))}
        p = Path(env.io.session_path) / "simulation_output" / f"episode_{k}" / "step_metadata" / f"step_{s}.json"
        if p.exists():
            try:
                d = json.loads(p.read_text())
                extra.update({"mhas": True, "mep": int(d.get("episode", -1)), "mstep": int(d.get("step", -1)),
                              "mact": int(d.get("action", -1)), "mrew": int(round(float(d.get("reward", 0)) * 1000)),
                              "mstate": isinstance(d.get("state"), dict) and len(d["state"]) > 0})
            except Exception:  # noqa  (unreadable: present but without the documented fields)
                extra.update({"mhas": True, "mep": -1, "mstep": -1, "mact": -1, "mrew": 0, "mstate": False})
        self.trace["ev"] += self.rec.flush()
        self.trace["ev"].append(self.rec.hook_event("Step", inst, **extra))

    def _end(self, inst: str, ev: str):
        env = self.rec.env[inst]
        hfull = self.rec.history_full(env)
        try:
            env.reset() if ev == "Reset" else env.close()
        except Exception as ex:  # noqa
            return self._raised(inst, ev.lower(), ex)
        extra = {"hfull": hfull}
        if ev == "Close":
            lf = self.rec.log_files(inst)
            extra.update({"nsysf": len(lf["sys"]), "npcapf": len(lf["inb"]) + len(lf["outb"]), "nagtf": len(lf["agt"])})
        self.trace["ev"] += self.rec.flush()
        self.trace["ev"].append(self.rec.hook_event(ev, inst, **extra))

    def reset(self, inst: str):
        self._end(inst, "Reset")

    def close(self, inst: str):
        self._end(inst, "Close")

    def direct(self, inst: str, what: str, fn):
        try:
            fn()
        except Exception as ex:  # noqa
            return self._raised(inst, what, ex)
        self.trace["ev"] += self.rec.flush()


def replay(rec: Recorder, beh, k: int, rng: random.Random, counts: Dict[str, int]) -> Dict[str, Any]:
    """One TLC behaviour of MC_SessionIO on real environments."""
    st0 = beh[0]["state"]
    opts = {i: ({key: st0["opt"][i][key] for key in OPT_KEYS} if i in st0["opt"] else opt_record(PROFILES["off"])) for i in INST}
    frac = (k % 4 == 3)
    rec.new_run(k)
    drv = Driver(rec, rng, opts, frac, f"behaviour {k} profiles {st0.get('prof')}")
    for st in beh[1:]:
        if drv.dead:
            break
        act = st["state"].get("act", st["action"])
        p = [x.strip().strip('"') for x in st["params"].split(",")] if st["params"] else []
        if st["action"] != act or not p:
            raise tlc.TLCError(f"behaviour step without a named action: {st['action']} / {act}")
        inst = p[0]
        sfx = SUFFIX[inst]
        drv.trace["stimulus"].append([act] + p)
        counts[act] = counts.get(act, 0) + 1
        if act == "MConstruct":
            drv.construct(inst, small_cfg(sfx, opts[inst], frac), ["a" + sfx, "b" + sfx], ["defender" + sfx, "green" + sfx])
        elif act == "MStep":
            drv.step(inst)
        elif act == "MReset":
            drv.reset(inst)
        elif act == "MClose":
            drv.close(inst)
        elif act == "MSysWrite":
            env = rec.env[inst]
            node = env.game.simulation.network.get_node_by_hostname(rng.choice(["a", "b"]) + sfx)
            term = rng.random() < 0.3
            shape = p[2] if (p[2] != "tail" or k % 3 == 0) else "plain"  # (brace-ended messages only in every third behaviour)
            drv.direct(inst, "sys_log", lambda: getattr(node.sys_log, LNAME[int(p[1])].lower())(MSG[shape], to_terminal=term))
        elif act == "MAgentWrite":
            env = rec.env[inst]
            ag = env.game.agents[rng.choice(["defender", "green"]) + sfx]
            term = rng.random() < 0.3
            drv.direct(inst, "agent_log", lambda: getattr(ag.logger, LNAME[int(p[1])].lower())(MSG["plain"], to_terminal=term))
        elif act == "MPcapWrite":
            env = rec.env[inst]
            src, dst = ("a", "192.168.1.3") if p[1] == "outb" else ("b", "192.168.1.2")
            req = ["network", "node", src + sfx, "application", "nmap", "ping_scan", {"target_ip_address": [dst], "show": False}]
            drv.direct(inst, "ping", lambda: env.game.simulation.apply_request(req))
        else:
            raise tlc.TLCError(f"unknown action {act}")
    return drv.trace


def scenario_run(rec: Recorder, k: int, name: str, cfg: Dict[str, Any], profile: str, plan: List[int], rng: random.Random) -> Dict[str, Any]:
    """A shipped scenario stepped with random actions: episodes of plan[0], plan[1], ... steps, then close."""
    o = opt_record(PROFILES[profile])
    opts = {"A": o, "B": opt_record(PROFILES["off"])}
    c = copy.deepcopy(cfg)
    c["io_settings"] = io_settings(o)
    rec.new_run(k)
    rec.single = "A"
    drv = Driver(rec, rng, opts, False, f"scenario {name} profile {profile} plan {plan}")
    drv.trace["meta"]["scenario"] = name
    drv.construct("A", c)
    for n, steps in enumerate(plan):
        for _ in range(steps):
            if not drv.dead:
                drv.step("A")
        if not drv.dead:
            drv.reset("A") if n < len(plan) - 1 else drv.close("A")
    return drv.trace


PRIORITY = ["NoException", "FieldsAsDeclared", "HistoryAsStepped", "EpisodeFileWrittenOnce", "EpisodeFileHoldsHistory",
            "FinishedEpisodeFilesKept", "NoActionsFileWhenOff", "NoUnexpectedActionsFile", "StepMetadataIffOn", "MetadataFields",
            "MetadataReward", "SysLogWrittenIffOn", "SysLogTerminalIffOn", "PcapWrittenIffOn", "AgentLogWrittenIffOn",
            "AgentLogTerminalIffOn", "LayoutAsDocumented", "NothingOutsideSession", "NoSysLogFilesWhenOff", "NoPcapFilesWhenOff",
            "NoAgentLogFilesWhenOff"]
FILE_CLAUSES = {"EpisodeFileHoldsHistory", "FinishedEpisodeFilesKept", "NoActionsFileWhenOff", "NoUnexpectedActionsFile", "StepMetadataIffOn"}
RELEVANT = {"SysWrite": ("sys", "sysLvl", "sysTerm"), "PcapWrite": ("pcap",), "AgentWrite": ("agt", "agtLvl", "agtTerm")}


def sig_fn(tr, event, stuck):
    """Canonical key of a divergence: the leading failing clause and the circumstance that tells the causes apart
    (one cause = one signature)."""
    fail = list(stuck.get("fail") or [])
    primary = next((c for c in PRIORITY if c in fail), ",".join(sorted(fail)) or "no-matching-action")
    idx = next((n for n, e in enumerate(tr["ev"]) if e is event), len(tr["ev"]))
    built = [e["i"] for e in tr["ev"][:idx + 1] if e["ev"] == "Construct"]
    inst, ev = event.get("i", "A"), event.get("ev")
    opts = tr["cfg"]["opt"]
    dirs = tr["meta"].get("session_dirs", {})
    two = len(set(built) | {inst}) > 1
    shared = two and len({dirs.get(i) for i in set(built) | {inst}}) == 1
    st = stuck.get("st") or {}
    sig = {"clause": primary, "cause": "second-environment-in-process" if two else "single-environment"}
    try:
        if ev == "Raised":
            sig["cause"] = f"raised {str(event.get('what')).split(':')[-1]}" + (" after another environment was built" if two else "")
        elif ev in RELEVANT:
            last = built[-1] if built else inst

            def expect(o, drop_tail=False):
                """(new records in the files, lines on the terminal) these calls give under the options o."""
                n, tt = event["n"], event["tt"]
                if ev == "PcapWrite":
                    return (n if o["pcap"] else 0, 0)
                on, lv, tm = (o["sys"], o["sysLvl"], o["sysTerm"]) if ev == "SysWrite" else (o["agt"], o["agtLvl"], o["agtTerm"])
                vis = event["lvl"] >= lv
                keep = n - event["nj"] - (event["ntail"] if drop_tail else 0)
                return (keep if (on and vis) else 0, (n if tm else tt) if vis else 0)

            cur = st["pcapL"][inst][event["dir"]] if ev == "PcapWrite" else st["sysL" if ev == "SysWrite" else "agtL"][inst][event["lvl"] - 1]
            seen = (event["lines"] - cur, event["term"])
            if last != inst and seen != expect(opts[inst]) and seen in (expect(opts[last]), expect(opts[last], True)):
                sig["cause"] = "settings-of-the-environment-built-last-apply"
                sig["event"] = "*"
                sig["clause"] = "*"
            elif ev == "SysWrite" and event.get("ntail", 0) > 0 and primary == "SysLogWrittenIffOn":
                sig["cause"] = "brace-ended-message-kept-out-of-the-sys-log"
            elif ev == "PcapWrite":
                cur = st["pcapL"][inst][event["dir"]]
                want = cur + (event["n"] if opts[inst]["pcap"] else 0)
                sig["cause"] = ("frames-captured-more-than-once" if event["lines"] > want else "captured-frames-missing") + \
                               (" after-reset" if st["ep"][inst] > 0 else "") + (" second-environment-in-process" if two else "")
        elif shared and primary in FILE_CLAUSES:
            sig["cause"] = "environments-of-one-process-share-the-session-directory"
            sig["event"] = "*"
            sig["clause"] = "*"
        elif primary == "MetadataReward":
            sig["cause"] = "metadata-reward-is-not-the-reward-returned"
        elif primary == "NoAgentLogFilesWhenOff":
            sig["cause"] = "agent-log-file-created-although-off"
    except Exception:  # noqa
        pass
    return sig


def main(tier: str, seed: int) -> int:
    chk = common.Check("EXT-io", "model_checking", tier, seed)
    rng = random.Random(seed)
    quick = tier == "quick"
    nbeh, depth = (45, 16) if quick else (400, 24)

    # (a) TLC runs in the background while primaite boots
    pool = ThreadPoolExecutor(max_workers=6)
    f_mc = pool.submit(tlc.mc, "MC_SessionIO")
    f_neg = [pool.submit(tlc.mc, "MC_SessionIO", c, 4, 900, False) for c in ("MC_SessionIOAsCoded.cfg", "MC_SessionIOSharedDir.cfg")]
    f_deep = pool.submit(tlc.mc, "MC_SessionIO", "MC_SessionIODeep.cfg") if not quick else None
    f_sim = pool.submit(tlc.simulate, "MC_SessionIO", "MC_SessionIOSim.cfg", nbeh, depth, seed)          # two environments
    f_sim1 = pool.submit(tlc.simulate, "MC_SessionIO", "MC_SessionIOSim1.cfg", nbeh, depth - 4, seed + 1)  # one

    common.boot()
    import logging

    logging.disable(logging.NOTSET)  # boot() silences every logger of the process; the sys / agent logs are loggers
    logging.lastResort = logging.NullHandler()  # a capture logger whose handlers were closed must not dump frames on stderr
    for name in list(logging.root.manager.loggerDict) + ["primaite"]:
        if name.startswith("primaite"):
            logging.getLogger(name).setLevel(100)  # PrimAITE's own application log stays quiet
    from primaite import PRIMAITE_PATHS

    if not str(PRIMAITE_PATHS.user_sessions_path).startswith(str(HOME)):
        raise RuntimeError(f"primaite was imported before HOME was redirected: {PRIMAITE_PATHS.user_sessions_path}")
    try:
        import primaite.session.ray_envs  # noqa
        marl = True
    except Exception as ex:  # noqa
        marl = False
        chk.notes.append(f"primaite.session.ray_envs does not load here ({type(ex).__name__}: {str(ex)[:80]}): the multi-agent environment is skipped")
    _ = marl
    rec = Recorder()
    rec.install()

    # (b, c) replay
    behs2, info = f_sim.result()
    behs1, info1 = f_sim1.result()
    chk.cov["transitions"] += info["states"] + info1["states"]
    behs = [b for pair in zip(behs1, behs2) for b in pair] + behs1[len(behs2):] + behs2[len(behs1):]
    counts: Dict[str, int] = {}
    traces: List[Dict[str, Any]] = []
    t0 = time.time()
    for k, beh in enumerate(behs):
        traces.append(replay(rec, beh, k, rng, counts))
        chk.add_case(traces[-1]["stimulus"])
    t_replay = time.time() - t0
    # (e) scenario scale
    dm = scenarios.shipped("data_manipulation.yaml")
    runs = [("data_manipulation", dm, "on", [6, 4, 0]), ("data_manipulation", dm, "logs", [5, 3]), ("data_manipulation", dm, "files", [4, 0, 3])]
    if not quick:
        runs += [("data_manipulation", dm, p, [12, 8, 0, 5]) for p in ("on", "warn", "debug", "off", "files")]
        uc7 = scenarios.shipped("uc7_config.yaml")
        runs += [("uc7_config", uc7, "on", [10, 6]), ("uc7_config", uc7, "files", [8, 0, 4])]
    t0 = time.time()
    scen_traces = []
    for n, (name, cfg, prof, plan) in enumerate(runs):
        scen_traces.append(scenario_run(rec, 1000 + n, name, cfg, prof, plan, rng))
        chk.add_case([name, prof, plan])
    t_scen = time.time() - t0
    rec.new_run(9999)
    tracer.unwrap_all()

    # (a) results
    r = f_mc.result()
    if not r["ok"]:
        chk.violation({"module": "MC_SessionIO", "clause": str(r["violation"])}, {"tlc": r["output_tail"]})
    chk.add_mc("MC_SessionIO(2 environments, 3 profiles, 1 reset, 1 step / episode, 2 writer calls)", r)
    need = ("MConstruct", "MStep", "MReset", "MClose", "MSysWrite", "MPcapWrite", "MAgentWrite")
    missing = [a for a in need if r["coverage"].get(a, (0, 0))[0] == 0]
    if missing:
        raise tlc.TLCError(f"vacuous model: actions never taken in MC_SessionIO: {missing}")
    for cfgname, fut in zip(("MC_SessionIOAsCoded.cfg", "MC_SessionIOSharedDir.cfg"), f_neg):
        neg = fut.result()
        if neg["ok"]:
            raise tlc.TLCError(f"the code-shaped variant {cfgname} should be refuted by TLC")
        chk.notes.append(f"{cfgname} is refuted by TLC on {neg['violation'][1]}, as intended")
    if f_deep is not None:
        rd = f_deep.result()
        if not rd["ok"]:
            chk.violation({"module": "MC_SessionIO/Deep", "clause": str(rd["violation"])}, {"tlc": rd["output_tail"]})
        chk.add_mc("MC_SessionIODeep(2 steps / episode, 3 levels, 3 message shapes)", rd)
    pool.shutdown()

    # (d) TLC judges
    all_traces = traces + scen_traces
    t0 = time.time()
    res = tlc.validate("SessionIOTrace", all_traces, chunk=max(4, len(all_traces) // 12 + 1), parallel=12, heap="2g")
    t_val = time.time() - t0
    common.judge_traces(chk, "SessionIO", all_traces, res, sig_fn, selftest="SessionIOTrace")

    # vacuity guards
    accepted = sum(1 for (reached, length) in res["results"] if reached == length + 1)
    if accepted == 0:
        raise RuntimeError("no recorded trace was accepted by SessionIOTrace (vacuous binding)")
    never = [a for a in need if counts.get(a, 0) == 0]
    if never:
        raise RuntimeError(f"actions of the model never exercised in code: {never}")
    evs = chk.cov.get("impl_events", {})
    recorded = {}
    for t in all_traces:
        for e in t["ev"]:
            recorded[e["ev"]] = recorded.get(e["ev"], 0) + 1
    for a in ("Construct", "Step", "Reset", "Close", "SysWrite", "PcapWrite", "AgentWrite"):
        if recorded.get(a, 0) == 0 or evs.get(a, 0) == 0:
            raise RuntimeError(f"event {a} never recorded / never matched by the trace specification ({recorded.get(a, 0)} / {evs.get(a, 0)})")
    chk.cov["replayed_actions"] = counts
    chk.cov["recorded_events"] = recorded
    chk.cov["writer_calls_seen"] = rec.calls
    chk.cov["behaviours"] = len(behs)
    chk.cov["scenario_scale_traces"] = [{"label": t["meta"]["label"], "events": len(t["ev"])} for t in scen_traces]
    chk.cov["traces_accepted"] = accepted
    chk.cov["two_environment_traces"] = sum(1 for t in traces if len(t["meta"]["session_dirs"]) == 2)
    chk.cov["timing_s"] = {"replay": round(t_replay, 1), "scenario_scale": round(t_scen, 1), "validation": round(t_val, 1)}
    chk.assumptions += [
        "a behaviour stands for one process: between behaviours the harness closes PrimAITE's logging handlers and moves PRIMAITE_PATHS.user_sessions_path; HOME is a scratch directory",
        "environments of one process carry host / agent names of their own, so that every log file has one owner",
        "developer mode is off (SIM_OUTPUT follows io_settings, not the dev-mode configuration)",
        "parameters and response data of a step are compared through a checksum of their JSON form",
    ]
    for t in all_traces[:2]:
        chk.sample([{k: v for k, v in e.items() if v not in (0, "", [], False)} for e in t["ev"][:3]])
    return chk.finish()
