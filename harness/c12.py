"""C12 - power states gate everything a node does, with the configured timing.

Model: spec/NodePower.tla (MC_NodePower exhaustive incl. liveness).  Binding: TLC behaviours of the
model are replayed request by request / tick by tick on a small real network around a device under
test of every node type and every duration pair; the projected power state, interface states,
running software, request status and frame counters are validated by TLC (NodePowerTrace.tla).
"""
from __future__ import annotations

import random
from typing import Any, Dict, List

from . import common, scenarios, tlc, tracer

PROP = "C12"
KINDS = ["computer", "server", "printer", "switch", "router", "firewall", "wireless-router"]
ST = {"ON": "ON", "OFF": "OFF", "BOOTING": "BOOT", "SHUTTING_DOWN": "SD"}


class Counter:
    """Frames taken in by / leaving the device under test (installed once, re-targeted per run)."""

    def __init__(self):
        self.dut = None
        self.acc = 0
        self.emit = 0

    def install(self):
        from primaite.simulator.network.airspace import AirSpace, WirelessNetworkInterface
        from primaite.simulator.network.hardware.base import Link

        c = self

        def before_tx(link, sender_nic, frame):
            if c.dut is not None and getattr(sender_nic, "_connected_node", None) is c.dut:
                c.emit += 1

        def after_tx(link, tok, ret, exc, sender_nic, frame):
            if c.dut is None or exc is not None or not ret:
                return
            receiver = link.endpoint_a if link.endpoint_a is not sender_nic else link.endpoint_b
            if getattr(receiver, "_connected_node", None) is c.dut:
                c.acc += 1

        def before_air(air, frame, sender):
            if c.dut is not None and getattr(sender, "_connected_node", None) is c.dut:
                c.emit += 1

        def after_wrecv(wi, tok, ret, exc, frame):
            if c.dut is not None and exc is None and ret and getattr(wi, "_connected_node", None) is c.dut:
                c.acc += 1

        tracer.wrap(Link, "transmit_frame", before=before_tx, after=after_tx)
        tracer.wrap(AirSpace, "transmit", before=before_air)
        tracer.wrap(WirelessNetworkInterface, "receive_frame", after=after_wrecv)

    def reset(self):
        self.acc = self.emit = 0


def project(dut) -> Dict[str, Any]:
    from primaite.simulator.system.applications.application import ApplicationOperatingState
    from primaite.simulator.system.services.service import ServiceOperatingState

    run = []
    for name, sw in dut.software_manager.software.items():
        os_ = getattr(sw, "operating_state", None)
        if os_ in (ServiceOperatingState.RUNNING, ApplicationOperatingState.RUNNING):
            run.append(name)
    return {
        "st": ST[dut.operating_state.name],
        "nic": [bool(dut.network_interface[k].enabled) for k in sorted(dut.network_interface)],
        "run": sorted(run),
    }


def progress(dut) -> int:
    """Sum of the counters of every timed operation in flight on the node (software restart / install / fix, node
    scans, folder scans and restores): a tick that advances any of them changes it."""
    tot = 0
    for sw in dut.software_manager.software.values():
        for attr in ("restart_countdown", "install_countdown", "_fixing_countdown"):
            v = getattr(sw, attr, None)
            tot += int(v) if isinstance(v, int) and v > 0 else 0
    for attr in ("node_scan_countdown", "red_scan_countdown"):
        v = getattr(dut, attr, None)
        tot += int(v) if isinstance(v, int) and v > 0 else 0
    fs = getattr(dut, "file_system", None)
    for fo in (fs.folders.values() if fs is not None else []):
        for attr in ("scan_countdown", "restore_countdown"):
            v = getattr(fo, attr, None)
            tot += int(v) if isinstance(v, int) and v > 0 else 0
    return tot


def other_requests(kind: str) -> List[List[Any]]:
    if kind in ("computer", "server", "printer"):
        return [
            ["service", "dns-client", "stop"],
            ["service", "dns-client", "start"],
            ["service", "ntp-client", "restart"],
            ["application", "web-browser", "close"],
            ["application", "web-browser", "execute"],
            ["file_system", "create", "folder", "vf"],
            ["network_interface", 1, "disable"],
            ["network_interface", 1, "enable"],
            ["os", "scan"],
            ["scan"],
            ["startup"],
        ]
    if kind == "switch":
        return [["network_interface", 1, "disable"], ["network_interface", 1, "enable"], ["os", "scan"], ["scan"], ["startup"]]
    rule = ["DENY", "ALL", "ALL", "NONE", "ALL", "ALL", "NONE", "ALL"]
    acl = ([["internal", "inbound", "acl", "add_rule"] + rule + [3], ["external", "outbound", "acl", "remove_rule", 3],
            ["dmz", "inbound", "acl", "add_rule"] + rule + [4]] if kind == "firewall" else
           [["acl", "add_rule"] + rule + [3], ["acl", "remove_rule", 3]])
    return [
        ["network_interface", 1, "disable"],
        ["network_interface", 1, "enable"],
        ["os", "scan"],
        ["service", "terminal", "stop"],
        ["service", "terminal", "start"],
        ["file_system", "create", "folder", "vf"],
        ["startup"],
    ] + acl


def run_behaviour(cnt: Counter, kind: str, up: int, down: int, beh: List[Dict[str, Any]], rng: random.Random):
    info = scenarios.dut_net(kind, up, down)
    game = scenarios.build(info["cfg"])
    net = game.simulation.network
    dut = net.get_node_by_hostname(info["dut"])
    peer = net.get_node_by_hostname(info["peer"])
    cnt.dut = dut
    # warm up ARP so that traffic really reaches the DUT
    if info["dut_ip"]:
        peer.ping(info["dut_ip"], pings=1)
    if info["far_ip"]:
        peer.ping(info["far_ip"], pings=1)
    game.pre_timestep()
    game.advance_timestep()
    p0 = project(dut)
    trace = {
        "cfg": {"up": up, "down": down, "st": p0["st"], "nic": p0["nic"], "run": p0["run"]},
        "ev": [],
        "meta": {"node_type": kind},
        "stimulus": {"node_type": kind, "up": up, "down": down, "actions": []},
    }
    others = other_requests(kind)

    def emit(evname, kind_="", ok=False, acc=0, em=0, prog0=0):
        p = project(dut)
        trace["ev"].append({"ev": evname, "kind": kind_, "ok": bool(ok), "acc": acc, "emit": em, "prog0": prog0, "prog": progress(dut), **p})

    def req(tail):
        return game.simulation.apply_request(["network", "node", info["dut"]] + tail)

    try:
        for stp in beh[1:]:
            a = stp["action"]
            if a == "MPower":
                k = stp["params"].strip('"')
                trace["stimulus"]["actions"].append(k)
                r = req([k])
                emit("ReqPower", k, getattr(r, "status", None) == "success")
            elif a == "MTick":
                trace["stimulus"]["actions"].append("tick")
                p0 = progress(dut)
                game.pre_timestep()
                game.advance_timestep()
                emit("Tick", prog0=p0)
            elif a == "MOther":
                tail = stp["params"].strip('"').split("/") if stp.get("params") else rng.choice(others)
                tail = [int(x) if isinstance(x, str) and x.isdigit() else x for x in tail]
                if tail == ["startup"] and dut.operating_state.name == "OFF":
                    continue  # that would be a power request, not "another request"
                trace["stimulus"]["actions"].append(tail)
                r = req(list(tail))
                emit("ReqOther", "/".join(str(x) for x in tail), getattr(r, "status", None) == "success")
                if dut.operating_state.name != "ON":
                    # ... and while the node is not on, EVERY request name its own table offers (bare: a node that is not on
                    # turns a request away before any handler looks at its parameters), start-up excepted
                    for name in sorted(str(k) for k in dut._request_manager.request_types):
                        if name == "startup":
                            continue
                        trace["stimulus"]["actions"].append([name])
                        r = req([name])
                        emit("ReqOther", name, getattr(r, "status", None) == "success")
                    # ... and the interface's own switch, which every path that brings an interface up goes through (a link
                    # being plugged in, Router.enable_port, the start of an episode): refused while the node is not on
                    for pn in sorted(dut.network_interface):
                        trace["stimulus"]["actions"].append(["api", "network_interface", pn, "enable()"])
                        ret = dut.network_interface[pn].enable()
                        emit("ReqOther", f"api/network_interface/{pn}/enable", ret is True)
            elif a == "MFrame":
                target = rng.choice([x for x in (info["dut_ip"], info["far_ip"]) if x])
                trace["stimulus"]["actions"].append(["frame_in", target])
                cnt.reset()
                peer.ping(target, pings=1)
                emit("FrameIn", target, False, cnt.acc, cnt.emit)
            elif a == "MEmit":
                if kind == "switch":
                    continue
                trace["stimulus"]["actions"].append("try_emit")
                cnt.reset()
                dut.ping(info["peer_ip"], pings=1)
                emit("TryEmit", "", False, 0, cnt.emit)
    except Exception as e:  # noqa  - an exception out of repository code is an event no module allows
        trace["ev"].append({"ev": "Raised", "kind": type(e).__name__, "ok": False, "acc": 0, "emit": 0, "prog0": 0, "prog": 0, **project(dut)})
        trace["meta"]["exception"] = repr(e)
    cnt.dut = None
    return trace


def sig_fn(tr, event, stuck):
    st = (stuck or {}).get("st") or {}
    return {
        "node_type": tr["meta"]["node_type"],
        "kind": event.get("kind") if event.get("ev") == "ReqPower" else "",
        "zero_down": tr["cfg"]["down"] == 0,
        "zero_up": tr["cfg"]["up"] == 0,
        "state_before": st.get("st") if isinstance(st, dict) else None,
    }


def main(tier: str, seed: int) -> int:
    chk = common.Check(PROP, "model_checking", tier, seed)
    rng = random.Random(seed)
    r = tlc.mc("MC_NodePower")
    if not r["ok"]:
        chk.violation({"module": "MC_NodePower", "clause": str(r["violation"])}, {"tlc": r["output_tail"]})
    chk.add_mc("MC_NodePower(MaxDur=3, 2 NICs, 2 software, liveness)", r)
    for act in ("MPower", "MTick", "MOther", "MFrame", "MEmit"):
        if r["coverage"].get(act, (0, 0))[1] == 0:
            raise tlc.TLCError(f"vacuous model: action {act} never taken")
    nbeh = 140 if tier == "quick" else 1500
    behs, info = tlc.simulate("MC_NodePower", num=nbeh, depth=16 if tier == "quick" else 24, seed=seed + 7)
    chk.cov["transitions"] += info["states"]
    common.boot()
    cnt = Counter()
    cnt.install()
    traces = []
    for i, beh in enumerate(behs):
        kind = KINDS[i % len(KINDS)]
        up, down = beh[0]["state"]["upDur"], beh[0]["state"]["downDur"]
        tr = run_behaviour(cnt, kind, up, down, beh, rng)
        traces.append(tr)
        chk.add_case({"kind": kind, "up": up, "down": down, "acts": tr["stimulus"]["actions"]},
                     nontrivial=any(a in ("shutdown", "reset") for a in tr["stimulus"]["actions"]))
    # every (power state, power request) edge of the model for every duration pair, on rotating node types:
    # a path to the state (shutdown / ticks / startup), the request, a probe frame, a tick
    def step(a, p=""):
        return {"action": a, "params": p, "state": {}}

    k = 0
    for up in range(4):
        for down in range(4):
            paths = {"ON": [], "SD": [step("MPower", '"shutdown"')],
                     "OFF": [step("MPower", '"shutdown"')] + [step("MTick")] * (down + 1),
                     "BOOT": [step("MPower", '"shutdown"')] + [step("MTick")] * (down + 1) + [step("MPower", '"startup"')]}
            for target, path in paths.items():
                for kind in ("shutdown", "startup", "reset"):
                    beh = [{"action": "Init", "params": "", "state": {"upDur": up, "downDur": down}}] + path + [
                        step("MPower", f'"{kind}"'), step("MFrame"), step("MOther"), step("MTick"), step("MEmit"), step("MTick")]
                    kindn = KINDS[k % len(KINDS)]
                    k += 1
                    tr = run_behaviour(cnt, kindn, up, down, beh, rng)
                    tr["meta"]["directed"] = f"{target}/{kind}"
                    traces.append(tr)
                    chk.add_case({"kind": kindn, "up": up, "down": down, "edge": f"{target}/{kind}"})
    # timed operations in flight when the node leaves ON (and while it is OFF / booting): nothing advances until it is ON again
    inflight = {"computer": ["service/ntp-client/restart", "service/dns-client/fix", "os/scan", "file_system/folder/root/scan",
                             "file_system/folder/root/restore", "application/web-browser/fix"],
                "router": ["os/scan", "file_system/folder/root/scan"]}
    for kindn, ops in inflight.items():
        for op in ops:
            for leave in ("shutdown", "reset"):
                for down in (1, 3):
                    beh = [{"action": "Init", "params": "", "state": {"upDur": 2, "downDur": down}}, step("MOther", f'"{op}"'),
                           step("MPower", f'"{leave}"')] + [step("MTick")] * (down + 3) + [step("MPower", '"startup"')] + [step("MTick")] * 8
                    tr = run_behaviour(cnt, kindn, 2, down, beh, rng)
                    tr["meta"]["directed"] = f"inflight:{op}/{leave}"
                    traces.append(tr)
                    chk.add_case({"kind": kindn, "inflight": op, "leave": leave, "down": down})
    res = tlc.validate("NodePowerTrace", traces)
    common.judge_traces(chk, "NodePower", traces, res, sig_fn, selftest="NodePowerTrace")
    for tr in traces[:2]:
        chk.sample({"cfg": tr["cfg"], "meta": tr["meta"], "events": tr["ev"][:10]})
    chk.assumptions += [
        "completion of a timed power transition is pinned to tick duration+1 after the request (base_hardware.rst)",
        "'running' = service/application operating_state RUNNING as read from the node's software manager",
        "frames taken in / emitted are counted at Link.transmit_frame, AirSpace.transmit and WirelessNetworkInterface.receive_frame",
    ]
    return chk.finish()
