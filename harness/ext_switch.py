"""Extension (beyond the listed properties): the learning switch against spec/Switch.tla.
TLC behaviours of MC_Switch are replayed by injecting hand-built frames at the ports of a real Switch; learning
and forwarding / flooding are recorded and validated by TLC (SwitchTrace.tla).  Run: ./check EXT"""
from __future__ import annotations

import random
from typing import Any, Dict, List

from . import common, scenarios, tlc, tracer

MAC = {"a": "0a:0a:0a:0a:0a:0a", "b": "0b:0b:0b:0b:0b:0b", "c": "0c:0c:0c:0c:0c:0c", "ff": "ff:ff:ff:ff:ff:ff"}
RMAC = {v: k for k, v in MAC.items()}


def main(tier: str, seed: int) -> int:
    chk = common.Check("EXT-switch", "model_checking", tier, seed)
    r = tlc.mc("MC_Switch")
    if not r["ok"]:
        chk.violation({"module": "MC_Switch", "clause": str(r["violation"])}, {"tlc": r["output_tail"]})
    chk.add_mc("MC_Switch(3 ports, 3 addresses, 6 steps)", r)
    behs, info = tlc.simulate("MC_Switch", num=60 if tier == "quick" else 600, depth=7, seed=seed)
    common.boot()
    from primaite.simulator.network.hardware.nodes.network.switch import Switch, SwitchPort
    from primaite.simulator.network.protocols.icmp import ICMPPacket
    from primaite.simulator.network.transmission.data_link_layer import EthernetHeader, Frame
    from primaite.simulator.network.transmission.network_layer import IPPacket

    cur: Dict[str, Any] = {"sw": None, "outs": None}

    def after_send(port, tok, ret, exc, frame):
        # a frame leaves through a port only when send_frame reports it sent (a disabled port refuses)
        if cur["outs"] is not None and port._connected_node is cur["sw"] and ret and exc is None:
            cur["outs"].append(int(port.port_num))

    tracer.wrap(SwitchPort, "send_frame", after=after_send)
    traces = []
    for beh in behs:
        game = scenarios.build(scenarios.switched(3))
        sw = game.simulation.network.get_node_by_hostname("sw")
        cur["sw"] = sw
        ports = sorted(sw.network_interface)
        en = [bool(sw.network_interface[i].enabled) for i in ports]
        tr = {"cfg": {"nPorts": len(ports), "enabled": en}, "ev": [], "meta": {}, "stimulus": []}
        for st in beh[1:]:
            p = [x.strip().strip('"') for x in st["params"].split(",")]
            if st["action"] == "MReceive":
                src, dst, inp = p[0], p[1], int(p[2])
                if not sw.network_interface[inp].enabled:
                    continue
                f = Frame(ethernet=EthernetHeader(src_mac_addr=MAC[src], dst_mac_addr=MAC[dst]),
                          ip=IPPacket(src_ip_address="192.168.1.77", dst_ip_address="192.168.1.78", protocol="icmp"),
                          icmp=ICMPPacket())
                cur["outs"] = []
                sw.network_interface[inp].receive_frame(f)
                outs, cur["outs"] = cur["outs"], None
                tbl = [{"mac": RMAC.get(m, m), "port": int(pt.port_num)} for m, pt in sw.mac_address_table.items() if m in RMAC]
                tr["ev"].append({"ev": "Receive", "src": src, "dst": dst, "inp": inp, "outs": sorted(outs), "port": 0, "en": False, "tbl": tbl})
            elif st["action"] == "MSetPort":
                port, e = int(p[0]), p[1] == "TRUE"
                game.simulation.apply_request(["network", "node", "sw", "network_interface", port, "enable" if e else "disable"])
                if bool(sw.network_interface[port].enabled) != e:
                    continue
                tr["ev"].append({"ev": "SetPort", "src": "", "dst": "", "inp": 0, "outs": [], "port": port, "en": e, "tbl": []})
            tr["stimulus"].append([st["action"]] + p)
        traces.append(tr)
        chk.add_case(tr["stimulus"])
    res = tlc.validate("SwitchTrace", traces)
    common.judge_traces(chk, "Switch", traces, res, lambda t, e, s: {"ev": e.get("ev")}, selftest="SwitchTrace")
    chk.sample(traces[0]["ev"][:4])
    return chk.finish()
