"""C14 - visible health changes only by scanning; fixes and scans take their set time.

Model: spec/Health.tla (MC_Health.tla with the Sw / Fs / Os / combined / liveness configurations).
Binding: TLC behaviours of the model are replayed on a real host (p2p network; database service, web server or
database client as the software; a folder with two files) through the request API, SQL queries from a database
client, connections, node power requests with 0 power durations, and ticks; every write to the four health
fields is attributed to the enclosing request / tick phase by harness/rec_health.py; TLC validates the
histories against HealthTrace.tla.  Scenario scale: the shipped data_manipulation scenario is driven with
seeded random actions, one trace per software and per folder of every node, same recorder, same trace spec.
"""
from __future__ import annotations

import copy
import random
from concurrent.futures import ThreadPoolExecutor
from typing import Any, Dict, List

from . import common, scenarios, tlc
from .rec_health import REC, Track

PROP = "C14"
VARIANTS = ["db", "web", "app", "db-nobackup", "web-db"]
MC_ACTIONS = {
    "MC_HealthSw.cfg": ["MSwCompromise", "MSwFix", "MSwScan", "MSwStart", "MSwConnect", "MSwInstall", "MPowerOff", "MPowerOn",
                        "MFixDone", "MInstallDone", "MOsScanAny", "OsScanDone", "TickBegin", "TickEnd"],
    "MC_HealthFs.cfg": ["MFileScan", "MFileCorrupt", "MFileRepair", "MFileRestore", "MSqlDelete", "MSqlEncrypt",
                        "MFolderCorrupt", "MFolderRepair", "MFolderScanAny", "MFolderRestoreAny", "MFoScanDone",
                        "MRestoreDone", "MPowerOff", "MPowerOn", "OsScanDone", "TickBegin", "TickEnd"],
    "MC_HealthOs.cfg": ["MOsScanAny", "OsScanDone", "MFoScanDone", "MRestoreDone", "TickBegin", "TickEnd"],
    "MC_Health.cfg": ["MSwFix", "MFixDone", "MSqlDelete", "MSqlEncrypt", "MFileScan", "MOsScanAny", "OsScanDone"],
    "MC_HealthLive.cfg": ["MSwFix", "MFixDone", "OsScanDone", "TickEnd"],
    "MC_HealthLiveFs.cfg": ["MFolderScanAny", "MFolderRestoreAny", "MFoScanDone", "MRestoreDone", "TickEnd"],
}
MC_LABEL = {
    "MC_HealthSw.cfg": "software x node scan, fix/node durations 0..3",
    "MC_HealthFs.cfg": "folder + 2 files, scan x restore durations 0..3",
    "MC_HealthFsQ.cfg": "folder + 2 files, scan durations 0..3 x restore {0,2}",
    "MC_HealthOs.cfg": "folder + 2 files x node scan durations 0..3",
    "MC_Health.cfg": "software + SQL-attacked file + node scan, fix 0..3, node 0..2",
    "MC_HealthLive.cfg": "liveness: fix and node scan complete while ON (durations 0..2)",
    "MC_HealthLiveFs.cfg": "liveness: folder scan / restore / node scan complete while ON (durations 0..2)",
}


# ---------------------------------------------------------------------------------------------
# host under test
# ---------------------------------------------------------------------------------------------

def build_host(variant: str, fd: int, sd: int, rd: int, nd: int, via_defaults: bool):
    cfg = scenarios.p2p()
    a, b = cfg["simulation"]["network"]["nodes"]
    a["node_scan_duration"] = nd
    if via_defaults:
        cfg["defaults"] = {"folder_scan_duration": sd, "folder_restore_duration": rd}
    if variant.startswith("db"):
        opts: Dict[str, Any] = {"fixing_duration": fd}
        if variant == "db":
            opts["backup_server_ip"] = "192.168.1.3"
        a["services"] = [{"type": "database-service", "options": opts}]
        b["services"] = [{"type": "ftp-server"}]
        b["applications"] = [{"type": "database-client", "options": {"db_server_ip": "192.168.1.2"}}]
        sw_kind, sw_name, folder, files = "service", "database-service", "database", ("database.db", "x.txt")
    elif variant == "web-db":
        # a web server whose pages come from a database on the peer; the peer's browser asks for them
        a["services"] = [{"type": "web-server", "options": {"fixing_duration": fd}}]
        a["applications"] = [{"type": "database-client", "options": {"db_server_ip": "192.168.1.3"}}]
        b["services"] = [{"type": "database-service"}]
        b["applications"] = [{"type": "web-browser", "options": {"target_url": "http://192.168.1.2/users"}}]
        sw_kind, sw_name, folder, files = "service", "web-server", "vf", ("a.txt", "b.txt")
    elif variant == "web":
        a["services"] = [{"type": "web-server", "options": {"fixing_duration": fd}}]
        sw_kind, sw_name, folder, files = "service", "web-server", "vf", ("a.txt", "b.txt")
    else:
        a["applications"] = [{"type": "database-client", "options": {"fixing_duration": fd, "db_server_ip": "192.168.1.3"}}]
        # (files of an unknown type have size 0: the folder holds files, yet its size is 0)
        sw_kind, sw_name, folder, files = "application", "database-client", "vf", ("key", "x.qq9")
    if via_defaults and folder == "vf":
        # the folder is DECLARED for the node: it exists when the defaults block is applied (folders made later take the
        # file system's default; both kinds must end up with the stated durations, 0 included)
        a["folders"] = [{"folder_name": folder}]
    game = scenarios.build(cfg)
    sim = game.simulation
    node = sim.network.get_node_by_hostname("a")
    peer = sim.network.get_node_by_hostname("b")
    fs = node.file_system
    if not via_defaults:
        fs._default_folder_scan_duration, fs._default_folder_restore_duration = sd, rd
        for fo in fs.folders.values():
            fo.scan_duration, fo.restore_duration = sd, rd
    base = ["network", "node", "a", "file_system"]
    for f in files:
        if fs.get_file(folder, f) is None:
            sim.apply_request(base + ["create", "file", folder, f, False])
    sw = node.software_manager.software[sw_name]
    sw.max_sessions = 2
    client = None
    if variant.startswith("db"):
        client = peer.software_manager.software["database-client"]
        client.connect()
    browser = peer.software_manager.software.get("web-browser") if variant == "web-db" else None
    return {"game": game, "sim": sim, "node": node, "peer": peer, "sw": sw, "browser": browser, "sw_kind": sw_kind, "sw_name": sw_name,
            "folder": folder, "files": files, "client": client}


def run_behaviour(beh, variant: str, durs, via_defaults: bool, rng: random.Random) -> Dict[str, Any]:
    fd, sd, rd, nd = durs
    REC.detach_all()
    h = build_host(variant, fd, sd, rd, nd, via_defaults)
    game, sim, sw = h["game"], h["sim"], h["sw"]
    # one tick before the trace starts (step 1 of a database service takes its backup)
    game.pre_timestep()
    game.advance_timestep()
    tr = Track(h["node"], sw=sw, folder=h["folder"], files=h["files"],
               meta={"scale": "host", "variant": variant, "via_defaults": via_defaults},
               declared={"fix": fd, "scan": sd, "rest": rd, "node": nd} if via_defaults else None)
    REC.attach(tr)
    ops: List[Any] = []
    node_p = ["network", "node", "a"]
    swp = node_p + [h["sw_kind"], h["sw_name"]]
    fop = node_p + ["file_system", "folder", h["folder"]]
    nconn = [0]

    def req(path):
        ops.append(path)
        return sim.apply_request(list(path))

    def sql(q, name):
        ops.append(["sql", q])
        if h["client"] is None:
            return req(fop + ["file", h["files"][0], "corrupt"])
        with REC.stim(name, 1) as s:
            s.ok = bool(h["client"].query(q))

    def file_req(i, op):
        f = h["files"][i - 1]
        if op == "restore" and rng.random() < 0.5:
            return req(node_p + ["file_system", "restore", "file", h["folder"], f])
        return req(fop + ["file", f, op])

    try:
        for stp in beh[1:]:
            a = stp["state"].get("act", "")      # the model names its last action
            arg = stp["params"].split(",")[0].strip().strip('"') if stp["params"] else ""
            if a == "SwCompromise":
                req(swp + ["compromise"])
            elif a == "SwFix":
                req(swp + ["fix"])
            elif a == "SwScan":
                req(swp + ["scan"])
            elif a == "SwConnect":
                ops.append(["connect"])
                with REC.stim("SwConnect") as s:
                    overwhelmed = sw.health_state_actual.name == "OVERWHELMED"
                    if sw._connections and (rng.random() < 0.3 or (overwhelmed and rng.random() < 0.6)):
                        sw.terminate_connection(next(iter(sw._connections)), send_disconnect=False)
                        if not overwhelmed:
                            continue_connect = False
                        else:
                            continue_connect = True     # room again: the next connection lets the software recover
                    else:
                        continue_connect = True
                    if continue_connect:
                        nconn[0] += 1
                        s.ok = bool(sw.add_connection(f"verif-{nconn[0]}"))
            elif a in ("FileScan", "FileCorrupt", "FileRepair", "FileRestore"):
                file_req(int(arg) if arg in ("1", "2") else rng.choice([1, 2]), a[4:].lower())
            elif a == "SqlDelete":
                sql("DELETE", "SqlDelete")
            elif a == "SqlEncrypt":
                sql("ENCRYPT", "SqlEncrypt")
            elif a == "FolderCorrupt":
                req(fop + ["corrupt"])
            elif a == "FolderRepair":
                req(fop + ["repair"])
            elif a == "FolderScanReq":
                req(fop + ["scan"])
            elif a == "FolderRestoreReq":
                req(fop + ["restore"] if rng.random() < 0.5 else node_p + ["file_system", "restore", "folder", h["folder"]])
            elif a == "OsScanReq":
                req(node_p + ["os", "scan"])
            elif a == "PowerOff":
                req(node_p + ["shutdown"])
            elif a == "PowerOn":
                req(node_p + ["startup"])
            elif a == "TickBegin":
                ops.append("tick")
                game.pre_timestep()
                game.advance_timestep()
            else:
                continue            # tick phases / TickEnd belong to the tick; start / install have no request
            # deleting and restoring the second file is not part of the model: interleave it here
            if a != "TickBegin" and rng.random() < 0.04:
                req(node_p + ["file_system", "delete", "file", h["folder"], h["files"][1]])
            if a != "TickBegin" and variant == "db" and rng.random() < 0.05:
                # the database file itself is deleted now and then (the next restore of the backup brings a new one, which
                # continues the visible health last seen for the database file)
                req(node_p + ["file_system", "delete", "file", h["folder"], h["files"][0]])
            if h["browser"] is not None and a != "TickBegin":
                # benign activity that is not in the model: a user asks the web server for a page; the database
                # behind it is sometimes stopped / started
                if rng.random() < 0.3:
                    ops.append(["page"])
                    with REC.stim("Other") as s:
                        s.ok = bool(h["browser"].get_webpage())
                if rng.random() < 0.12:
                    dbs = h["peer"].software_manager.software["database-service"]
                    req(["network", "node", "b", "service", "database-service",
                         "stop" if dbs.operating_state.name == "RUNNING" else "start"])
            if tr.ev and tr.ev[-1]["ev"] == "Raised":
                break
    except Exception as e:  # noqa - an exception out of repository code is an event no module allows
        if not (tr.ev and tr.ev[-1]["ev"] == "Raised"):
            tr.emit("Raised", tr.project(), 0, False, [])
        tr.meta["exception"] = repr(e)
    REC.detach_all()
    return tr.trace({"variant": variant, "durations": {"fix": fd, "scan": sd, "rest": rd, "node": nd},
                     "via_defaults": via_defaults, "ops": ops})


# ---------------------------------------------------------------------------------------------
# scenario scale
# ---------------------------------------------------------------------------------------------

def scenario_traces(name: str, steps: int, seed: int) -> List[Dict[str, Any]]:
    from primaite.session.environment import PrimaiteGymEnv

    REC.detach_all()
    cfg = copy.deepcopy(scenarios.shipped(name))
    cfg.setdefault("io_settings", {}).update({"save_agent_actions": False, "save_step_metadata": False, "save_pcap_logs": False,
                                              "save_sys_logs": False, "save_agent_logs": False})
    env = PrimaiteGymEnv(env_config=cfg)
    env.reset(seed=seed)
    env.action_space.seed(seed)
    tracks: List[Track] = []
    for node in env.game.simulation.network.nodes.values():
        host = node.config.hostname
        sm = getattr(node, "software_manager", None)
        for sname, sw in (sm.software.items() if sm is not None else []):
            tracks.append(Track(node, sw=sw, meta={"scale": name, "item": f"{host}/{sname}", "kind": "software"}))
        fs = getattr(node, "file_system", None)
        for fo in (fs.folders.values() if fs is not None else []):
            names = [f.name for f in fo.files.values()] or [None]
            for k in range(0, len(names), 2):
                pair = (names[k], names[k + 1] if k + 1 < len(names) else None)
                tracks.append(Track(node, folder=fo.name, files=pair,
                                    meta={"scale": name, "item": f"{host}/{fo.name}/{pair[0]},{pair[1]}", "kind": "folder"}))
    for t in tracks:
        REC.attach(t)
    acts = []
    err = None
    try:
        for _ in range(steps):
            a = env.action_space.sample()
            acts.append(int(a))
            _, _, term, trunc, _ = env.step(a)
            if term or trunc:
                break
    except Exception as e:  # noqa
        err = repr(e)
    REC.detach_all()
    out = []
    for t in tracks:
        if err:
            t.meta["episode_exception"] = err
        out.append(t.trace({"scenario": name, "seed": seed, "actions": acts}))
    try:
        env.close()
    except Exception:  # noqa
        pass
    return out


def tour_traces(facet: str, seed: int, chk, level: str = "coarse") -> List[Dict[str, Any]]:
    """Transition tour of spec/Lifecycle.tla (every operation at every reachable power x component state) through the
    environment, every software item and folder of the target node followed by a Track."""
    from primaite.session.environment import PrimaiteGymEnv

    from . import tour

    g = tour.graph(facet)
    eps, st = tour.tour(g, random.Random(seed), episode_len=300, level=level)
    chk.add_mc(f"Lifecycle({facet})", g["tlc"])
    chk.cov[f"tour_{facet}"] = st
    cfg, idx = tour.scenario(facet)
    cfg.setdefault("io_settings", {}).update({"save_agent_actions": False, "save_step_metadata": False, "save_pcap_logs": False,
                                              "save_sys_logs": False, "save_agent_logs": False})
    env = PrimaiteGymEnv(env_config=cfg)
    out: List[Dict[str, Any]] = []
    tnode = tour.TARGET[facet][0]
    follow = {"svc": ("dns-server", "database-service", "web-server"), "app": ("web-browser", "database-client")}[facet]
    for ei, ep in enumerate(eps):
        REC.detach_all()
        env.reset(seed=seed + ei)
        node = env.game.simulation.network.get_node_by_hostname(tnode)
        live: Dict[str, Track] = {}
        finished: List[Track] = []

        def rebind():
            # a track follows one software OBJECT: an uninstalled item's track ends, a newly installed one gets its own
            for name in follow:
                sw = node.software_manager.software.get(name)
                tr = live.get(name)
                if tr is not None and tr.sw is not sw:
                    REC.tracks.remove(tr)
                    REC.by_sw.get(id(tr.sw), [tr]).remove(tr) if tr in REC.by_sw.get(id(tr.sw), []) else None
                    finished.append(live.pop(name))
                    tr = None
                if tr is None and sw is not None:
                    live[name] = Track(node, sw=sw, meta={"scale": f"tour:{facet}", "item": f"{tnode}/{name}", "kind": "software"})
                    REC.attach(live[name])

        rebind()
        ftracks = []
        for fo in node.file_system.folders.values():
            if fo.name not in ("database", "downloads"):
                continue
            names = [f.name for f in fo.files.values()] or [None]
            ftracks.append(Track(node, folder=fo.name, files=(names[0], names[1] if len(names) > 1 else None),
                                 meta={"scale": f"tour:{facet}", "item": f"{tnode}/{fo.name}/{names[0]}", "kind": "folder"}))
        for t in ftracks:
            REC.attach(t)
        err = None
        done = []
        try:
            for a in ep:
                if a == "red-compromise":
                    tour.compromise(env.game, facet)
                done.append(a)
                if a == "node-application-remove" and node.operating_state.name == "ON":
                    # an uninstalled item gets no more ticks: its track ends BEFORE the step that removes it (a node that is
                    # not ON refuses the removal: the track goes on)
                    name = tour.TARGET[facet][1]
                    tr = live.pop(name, None)
                    if tr is not None:
                        REC.tracks.remove(tr)
                        if tr in REC.by_sw.get(id(tr.sw), []):
                            REC.by_sw[id(tr.sw)].remove(tr)
                        finished.append(tr)
                env.step(idx[a])
                rebind()
        except Exception as e:  # noqa
            err = repr(e)
        REC.detach_all()
        for t in finished + list(live.values()) + ftracks:
            if err:
                t.meta["episode_exception"] = err
            if len(t.ev) >= 2:
                out.append(t.trace({"scenario": f"tour:{facet}", "episode": ei, "actions": done}))
    try:
        env.close()
    except Exception:  # noqa
        pass
    return out


# ---------------------------------------------------------------------------------------------

PRIORITY = ["NoError", "KnownEvent", "NoStrayWrites", "SwActualOnlyByEvent", "FileHealthOnlyByEvent", "SwVisibleOnlyByScan",
            "FileVisibleOnlyByScan", "FolderVisibleOnlyByScan", "SwVisibleEqualsTrue", "FileVisibleEqualsTrue", "ScanShowsTruth",
            "WritesAccounted", "RefusedChangesNothing", "InstantOnlyAtZero", "FixExactly", "FixNotOverdue", "FolderScanInWindow",
            "FolderScanNotOverdue", "RestoreInWindow", "RestoreNotOverdue", "RestoreRestores", "OsScanInWindow", "OsScanNotOverdue"]


def sig_fn(tr, event, stuck):
    c = tr["cfg"]
    meta = tr["meta"]
    sig: Dict[str, Any] = {"scale": "host" if meta.get("scale") == "host" else "scenario"}
    ev = event.get("ev")
    st = (stuck or {}).get("st") or {}
    allf = list((stuck or {}).get("fail") or [])
    # one canonical clause per rejected trace (all failing clauses are in the replay file): the first in PRIORITY
    first = sorted(allf, key=lambda x: PRIORITY.index(x) if x in PRIORITY else 99)[:1]
    fails = set(first)
    if first:
        sig["clause"] = first[0]
    # the configured duration the failing clause is about
    if fails & {"FolderScanNotOverdue", "FolderScanInWindow"} or (not fails and ev in ("FolderScanReq", "FoScanDone")):
        sig["scan_duration_zero"] = c["scan"] == 0
    if fails & {"RestoreNotOverdue", "RestoreInWindow", "RestoreRestores"} or (not fails and ev in ("FolderRestoreReq", "RestoreDone")):
        sig["restore_duration_zero"] = c["rest"] == 0
    if fails & {"OsScanNotOverdue", "OsScanInWindow"} or (not fails and ev in ("OsScanReq", "OsScanDone")):
        sig["node_scan_duration_zero"] = c["node"] == 0
    if fails & {"FixExactly", "FixNotOverdue"} or (not fails and ev in ("FixDone", "SwFix")):
        sig["fix_duration"] = c["fix"]
    if ev in ("Raised", "Other") or not fails:
        # which item, and inside what
        item = meta.get("item", "")
        sig["item"] = meta.get("variant") or (item.split("/")[1] if meta.get("kind") == "software" and "/" in item else meta.get("kind"))
        sig["context"] = "/".join(str(event.get("ctx", "")).split("/")[-2:])
        sig["written"] = ",".join(event.get("wr", []))
    if ev == "Raised":
        sig["exception"] = (meta.get("exception") or meta.get("episode_exception") or "")[:60]
        sig["after"] = tr["ev"][-2]["ev"] if len(tr["ev"]) > 1 else ""
    return sig


def situations(traces, res) -> Dict[str, Any]:
    """What the accepted parts of the implementation traces went through (evidence only)."""
    sit = {"compromise_during_fix": 0, "overwhelmed": 0, "recovered_from_overwhelmed": 0, "scan_request_while_scanning": 0,
           "power_off_with_operation_pending": 0, "fix_done_repairs_file": 0, "node_scan_and_fix_done_in_one_tick": 0,
           "drift_node_scan_leaves_folder_visible_unlike_worst_file": 0}
    rank = {"NONE": 0, "GOOD": 1, "COMPROMISED": 2, "CORRUPT": 3, "RESTORING": 4, "REPAIRING": 5}
    when: Dict[str, Dict[str, int]] = {}
    for tr, (reached, length) in zip(traces, res["results"]):
        c = tr["cfg"]
        prev = {"a": c["a"], "fh": c["fh"]}
        pend = {"scan": None, "rest": None, "os": None, "fix": None}     # ticks (ON) since the request
        on = True
        tick_phases: List[str] = []
        for e in tr["ev"][: max(0, reached - 1)]:
            ev = e["ev"]
            if ev == "SwCompromise" and prev["a"] == "FIXING" and e["a"] == "COMPROMISED":
                sit["compromise_during_fix"] += 1
            if e["a"] == "OVERWHELMED" and prev["a"] != "OVERWHELMED":
                sit["overwhelmed"] += 1
            if prev["a"] == "OVERWHELMED" and e["a"] == "GOOD":
                sit["recovered_from_overwhelmed"] += 1
            if ev == "FolderScanReq" and e["ok"] and pend["scan"] is not None:
                sit["scan_request_while_scanning"] += 1
            if ev == "PowerOff" and any(v is not None for v in pend.values()):
                sit["power_off_with_operation_pending"] += 1
            if ev == "FixDone" and e["fh"] != prev["fh"]:
                sit["fix_done_repairs_file"] += 1
            if ev == "OsScanDone" and any(e["lv"]):
                worst = max((h for h, l in zip(e["fh"], e["lv"]) if l), key=lambda h: rank[h])
                if e["fov"] != worst:
                    sit["drift_node_scan_leaves_folder_visible_unlike_worst_file"] += 1
            if ev == "TickBegin":
                tick_phases = []
            if ev in ("OsScanDone", "FixDone", "FoScanDone", "RestoreDone"):
                tick_phases.append(ev)
                if "OsScanDone" in tick_phases and "FixDone" in tick_phases and ev in ("OsScanDone", "FixDone"):
                    sit["node_scan_and_fix_done_in_one_tick"] += 1
            # timing drift: on which tick (counted while ON, from the request that started the clock) did it complete
            for kind, rq, dn, dur in (("scan", "FolderScanReq", "FoScanDone", c["scan"]), ("rest", "FolderRestoreReq", "RestoreDone", c["rest"]),
                                      ("os", "OsScanReq", "OsScanDone", c["node"]), ("fix", "SwFix", "FixDone", c["fix"])):
                if ev == rq and e["ok"] and (pend[kind] is None or kind in ("os", "fix")):
                    pend[kind] = 0
                if ev == dn and pend[kind] is not None:
                    k = f"{kind}: duration {dur} -> tick {pend[kind] + 1}"
                    when.setdefault(kind, {})[k] = when.setdefault(kind, {}).get(k, 0) + 1
                    pend[kind] = None
            if ev == "SwCompromise" and e["a"] == "COMPROMISED":
                pend["fix"] = None
            if ev in ("PowerOff", "PowerOn"):
                on = e["on"]
            if ev == "TickEnd" and e["on"]:
                for kind in pend:
                    if pend[kind] is not None:
                        pend[kind] += 1
            prev = {"a": e["a"], "fh": e["fh"]}
    return {"situations": sit, "completion_tick_by_duration (drift report, DESIGN 5.2)": when}


# events that the implementation traces must contain for the binding not to be vacuous (thorough tier)
REQUIRED_EVENTS = ["SwCompromise", "SwFix", "SwScan", "SwConnect", "FileScan", "FileCorrupt", "FileRepair", "FileRestore",
                   "FolderScanReq", "FolderRestoreReq", "FolderCorrupt", "FolderRepair", "OsScanReq", "SqlDelete", "SqlEncrypt",
                   "PowerOff", "PowerOn", "TickBegin", "OsScanDone", "FixDone", "FoScanDone", "RestoreDone", "TickEnd", "Other"]


def main(tier: str, seed: int) -> int:
    chk = common.Check(PROP, "model_checking", tier, seed)
    rng = random.Random(seed)
    quick = tier == "quick"
    # ---- 1. exhaustive model checking ------------------------------------------------------------
    cfgs = ["MC_HealthSw.cfg", "MC_HealthFsQ.cfg" if quick else "MC_HealthFs.cfg", "MC_HealthOs.cfg", "MC_Health.cfg",
            "MC_HealthLive.cfg", "MC_HealthLiveFs.cfg"]

    def run_mc(c):
        return c, tlc.mc("MC_Health", c, workers=8, timeout=1500)

    with ThreadPoolExecutor(max_workers=3) as ex:
        results = list(ex.map(run_mc, cfgs))
    for c, r in results:
        if not r["ok"]:
            chk.violation({"module": "MC_Health", "cfg": c, "clause": str(r["violation"])}, {"tlc": r["output_tail"]})
        chk.add_mc(f"MC_Health/{c} ({MC_LABEL[c]})", r)
        for act in MC_ACTIONS["MC_HealthFs.cfg" if c == "MC_HealthFsQ.cfg" else c]:
            if r["coverage"].get(act, (0, 0))[1] == 0:
                raise tlc.TLCError(f"vacuous model: action {act} never taken in {c}")
    # ---- 2. spec -> code -> spec on a real host -----------------------------------------------------
    nbeh = 160 if quick else 1600
    behs, info = tlc.simulate("MC_Health", "Sim_Health.cfg", num=nbeh, depth=40 if quick else 60, seed=seed + 14)
    chk.cov["transitions"] += info["states"]
    common.boot()
    REC.install()
    traces = []
    for k, beh in enumerate(behs):
        s0 = beh[0]["state"]
        durs = (s0["fixDur"], s0["scanDur"], s0["restDur"], s0["nodeDur"])
        variant = VARIANTS[k % len(VARIANTS)] if k % 8 != 7 else "db"
        runs = [durs]
        if 0 in durs[1:] and (not quick or k % 2 == 0):
            # the same stimulus without zero scan / restore durations, so that one divergence does not hide the rest
            runs.append((durs[0],) + tuple(d if d else 2 for d in durs[1:]))
        for d in runs:
            tr = run_behaviour(beh, variant, d, via_defaults=(k % 2 == 0), rng=rng)
            traces.append(tr)
            chk.add_case({"variant": variant, "durs": d, "ops": tr["stimulus"]["ops"]},
                         nontrivial=any(e["ev"] in ("FixDone", "FoScanDone", "OsScanDone", "RestoreDone") for e in tr["ev"]))
    res = tlc.validate("HealthTrace", traces, chunk=60)
    common.judge_traces(chk, "Health", traces, res, sig_fn, label="host")
    # ---- 3. scenario scale ---------------------------------------------------------------------------
    runs = [("data_manipulation.yaml", 40, seed + 1)] if quick else \
        [("data_manipulation.yaml", 128, seed + j) for j in range(1, 5)]
    straces: List[Dict[str, Any]] = []
    for name, steps, sd in runs:
        straces += scenario_traces(name, steps, sd)
    for facet in ("svc", "app"):
        straces += tour_traces(facet, seed, chk, "coarse" if quick else "exact")
    sres = tlc.validate("HealthTrace", straces, chunk=40)
    common.judge_traces(chk, "Health", straces, sres, sig_fn, label="scenario")
    # ---- evidence ---------------------------------------------------------------------------------------
    missing = [e for e in REQUIRED_EVENTS if not chk.cov.get("impl_events", {}).get(e)]
    if missing and not quick:
        raise tlc.TLCError(f"vacuous binding: no accepted implementation event of kind {missing}")
    chk.cov["host"] = situations(traces, res)
    chk.cov["scenario"] = situations(straces, sres)
    drift: Dict[str, int] = {}
    for tr in traces + straces:
        for kx, v in (tr["meta"].get("drift") or {}).items():
            drift[kx] = drift.get(kx, 0) + v
    chk.cov["drift"] = {
        "folder_true_health_writes (outside the statement: folders' true health is not constrained)": drift,
    }
    chk.cov["host_traces"] = len(traces)
    chk.cov["scenario_traces"] = len(straces)
    for tr in traces[:2]:
        chk.sample({"cfg": tr["cfg"], "meta": tr["meta"], "events": [(e["ev"], e["a"], e["v"], e["fh"], e["fv"]) for e in tr["ev"][:14]]})
    busy = [t for t in straces if any(e["wr"] for e in t["ev"])]
    for tr in busy[:2]:
        chk.sample({"item": tr["meta"].get("item"), "events_with_writes": [(e["ev"], e["wr"]) for e in tr["ev"] if e["wr"]][:8]})
    chk.assumptions += [
        "software fix is pinned to complete on tick max(d,1) counted in ticks that reach the node while it is ON; folder scan, "
        "folder restore and node scan may complete on tick d or d+1 (inside the request or on tick 1 for d = 0)",
        "the order of the completion phases inside one tick is free; 'true health at that moment' is the value when the phase runs",
        "an overlapping scan / restore request may be merged into the running one or restart it",
        "the statement does not constrain a folder's true health nor the value of its visible health; only when it changes",
        "tick phases are recognised by the code's own methods (Software.apply_timestep, Folder._scan_timestep, "
        "Folder._restoring_timestep, Software.scan / FileSystem.scan called from the tick); a folder restore that has nothing "
        "to write is marked from restore_countdown reaching 0",
        "files are followed by (folder name, file name); node power durations are 0 in the host runs",
        "SwStart (UNUSED -> GOOD), SwInstall / InstallDone are model actions without a host stimulus (software is started when "
        "the scenario is built); they are matched only if a scenario-scale run produces them",
    ]
    return chk.finish()
