"""Extension (beyond the listed properties): the command-and-control suite (C2 beacon, C2 server, C2 packet)
against spec/C2.tla.

Spec -> code: TLC -simulate behaviours of MC_C2 (MC_C2Sim.cfg) and a few directed sequences are replayed as
stimulus on two real hosts either side of a real router (beacon host `a', server host `b', router `r' whose ACL
blocks either direction): configure / execute / the four C2 server command requests / close through
``game.simulation.apply_request``, host power through the node requests, whole game timesteps.
Code -> spec: wrappers on the C2 classes (never editing /repo) emit one event per action of the module - the
request / timestep of each application, every payload handler, every dropped payload, the beacon's check after
its periodic keep alive, the status of each request - with the state of both applications, both hosts and the
ACL projected from the real objects; TLC validates the histories against C2Trace.tla.
Scenario scale: the shipped UC7 scenario is stepped with its TAP001 attacker (which installs, configures and
executes the beacon and then drives the C2 server) and a blue agent that takes random actions on the infected
host and the ACLs; the same recorder projects the run onto the beacon / server pair (path not under control:
``pathKnown`` FALSE).
Run: ./check EXT-c2"""
from __future__ import annotations

import copy
import random
from typing import Any, Dict, List, Optional

from . import common, scenarios, tlc, tracer

CHECK = "EXT-c2"
BIP, SIP = "192.168.1.2", "192.168.2.2"
TOP = ("Configure", "Establish", "Command", "Tick", "Acl", "Power", "Close")
ALL_EVENTS = ("Configure", "Establish", "Command", "Return", "SrvKA", "BcnKA", "BcnInput", "SrvOutput", "Drop",
              "BcnTick", "BcnConfirm", "SrvTick", "Acl", "Power", "Close", "Env")
MC_ACTIONS = ("MConfigure", "MEstablish", "MCommand", "MAcl", "MPower", "MClose", "MTickBegin", "MBcnTick", "MSrvTick",
              "MSrvKA", "MBcnKA", "MBcnInput", "MSrvOutput", "MDrop", "MBcnConfirm", "MReturn")
CMD_OPTS = {
    "ransomware_configure": {"server_ip_address": SIP, "payload": "ENCRYPT"},
    "ransomware_launch": None,
    "terminal_command": {"commands": [["file_system", "create", "folder", "c2_made"]], "ip_address": None,
                         "username": "admin", "password": "admin"},
    "exfiltrate": {"username": "admin", "password": "admin", "target_ip_address": SIP, "target_file_name": "database.db",
                   "target_folder_name": "database", "exfiltration_folder_name": "exfil"},
}
BLANK = {"f": 0, "port": 0, "proto": "", "cmd": "", "ran": "", "status": "", "sent": False, "ok": False, "who": "",
         "flag": False, "wport": 0, "wproto": ""}
ENV_KEYS = ("bOn", "sOn", "bRun", "sRun", "blkBS", "blkSB")


# ---------------------------------------------------------------------------------------
# recorder
# ---------------------------------------------------------------------------------------


class Recorder:
    """One event per action of C2.tla, emitted by wrappers around the real C2 classes.

    A stimulus or handler that sends a payload is reported with the state it left *before* the payload travelled
    (the network is synchronous: the peer's handler runs inside the sender's ``send``), so the events come in the
    order of the protocol: sender, receiver, receiver's answer, ..., and last what the stimulus did after the exchange."""

    def __init__(self):
        self.on = False
        self.installed = False

    # -- set-up -------------------------------------------------------------------------
    def install(self):
        if self.installed:
            return
        from primaite.simulator.network.hardware.base import WiredNetworkInterface
        from primaite.simulator.network.protocols.masquerade import C2Packet
        from primaite.simulator.system.applications.red_applications.c2.abstract_c2 import AbstractC2, C2Command, C2Payload
        from primaite.simulator.system.applications.red_applications.c2.c2_beacon import C2Beacon
        from primaite.simulator.system.applications.red_applications.c2.c2_server import C2Server

        self.C2Packet, self.C2Payload = C2Packet, C2Payload
        self.cmd_name = {C2Command.RANSOMWARE_CONFIGURE: "ransomware_configure", C2Command.RANSOMWARE_LAUNCH: "ransomware_launch",
                         C2Command.TERMINAL: "terminal_command", C2Command.DATA_EXFILTRATION: "exfiltrate"}
        tracer.wrap(AbstractC2, "send", before=self._send_before, after=self._send_after)
        tracer.wrap(AbstractC2, "receive", before=self._recv_before, after=self._recv_after)
        tracer.wrap(AbstractC2, "apply_timestep", before=self._tick_before, after=self._tick_after)
        tracer.wrap(C2Beacon, "configure", before=self._configure_before, after=self._request_after)
        tracer.wrap(C2Beacon, "establish", before=self._establish_before, after=self._request_after)
        tracer.wrap(C2Server, "send_command", before=self._command_before, after=self._request_after)
        for meth, name in (("_command_ransomware_config", "ransomware_configure"), ("_command_ransomware_launch", "ransomware_launch"),
                           ("_command_terminal", "terminal_command"), ("_command_data_exfiltration", "exfiltrate")):
            tracer.wrap(C2Beacon, meth, before=self._ran(name))
        tracer.wrap(WiredNetworkInterface, "send_frame", before=self._frame_before)
        self.installed = True

    def start(self, network, bhost: str, shost: str, router: Optional[str], path_known: bool):
        self.net, self.bhost, self.shost, self.router = network, bhost, shost, router
        self.path_known = path_known
        self.ctxs: List[Dict[str, Any]] = []
        self.sends: List[Dict[str, Any]] = []
        self.segments: List[Dict[str, Any]] = []
        self.stopped = False
        self._new_segment()
        self.on = True

    def stop(self) -> List[Dict[str, Any]]:
        self.on = False
        return [s for s in self.segments if s["ev"]]

    def _new_segment(self):
        p = self.proj()
        self.bid = id(self._app(self.bhost, "c2-beacon")) if self._app(self.bhost, "c2-beacon") is not None else None
        self.ev: List[Dict[str, Any]] = []
        self.segments.append({"cfg": {"pathKnown": self.path_known, "env": {k: p[k] for k in ENV_KEYS},
                                      "bcn": self._b(p), "srv": self._s(p)}, "ev": self.ev})
        self.last_env = {k: p[k] for k in ENV_KEYS}

    @staticmethod
    def _b(p):
        return {"addr": p["bAddr"], "freq": p["bFreq"], "port": p["bPort"], "proto": p["bProto"], "act": p["bAct"],
                "inact": p["bInact"], "att": p["bAtt"], "sport": p["bSPort"], "sproto": p["bSProto"]}

    @staticmethod
    def _s(p):
        return {"remote": p["sRemote"], "freq": p["sFreq"], "port": p["sPort"], "proto": p["sProto"], "act": p["sAct"],
                "inact": p["sInact"], "sport": p["sSPort"], "sproto": p["sSProto"]}

    # -- projection ----------------------------------------------------------------------
    def _node(self, host):
        return self.net.get_node_by_hostname(host)

    def _app(self, host, name):
        n = self._node(host)
        return n.software_manager.software.get(name) if n is not None else None

    def role(self, app) -> Optional[str]:
        try:
            host = app.software_manager.node.config.hostname
        except Exception:  # noqa
            return None
        if app.name == "c2-beacon" and host == self.bhost:
            return "B"
        if app.name == "c2-server" and host == self.shost:
            return "S"
        return None

    def proj(self) -> Dict[str, Any]:
        out: Dict[str, Any] = {}
        for pre, host, name in (("b", self.bhost, "c2-beacon"), ("s", self.shost, "c2-server")):
            node = self._node(host)
            app = self._app(host, name)
            on = node is not None and node.operating_state.name == "ON"
            out[pre + "On"] = on
            out[pre + "Run"] = bool(on and app is not None and app.operating_state.name == "RUNNING")
            known = app is not None and app.c2_remote_connection is not None
            out["bAddr" if pre == "b" else "sRemote"] = bool(known)
            out[pre + "Freq"] = int(app.config.keep_alive_frequency) if app is not None else 5
            out[pre + "Port"] = int(app.config.masquerade_port) if app is not None else 80
            out[pre + "Proto"] = str(app.config.masquerade_protocol).lower() if app is not None else "tcp"
            out[pre + "Act"] = bool(app.c2_connection_active) if app is not None else False
            out[pre + "Inact"] = int(app.keep_alive_inactivity) if app is not None else 0
            sess = app.c2_session if app is not None else None  # the transport session the connection travels in
            out[pre + "SPort"] = int(sess.dst_port) if sess is not None and sess.dst_port is not None else 0
            out[pre + "SProto"] = str(sess.protocol).lower() if sess is not None else ""
        b = self._app(self.bhost, "c2-beacon")
        out["bAtt"] = bool(b.keep_alive_attempted) if b is not None else False
        out["blkBS"], out["blkSB"] = False, False
        if self.router:
            acl = self._node(self.router).acl.acl
            out["blkBS"] = acl[0] is not None and acl[0].action.name == "DENY" and str(acl[0].src_ip_address) == BIP
            out["blkSB"] = acl[1] is not None and acl[1].action.name == "DENY" and str(acl[1].src_ip_address) == SIP
        return out

    # -- emission -------------------------------------------------------------------------
    def emit(self, name: str, snap: Optional[Dict[str, Any]] = None, **fields):
        if self.stopped:
            return
        e = {"ev": name}
        e.update(BLANK)
        e.update(fields)
        e.update(snap if snap is not None else self.proj())
        self.ev.append(e)
        self.last_env = {k: e[k] for k in ENV_KEYS}
        if name == "Raised":
            self.stopped = True  # nothing after an exception is comparable

    def _emit_ctx(self, ctx, snap, sent):
        ctx["emitted"] = True
        self.emit(ctx["name"], snap, sent=bool(sent), **ctx["fields"])

    def sync_env(self):
        """Shipped scenario only: hosts / applications / the tracked beacon changed for reasons outside the C2 suite."""
        if self.path_known or self.ctxs or self.sends:
            return
        b = self._app(self.bhost, "c2-beacon")
        bid = id(b) if b is not None else None
        if self.bid is not None and bid != self.bid:
            self._new_segment()  # the beacon was removed (or replaced): a new history starts from what is there now
            return
        self.bid = bid
        p = self.proj()
        if {k: p[k] for k in ENV_KEYS} != self.last_env:
            self.emit("Env", p)

    # -- wrappers: payloads ----------------------------------------------------------------
    def _pcfg(self, payload):
        return {"f": int(payload.keep_alive_frequency), "port": int(payload.masquerade_port),
                "proto": str(payload.masquerade_protocol).lower()}

    def _send_before(self, app, payload=None, *a, **k):
        if not self.on or self.role(app) is None or not isinstance(payload, self.C2Packet):
            return None
        top = self.ctxs[-1] if self.ctxs else None
        if top is None or top["sends"] >= 1 or top["role"] != self.role(app):
            self.emit("ExtraSend", who=self.role(app))
            return None
        top["sends"] += 1
        if payload.payload_type == self.C2Payload.OUTPUT:
            top["fields"]["status"] = str(getattr(payload.payload, "status", ""))
        fr = {"ctx": top, "snap": self.proj(), "delivered": False, "wire": None, "pcfg": self._pcfg(payload),
              "to": "S" if self.role(app) == "B" else "B"}
        self.sends.append(fr)
        return fr

    def _send_after(self, app, tok, ret, exc, *a, **k):
        if tok is None:
            return
        self.sends.remove(tok)
        if not tok["delivered"]:
            self._emit_ctx(tok["ctx"], tok["snap"], bool(ret) and exc is None)
            if ret and exc is None:
                w = tok["wire"] or (0, "")
                self.emit("Drop", wport=w[0], wproto=w[1], **tok["pcfg"])

    def _frame_before(self, nic, frame=None, *a, **k):
        if self.on and self.sends and self.sends[-1]["wire"] is None and isinstance(getattr(frame, "payload", None), self.C2Packet):
            self.sends[-1]["wire"] = self._wire(frame)

    @staticmethod
    def _wire(frame):
        if frame.tcp is not None:
            return (int(frame.tcp.dst_port), "tcp")
        if frame.udp is not None:
            return (int(frame.udp.dst_port), "udp")
        return (0, str(frame.ip.protocol).lower())

    def _recv_before(self, app, payload=None, session_id=None, **kw):
        role = self.role(app) if self.on else None
        if role is None or not isinstance(payload, self.C2Packet):
            return None
        fr = self.sends[-1] if self.sends else None
        if fr is None or fr["delivered"] or fr["to"] != role:
            self.emit("Stray", who=role)  # a C2 packet from somewhere else
            return None
        fr["delivered"] = True
        self._emit_ctx(fr["ctx"], fr["snap"], True)
        frame = kw.get("frame")
        w = self._wire(frame) if frame is not None else (fr["wire"] or (0, ""))
        kind = payload.payload_type
        if kind == self.C2Payload.KEEP_ALIVE:
            name = "SrvKA" if role == "S" else "BcnKA"
        elif kind == self.C2Payload.INPUT:
            name = "BcnInput" if role == "B" else "Stray"
        elif kind == self.C2Payload.OUTPUT:
            name = "SrvOutput" if role == "S" else "Stray"
        else:
            name = "Stray"
        fields = dict(self._pcfg(payload), wport=w[0], wproto=w[1])
        if name == "BcnInput":
            fields["cmd"] = self.cmd_name.get(payload.command, str(payload.command))
        if name == "SrvOutput":
            fields["status"] = str(getattr(payload.payload, "status", ""))
        ctx = {"name": name, "fields": fields, "emitted": False, "sends": 0, "role": role}
        self.ctxs.append(ctx)
        return ctx

    def _recv_after(self, app, tok, ret, exc, *a, **k):
        if tok is None:
            return
        self.ctxs.remove(tok)
        if exc is not None:
            self.emit("Raised", who=tok["name"], status=type(exc).__name__)
        elif not tok["emitted"]:
            self._emit_ctx(tok, None, False)

    def _ran(self, name):
        def before(app, *a, **k):
            if self.on and self.role(app) == "B" and self.ctxs:
                f = self.ctxs[-1]["fields"]
                f["ran"] = name if not f.get("ran") else f["ran"] + "+" + name
        return before

    # -- wrappers: stimuli -------------------------------------------------------------------
    def _push(self, app, name, **fields):
        if not self.on or self.role(app) is None:
            return None
        self.sync_env()
        ctx = {"name": name, "fields": fields, "emitted": False, "sends": 0, "role": self.role(app)}
        self.ctxs.append(ctx)
        return ctx

    def _configure_before(self, app, *a, **k):
        from primaite.utils.validation.port import PORT_LOOKUP

        names = ("c2_server_ip_address", "keep_alive_frequency", "masquerade_protocol", "masquerade_port")
        args = dict(zip(names, a))
        args.update(k)
        port = args.get("masquerade_port", 80)
        port = 80 if port is None else (int(PORT_LOOKUP[port.upper()]) if isinstance(port, str) and not port.isdigit() else int(port))
        proto = args.get("masquerade_protocol", "tcp")
        f = args.get("keep_alive_frequency", 5)
        return self._push(app, "Configure", f=int(5 if f is None else f), port=port, proto=str(proto or "tcp").lower())

    def _establish_before(self, app, *a, **k):
        return self._push(app, "Establish")

    def _command_before(self, app, *a, **k):
        cmd = k.get("given_command", a[0] if a else None)
        return self._push(app, "Command", cmd=self.cmd_name.get(cmd, str(cmd)))

    def _request_after(self, app, tok, ret, exc, *a, **k):
        if tok is None:
            return
        self.ctxs.remove(tok)
        if exc is not None:
            self.emit("Raised", who=tok["name"], status=type(exc).__name__)
            return
        if not tok["emitted"]:
            self._emit_ctx(tok, None, False)
        ok = (str(getattr(ret, "status", "")) == "success") if tok["name"] == "Command" else bool(ret)
        self.emit("Return", ok=ok)

    def _tick_before(self, app, *a, **k):
        role = self.role(app) if self.on else None
        if role is None:
            return None
        return self._push(app, "BcnTick" if role == "B" else "SrvTick")

    def _tick_after(self, app, tok, ret, exc, *a, **k):
        if tok is None:
            return
        self.ctxs.remove(tok)
        if exc is not None:
            self.emit("Raised", who=tok["name"], status=type(exc).__name__)
        elif not tok["emitted"]:
            p = self.proj()
            now = {k: p[k] for k in ENV_KEYS}
            if not self.path_known and now != self.last_env:
                # Application.apply_timestep (called last by AbstractC2.apply_timestep) completed the installation: the
                # C2 part of the timestep ran with the application not yet RUNNING, the change is the environment's
                self._emit_ctx(tok, dict(p, **self.last_env), False)
                self.emit("Env", p)
            else:
                self._emit_ctx(tok, p, False)
        elif tok["name"] == "BcnTick":
            self.emit("BcnConfirm")  # what the beacon concluded once its keep alive had (not) been answered
        else:
            self.emit("ExtraSend", who="S")  # the server never sends from its timestep


# ---------------------------------------------------------------------------------------
# controlled traces: two hosts either side of a router
# ---------------------------------------------------------------------------------------


def two_host_cfg(beacon_first: bool, yaml_addr: bool) -> Dict[str, Any]:
    cfg = scenarios.routed(acl={10: {"action": "PERMIT"}})
    nodes = cfg["simulation"]["network"]["nodes"]
    for n in nodes:
        if n["hostname"] == "a":
            opts = {"c2_server_ip_address": SIP} if yaml_addr else {}
            n["applications"] = [{"type": "c2-beacon", "options": opts}, {"type": "ransomware-script"},
                                 {"type": "database-client", "options": {"db_server_ip": SIP}}]
        if n["hostname"] == "b":
            n["applications"] = [{"type": "c2-server"}]
            n["services"] = [{"type": "database-service"}]
        if n["hostname"] in ("a", "b"):
            n["start_up_duration"] = 0
            n["shut_down_duration"] = 0
    if not beacon_first:
        nodes[0], nodes[1] = nodes[1], nodes[0]
    return cfg


class Driver:
    """Applies stimuli in the alphabet of MC_C2 to a real two-host network and reports what it applied."""

    def __init__(self, rec: Recorder, beacon_first: bool, yaml_addr: bool):
        self.rec = rec
        self.game = scenarios.build(two_host_cfg(beacon_first, yaml_addr))
        self.net = self.game.simulation.network
        order = [n.config.hostname for n in self.net.nodes.values() if n.config.hostname in ("a", "b")]
        if order != (["a", "b"] if beacon_first else ["b", "a"]):
            raise RuntimeError(f"host order {order} is not what the stimulus asked for")
        rec.start(self.net, "a", "b", "r", True)
        self.applied: List[List[Any]] = []

    @property
    def bc(self):
        return self.net.get_node_by_hostname("a").software_manager.software["c2-beacon"]

    @property
    def sv(self):
        return self.net.get_node_by_hostname("b").software_manager.software["c2-server"]

    def _req(self, request, primary: Optional[str] = None, **fields):
        n0 = len(self.rec.ev)
        try:
            resp = self.game.simulation.apply_request(request)
        except Exception as ex:  # noqa  an exception out of a request is an event no module allows
            self.rec.emit("Raised", who=str(primary), status=type(ex).__name__)
            return None
        if primary and len(self.rec.ev) == n0:
            # the request never reached the application (refused on the way): nothing sent, status failure
            self.rec.emit(primary, **fields)
            self.rec.emit("Return", ok=(resp.status == "success"))
        return resp

    def apply(self, act: List[Any]) -> bool:
        """One stimulus."""
        kind = act[0]
        if kind == "Configure":
            f, port, proto = int(act[1]), int(act[2]), str(act[3])
            self._req(["network", "node", "a", "application", "c2-beacon", "configure",
                       {"c2_server_ip_address": SIP, "keep_alive_frequency": f, "masquerade_protocol": proto,
                        "masquerade_port": port}], "Configure", f=f, port=port, proto=proto)
        elif kind == "Establish":
            self._req(["network", "node", "a", "application", "c2-beacon", "execute"], "Establish")
        elif kind == "Command":
            cmd = act[1]
            req = ["network", "node", "b", "application", "c2-server", cmd]
            if CMD_OPTS[cmd] is not None:
                req.append(copy.deepcopy(CMD_OPTS[cmd]))
            self._req(req, "Command", cmd=cmd)
        elif kind == "Tick":
            try:
                self.game.pre_timestep()
                self.game.advance_timestep()
            except Exception as ex:  # noqa
                self.rec.emit("Raised", who="Tick", status=type(ex).__name__)
        elif kind == "Acl":
            d, blk = act[1], bool(act[2])
            pos, src = (0, BIP) if d == "BS" else (1, SIP)
            if blk:
                self._req(["network", "node", "r", "acl", "add_rule", "DENY", "ALL", src, "NONE", "ALL", "ALL", "NONE", "ALL", pos])
            else:
                self._req(["network", "node", "r", "acl", "remove_rule", pos])
            self.rec.emit("Acl", who=d, flag=blk)
        elif kind == "Power":
            who, on = act[1], bool(act[2])
            self._req(["network", "node", "a" if who == "B" else "b", "startup" if on else "shutdown"])
            self.rec.emit("Power", who=who, flag=on)
        elif kind == "Close":
            who = act[1]
            self._req(["network", "node", "a" if who == "B" else "b", "application", "c2-beacon" if who == "B" else "c2-server", "close"])
            self.rec.emit("Close", who=who)
        else:
            raise RuntimeError(f"unknown stimulus {act}")
        self.applied.append(list(act))
        return True

    def finish(self) -> Dict[str, Any]:
        segs = self.rec.stop()
        if len(segs) != 1:
            raise RuntimeError("a controlled run is one history")
        return segs[0]


def stimuli_of(beh) -> List[List[Any]]:
    out = []
    for st in beh[1:]:
        last = st["state"].get("last")
        if isinstance(last, list) and last and last[0] in TOP:
            out.append(list(last))
    return out


def directed() -> List[Dict[str, Any]]:
    """Directed sequences in the model's alphabet (validated by TLC like every other history): the main flows, and the
    shortest road to each divergence that this check found on the tree before the fixes 35cf24d, 4a410e5, f725961, 470f394
    (stale output, keep alive frequency lowered while unanswered, reset to defaults, address from the scenario file)."""
    T = ["Tick"]
    C = lambda f, port=80, proto="tcp": ["Configure", f, port, proto]  # noqa: E731
    E = ["Establish"]
    cmds = [["Command", c] for c in CMD_OPTS]
    return [
        {"name": "lifecycle", "seq": [E, C(2), E, T, T, T] + cmds + [T, T, ["Close", "B"], T, T, T, T, E, T, T]},
        {"name": "masquerade-reestablish", "seq": [C(2, 53, "udp"), E, T, T, cmds[2], C(1, 21, "tcp"), E, T, cmds[0], T]},
        {"name": "acl-both-ways", "seq": [C(2), E, T, ["Acl", "SB", True], cmds[2], T, T, T, T, ["Acl", "SB", False], C(3), E,
                                          ["Acl", "BS", True], cmds[3], T, T, T, T, T, ["Acl", "BS", False], C(1), E, T, cmds[1]]},
        {"name": "power", "seq": [C(2), E, ["Power", "S", False], cmds[2], T, ["Power", "S", True], T, T, C(2), E, T,
                                  ["Power", "B", False], E, C(1), cmds[0], T, T, T, ["Power", "B", True], T, T, T, E]},
        {"name": "server-closed", "seq": [C(1), E, T, ["Close", "S"], cmds[2], T, T, ["Power", "S", False], ["Power", "S", True], C(1), E,
                                          T, cmds[2]]},
        {"name": "stale-output", "seq": [C(3), E, cmds[2], ["Acl", "SB", True], cmds[0], T]},
        {"name": "reconfigure-live", "seq": [C(2), E, T, C(2, 53, "udp"), T, T, cmds[2]]},
        {"name": "lower-frequency-unanswered", "seq": [C(3), E, T, T, ["Acl", "BS", True], C(1), T, T, T]},
        {"name": "reset-defaults", "seq": [C(2), E, ["Acl", "BS", True], T, T, T, T, T]},
    ]


# ---------------------------------------------------------------------------------------
# scenario scale
# ---------------------------------------------------------------------------------------


def run_uc7(rec: Recorder, steps: int, seed: int, p_blue: float) -> List[Dict[str, Any]]:
    """UC7 with its TAP001 attacker; the blue agent acts at random on the infected host / the ACLs once the beacon is there."""
    from primaite.session.environment import PrimaiteGymEnv

    cfg = scenarios.shipped("uc7_config.yaml")
    tap = next(a for a in cfg["agents"] if a["type"] == "tap-001")
    bhost = tap["agent_settings"]["default_starting_node"]
    shost = tap["agent_settings"]["kill_chain"]["COMMAND_AND_CONTROL"]["c2_server_name"]
    blue = next(a for a in cfg["agents"] if a["type"] == "proxy-agent")
    cand = [int(k) for k, v in blue["action_space"]["action_map"].items()
            if v["options"].get("node_name") == bhost or v["action"].startswith("router-acl")]
    env = PrimaiteGymEnv(env_config=cfg)
    rng = random.Random(seed)
    net = env.game.simulation.network
    rec.start(net, bhost, shost, None, False)
    meta = {"scenario": "uc7_config.yaml", "seed": seed, "steps": steps, "blue_actions": []}
    for i in range(steps):
        b = net.get_node_by_hostname(bhost).software_manager.software.get("c2-beacon")
        act = 0
        if b is not None and b.c2_connection_active and rng.random() < p_blue:
            act = rng.choice(cand)
            meta["blue_actions"].append([i, act])
        try:
            env.step(act)
        except Exception as ex:  # noqa
            rec.emit("Raised", who="step", status=type(ex).__name__)
            break
    segs = rec.stop()
    for j, s in enumerate(segs):
        s["meta"] = dict(meta, kind="scenario", segment=j)
        s["stimulus"] = meta
    env.close()
    return segs


# ---------------------------------------------------------------------------------------
# the check
# ---------------------------------------------------------------------------------------


def sig_fn(tr, event, stuck):
    """Root cause, not circumstances (they are in the replay file)."""
    sig: Dict[str, Any] = {}
    if tr.get("meta", {}).get("yaml_addr"):
        sig["address_from"] = "scenario file"
    return sig


def main(tier: str, seed: int) -> int:
    import time

    chk = common.Check(CHECK, "model_checking", tier, seed)
    quick = tier == "quick"
    phase: Dict[str, float] = {}
    t_mark = [time.time()]

    def lap(name):
        phase[name] = round(time.time() - t_mark[0], 1)
        t_mark[0] = time.time()

    # (a) the model and its negative configuration run in their own JVMs while (b)-(e) go on
    from concurrent.futures import ThreadPoolExecutor

    n_beh, depth = (48, 90) if quick else (480, 140)
    pool = ThreadPoolExecutor(max_workers=2)
    f_mc = pool.submit(tlc.mc, "MC_C2", "MC_C2.cfg" if quick else "MC_C2Deep.cfg")
    f_neg = pool.submit(tlc.mc, "MC_C2", "MC_C2ExactDue.cfg", 4)
    try:
        behs, info = tlc.simulate("MC_C2", "MC_C2Sim.cfg", n_beh, depth, seed + 7)
    except BaseException:
        pool.shutdown(wait=True)
        raise
    chk.cov["transitions"] += info["states"]
    lap("tlc_simulate")

    def collect_models():
        r, rn = f_mc.result(), f_neg.result()
        pool.shutdown(wait=True)
        if not r["ok"]:
            chk.violation({"module": "MC_C2", "clause": str(r["violation"])}, {"tlc": r["output_tail"]})
        chk.add_mc("MC_C2(" + ("freq {1,3}, 2 masquerades, 2 of the 4 commands" if quick else "freq 1..3, 3 masquerades, 4 commands")
                   + ", both host orders; contract)", r)
        for act in MC_ACTIONS:
            if r["coverage"].get(act, (0, 0))[1] == 0:
                raise tlc.TLCError(f"vacuous model: action {act} never taken")
        if rn["ok"] or rn["violation"] != ("invariant", "InvBounded"):
            raise tlc.TLCError(f"negative configuration MC_C2ExactDue was not refuted as expected: {rn['violation']}")
        chk.cov.setdefault("negative_models", []).append(
            {"model": "MC_C2ExactDue (keep alive only when inactivity == frequency)", "refuted": "InvBounded",
             "distinct_states": rn["distinct"], "wall_s": round(rn["wall_s"], 2)})

    common.boot()
    lap("boot")
    rec = Recorder()
    rec.install()
    traces: List[Dict[str, Any]] = []
    applied_counts: Dict[str, int] = {}

    def run(seq, beacon_first, yaml_addr=False, label="simulated"):
        drv = Driver(rec, beacon_first, yaml_addr)
        for act in seq:
            if rec.stopped:
                break
            drv.apply(list(act))
        tr = drv.finish()
        if yaml_addr and not tr["cfg"]["bcn"]["addr"]:
            raise RuntimeError("set-up: by the documentation the option of the scenario file configures the beacon")
        tr["meta"] = {"kind": "controlled", "beacon_first": beacon_first, "yaml_addr": yaml_addr, "source": label}
        tr["stimulus"] = {"beacon_first": beacon_first, "yaml_addr": yaml_addr, "actions": drv.applied}
        for a in drv.applied:
            applied_counts[a[0]] = applied_counts.get(a[0], 0) + 1
        traces.append(tr)
        chk.add_case(tr["stimulus"], nontrivial=any(e["ev"] in ("SrvKA", "Drop") for e in tr["ev"]))

    for beh in behs:
        run(stimuli_of(beh), bool(beh[0]["state"].get("beaconFirst")))
    for d in directed():
        for bf in (True, False):
            run(d["seq"], bf, label=d["name"])
    # the address given in the scenario file (rst "Via Configuration"), never through `configure'
    for bf in (True, False):
        run([["Establish"], ["Tick"], ["Tick"], ["Command", "terminal_command"], ["Tick"], ["Tick"], ["Tick"]], bf, yaml_addr=True,
            label="yaml-address")

    lap("controlled_histories")
    # (e) scenario scale
    runs = [(112, seed, 0.0)] if quick else [(130, seed, 0.0), (220, seed + 1, 0.12), (220, seed + 2, 0.25), (220, seed + 3, 0.4)]
    n_scn = 0
    for steps, s, p in runs:
        segs = run_uc7(rec, steps, s, p)
        n_scn += len(segs)
        traces.extend(segs)
        chk.add_case({"scenario": "uc7", "seed": s, "p": p})
    tracer.unwrap_all()
    lap("scenario_histories")
    collect_models()
    lap("wait_for_models")

    # (d) TLC judges
    res = tlc.validate("C2Trace", traces, chunk=60)
    lap("tlc_validate")
    common.judge_traces(chk, "C2", traces, res, sig_fn, selftest="C2Trace")
    lap("binding_selftest_and_verdicts")
    chk.cov["phase_wall_s"] = phase

    # vacuity guards
    accepted = sum(1 for (reached, length) in res["results"] if reached == length + 1)
    per_event = chk.cov.get("impl_events", {})
    missing = [a for a in ALL_EVENTS if per_event.get(a, 0) == 0]
    if accepted == 0:
        raise RuntimeError("no recorded history was accepted")
    if missing:
        raise RuntimeError(f"actions of C2.tla never exercised in the code (accepted prefixes): {missing}")
    scn_ok = [(t, rr) for t, rr in zip(traces, res["results"]) if t["meta"]["kind"] == "scenario"]
    scn_events: Dict[str, int] = {}
    for t, (reached, length) in scn_ok:
        for e in t["ev"][: max(0, reached - 1)]:
            scn_events[e["ev"]] = scn_events.get(e["ev"], 0) + 1
    for need in ("Configure", "Establish", "SrvKA", "BcnKA", "Command", "BcnInput", "SrvOutput", "BcnTick", "SrvTick"):
        if scn_events.get(need, 0) == 0:
            raise RuntimeError(f"the scenario-scale run never exercised {need} (accepted prefixes: {scn_events})")

    by_kind: Dict[str, List[int]] = {}
    for t, (reached, length) in zip(traces, res["results"]):
        a = by_kind.setdefault(t["meta"]["kind"], [0, 0])
        a[0] += int(reached == length + 1)
        a[1] += 1
    chk.cov["accepted_of_total_by_kind"] = by_kind
    chk.cov["rejected_histories"] = [
        {"kind": t["meta"]["kind"], "source": t["meta"].get("source", t["meta"].get("scenario")), "position": reached,
         "of": length, "event": t["ev"][reached - 1]["ev"] if 0 < reached <= length else None,
         "clauses": sorted((st or {}).get("fail") or [])}
        for t, (reached, length), st in zip(traces, res["results"], res["stuck"]) if reached != length + 1]
    chk.cov["rejected_histories"] = chk.cov["rejected_histories"][:60]
    chk.cov["stimuli_applied"] = applied_counts
    chk.cov["scenario_events_accepted"] = scn_events
    chk.cov["scenario_histories"] = n_scn
    chk.cov["events_recorded"] = sum(len(t["ev"]) for t in traces)
    chk.cov["behaviours_replayed"] = len(behs)
    good = [t for t, (reached, length) in zip(traces, res["results"]) if reached == length + 1 and t["meta"]["kind"] != "scenario"]
    if good:
        t = max(good, key=lambda t: len(t["ev"]))
        chk.sample({"cfg": t["cfg"], "meta": t["meta"], "events": [{k: v for k, v in e.items() if v not in (0, "", False)} for e in t["ev"][:8]]})
    chk.assumptions += [
        "the network is synchronous: a payload is handled (or lost) inside the sender's send(); an event of a stimulus / "
        "handler that sends carries the state read just before the payload left",
        "the traffic of a connection travels on the port / protocol of the transport session it was established in "
        "(c2_session, projected as sport / sproto); a new masquerade takes effect on the wire from the next execute, the "
        "keep-alive payload carries it at once (triage of the first run: the documented procedure is configure + establish)",
        "host power uses start_up / shut_down duration 0; the status of a command output (success / failure) is the host's "
        "business and left free; health states other than GOOD are not produced",
        "scenario scale: UC7, beacon = the TAP001 starting host, server = its configured C2 server; the path crosses "
        "firewalls and routers that this module does not model (pathKnown = FALSE: sending and delivery are only bounded by "
        "what the two hosts allow); host / application / NIC changes by the blue agent enter as Env events",
    ]
    return chk.finish()
