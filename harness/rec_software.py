"""Recorder, projection and stimulus binding for Software.tla (property C13).

One *case* = a device under test (a host built from a config dict by ``PrimaiteGame.from_config``) plus
the three pieces of software the model's names ``svc`` / ``app`` / ``app2`` are bound to.  The
projection covers **all** software of the node (so shared ports and background software are part of
the validated state), the stimulus addresses the three bound names only.
"""
from __future__ import annotations

from datetime import datetime
from ipaddress import IPv4Address
from typing import Any, Dict, List, Optional, Tuple

from . import scenarios, tracer

SERVICES = ["database-service", "dns-client", "ftp-server", "web-server", "terminal", "dns-server", "ftp-client",
            "ntp-client", "ntp-server"]
APPLICATIONS = ["web-browser", "database-client", "c2-beacon", "dos-bot", "ransomware-script", "data-manipulation-bot",
                "c2-server", "nmap"]
QUICK_TYPES = ["database-service", "dns-client", "ftp-server", "web-browser", "database-client", "c2-beacon"]
DUT, PEER = "dut", "peer"
DUT_IP, PEER_IP = "192.168.1.3", "192.168.1.2"


# ---------------------------------------------------------------------------------------
# static facts read from the classes (ports a piece of software owns / listens on)
# ---------------------------------------------------------------------------------------

_STATIC: Dict[str, Dict[str, Any]] = {}


def static_table() -> Dict[str, Dict[str, Any]]:
    """{name: {"kind", "ports" (own + listening, without the 'none' port 0), "port", "protocol"}} for every
    registered service / application, read from instances installed on a scratch node."""
    if _STATIC:
        return _STATIC
    from primaite.simulator.system.applications.application import Application
    from primaite.simulator.system.services.service import Service

    g = scenarios.build(scenarios.base_cfg([scenarios.host("x", "192.168.9.2", "server")], []))
    node = g.simulation.network.get_node_by_hostname("x")
    for reg, kind in ((Service._registry, "service"), (Application._registry, "application")):
        for name, cls in reg.items():
            if name not in node.software_manager.software:
                node.software_manager.install(cls)
            sw = node.software_manager.software[name]
            _STATIC[name] = {"kind": kind, "ports": ports_of(sw), "port": int(sw.port), "protocol": str(sw.protocol),
                             "cls": cls}
    return _STATIC


def ports_of(sw) -> List[int]:
    ps = {int(sw.port)} | {int(p) for p in (sw.listen_on_ports or ())}
    ps.discard(0)
    return sorted(ps)


# ---------------------------------------------------------------------------------------
# cases
# ---------------------------------------------------------------------------------------


def _disjoint(*names) -> bool:
    st = static_table()
    seen = set()
    for n in names:
        ps = set(st[n]["ports"])
        if ps & seen:
            return False
        seen |= ps
    return True


def pick_case(sw_type: str, variant: str) -> Dict[str, str]:
    """Bind the model's svc / app / app2 for a software type under test.

    clean : the three bound names own pairwise disjoint ports (and background software sharing one of
            those ports is taken out of the way in the set-up, see ``build_case``).
    listen: as clean, and the bound partner of the software under test listens on its ports as well.
    shared: the bound names share ports wherever the shipped software does, background left alone."""
    st = static_table()
    svc_c = ["database-service", "web-server", "ntp-server", "ftp-server"]
    app_c = ["web-browser", "database-client", "nmap"]
    app2_c = ["dos-bot", "database-client", "ransomware-script", "data-manipulation-bot"]
    if variant == "shared":
        fam = {
            "database-service": ("database-service", "database-client", "dos-bot"),
            "database-client": ("database-service", "database-client", "dos-bot"),
            "dos-bot": ("database-service", "dos-bot", "database-client"),
            "web-server": ("web-server", "web-browser", "c2-beacon"),
            "web-browser": ("web-server", "web-browser", "c2-beacon"),
            "c2-beacon": ("dns-client", "c2-beacon", "c2-server"),
            "c2-server": ("ftp-client", "c2-server", "c2-beacon"),
            "dns-server": ("dns-server", "c2-beacon", "dos-bot"),
            "dns-client": ("dns-client", "c2-beacon", "dos-bot"),
            "ftp-server": ("ftp-server", "c2-server", "dos-bot"),
            "ftp-client": ("ftp-client", "c2-server", "dos-bot"),
        }
        if sw_type in fam:
            s, a, b = fam[sw_type]
            return {"svc": s, "app": a, "app2": b}
    if st[sw_type]["kind"] == "service":
        for a in app_c:
            for b in app2_c:
                if b != a and _disjoint(sw_type, a, b):
                    return {"svc": sw_type, "app": a, "app2": b}
    else:
        for b in app2_c:
            for s in svc_c:
                if b != sw_type and _disjoint(s, sw_type, b):
                    return {"svc": s, "app": sw_type, "app2": b}
    raise RuntimeError(f"no case for {sw_type}")


def build_case(sw_type: str, variant: str, node_kind: str, rd: int, idur: int, dup_system: bool = False):
    """Build the two-host network, install the bound software from the scenario file, set the durations
    and (clean variant) take background software that shares a port with a bound name out of the way
    through the request API.  Returns (game, dut, peer, case)."""
    st = static_table()
    case = pick_case(sw_type, "clean" if variant == "listen" else variant)
    probe = scenarios.build(scenarios.base_cfg([scenarios.host("x", "192.168.9.2", node_kind)], []))
    system = set(probe.simulation.network.get_node_by_hostname("x").software_manager.software)
    services = [{"type": case["svc"]}] if (case["svc"] not in system or dup_system) else []
    applications = [{"type": case["app"]}] if (case["app"] not in system or dup_system) else []
    cfg = scenarios.base_cfg(
        [scenarios.host(PEER, PEER_IP, "computer"),
         scenarios.host(DUT, DUT_IP, node_kind, start_up_duration=0, shut_down_duration=0,
                        services=services, applications=applications)],
        [scenarios.link(PEER, 1, DUT, 1)],
    )
    # the restart duration of a service DECLARED in the scenario comes from the scenario's defaults block (written at the top
    # level or inside `simulation`, by the parity of the duration), every other service gets it as the attribute
    via_block = bool(services)
    if via_block:
        blk = {"service_restart_duration": rd}
        if rd % 2:
            cfg["simulation"]["defaults"] = blk
        else:
            cfg["defaults"] = blk
    game = scenarios.build(cfg)
    net = game.simulation.network
    dut, peer = net.get_node_by_hostname(DUT), net.get_node_by_hostname(PEER)
    declared = {x["type"] for x in services} if via_block else set()
    for name, sw in dut.software_manager.software.items():
        if hasattr(sw, "restart_duration") and name not in declared:
            sw.restart_duration = rd
        if hasattr(sw, "install_duration"):
            sw.install_duration = idur
    if case["app2"] in dut.software_manager.software:  # bound to system software: start from absent
        game.simulation.apply_request(["network", "node", DUT, "software_manager", "application", "uninstall", case["app2"]])
    listener = ""
    if variant == "listen":
        # the bound partner of the software under test additionally listens on that software's ports (the
        # documented `listen_on_ports` option, set the way game.py sets it: as the attribute)
        listener = case["app"] if st[sw_type]["kind"] == "service" else case["svc"]
        dut.software_manager.software[listener].listen_on_ports = set(st[sw_type]["ports"])
    removed = []
    if variant in ("clean", "listen"):
        bound = set(case.values())
        tports = set()
        for n in bound:
            tports |= set(st[n]["ports"])
        for name, sw in list(dut.software_manager.software.items()):
            if name in bound or not (set(ports_of(sw)) & tports):
                continue
            if st[name]["kind"] == "service":
                game.simulation.apply_request(["network", "node", DUT, "service", name, "disable"])
            else:
                game.simulation.apply_request(["network", "node", DUT, "software_manager", "application", "uninstall", name])
            removed.append(name)
    peer.ping(DUT_IP, pings=1)  # warm ARP both ways
    case = dict(case, sw_type=sw_type, variant=variant, node_kind=node_kind, rd=rd, id=idur, removed=removed,
                dup_system=dup_system, listener=listener)
    return game, dut, peer, case


# ---------------------------------------------------------------------------------------
# projection
# ---------------------------------------------------------------------------------------


def names_of(dut, case) -> Tuple[List[str], List[str]]:
    st = static_table()
    svcs, apps = set(), set()
    for n, sw in dut.software_manager.software.items():
        (svcs if st.get(n, {}).get("kind") == "service" else apps).add(n)
    for s in dut.services.values():
        svcs.add(s.name)
    for a in dut.applications.values():
        apps.add(a.name)
    for role in ("svc", "app", "app2"):
        n = case[role]
        (svcs if st[n]["kind"] == "service" else apps).add(n)
    return sorted(svcs), sorted(apps)


def project(dut, names: List[str]) -> Dict[str, Any]:
    from primaite.simulator.network.hardware.node_operating_state import NodeOperatingState

    sm = dut.software_manager
    d = dut.describe_state()
    op = {n: (sm.software[n].operating_state.name if n in sm.software else "ABSENT") for n in names}
    open_ports = {int(p) for p in sm.get_open_ports()}
    open_ports.discard(0)
    return {
        "on": dut.operating_state == NodeOperatingState.ON,
        "op": op,
        "installed": sorted(sm.software.keys()),
        "nodeList": sorted([s.name for s in dut.services.values()] + [a.name for a in dut.applications.values()]),
        "routes": sorted(list(dut._service_request_manager.request_types) + list(dut._application_request_manager.request_types)),
        "reported": sorted(list(d["services"]) + list(d["applications"])),
        "ports": sorted(open_ports),
    }


# ---------------------------------------------------------------------------------------
# payloads and the receive / gate recorder
# ---------------------------------------------------------------------------------------


def typed_payload(name: str):
    """A payload of the type the named software processes (so that its ``receive`` gets as far as its
    own handling), chosen to be as inert as possible."""
    from primaite.simulator.network.protocols.dns import DNSPacket, DNSReply, DNSRequest
    from primaite.simulator.network.protocols.ftp import FTPCommand, FTPPacket, FTPStatusCode
    from primaite.simulator.network.protocols.http import HttpRequestMethod, HttpRequestPacket, HttpResponsePacket, HttpStatusCode
    from primaite.simulator.network.protocols.ntp import NTPPacket, NTPReply
    from primaite.simulator.network.protocols.ssh import SSHConnectionMessage, SSHPacket, SSHTransportMessage, SSHUserCredentials

    if name == "dns-client":
        return DNSPacket(dns_request=DNSRequest(domain_name_request="verif.example"),
                         dns_reply=DNSReply(domain_name_ip_address=IPv4Address("192.168.1.77")))
    if name == "dns-server":
        return DNSPacket(dns_request=DNSRequest(domain_name_request="verif.example"))
    if name == "ntp-client":
        return NTPPacket(ntp_reply=NTPReply(ntp_datetime=datetime(2020, 1, 1)))
    if name == "ntp-server":
        return NTPPacket()
    if name == "ftp-server":
        return FTPPacket(ftp_command=FTPCommand.PORT, ftp_command_args=21)
    if name == "ftp-client":
        return FTPPacket(ftp_command=FTPCommand.PORT, ftp_command_args=21, status_code=FTPStatusCode.OK)
    if name == "web-server":
        return HttpRequestPacket(request_method=HttpRequestMethod.GET, request_url="http://verif.example/")
    if name == "web-browser":
        return HttpResponsePacket(status_code=HttpStatusCode.OK)
    if name == "terminal":
        return SSHPacket(transport_message=SSHTransportMessage.SSH_MSG_USERAUTH_REQUEST,
                         connection_message=SSHConnectionMessage.SSH_MSG_CHANNEL_OPEN,
                         user_account=SSHUserCredentials(username="nobody", password="wrong"),
                         connection_request_uuid="verif")
    if name in ("database-service", "database-client", "dos-bot"):
        return {"type": "verif-probe"}
    if name in ("c2-beacon", "c2-server"):
        from primaite.simulator.network.protocols.masquerade import C2Packet
        from primaite.simulator.system.applications.red_applications.c2 import abstract_c2

        return C2Packet(masquerade_protocol="tcp", masquerade_port=80, payload_type=abstract_c2.C2Payload.OUTPUT,
                        keep_alive_frequency=5, payload={"verif": 1})
    return {"type": "verif-probe"}


class Recorder:
    """Class-level wrappers on every software type's ``receive`` and ``_can_perform_action``; reports,
    per injected payload, which software of the device under test had ``receive`` invoked and whether
    the invocation got past the software's own can-I-act gate."""

    def __init__(self):
        self.dut = None
        self.calls: List[Dict[str, Any]] = []
        self._stack: List[Dict[str, Any]] = []
        self._installed = False

    def install(self):
        if self._installed:
            return
        st = static_table()
        rec = self
        seen_recv, seen_gate = set(), set()

        def before_recv(sw, *a, **k):
            node = getattr(getattr(sw, "software_manager", None), "node", None)
            if rec.dut is None or node is not rec.dut:
                return None
            r = {"obj": sw, "name": sw.name, "gate_refused": False, "ret": None, "exc": None}
            rec._stack.append(r)
            return r

        def after_recv(sw, tok, ret, exc, *a, **k):
            if tok is None:
                return
            tok["ret"] = ret
            tok["exc"] = type(exc).__name__ if exc is not None else None
            if rec._stack and rec._stack[-1] is tok:
                rec._stack.pop()
            rec.calls.append(tok)

        def after_gate(sw, tok, ret, exc, *a, **k):
            if ret is False:
                for r in rec._stack:  # every active receive() of this object (an inherited receive is wrapped per class)
                    if r["obj"] is sw:
                        r["gate_refused"] = True

        for info in st.values():
            cls = info["cls"]
            if cls not in seen_recv:
                seen_recv.add(cls)
                tracer.wrap(cls, "receive", before=before_recv, after=after_recv)
            for k in cls.__mro__:
                if "_can_perform_action" in k.__dict__ and k not in seen_gate:
                    seen_gate.add(k)
                    tracer.wrap(k, "_can_perform_action", after=after_gate)
        self._installed = True

    def begin(self, dut):
        self.dut = dut
        self.calls = []
        self._stack = []

    def handled(self, target: str) -> Tuple[List[str], List[str]]:
        """(delivered, handled): names whose receive was invoked / that processed the payload.
        A receiver counts as having handled it when its receive was not stopped by its gate and either it
        is the software the payload was typed for or its receive reported success."""
        delivered, handled = [], []
        for c in self.calls:
            if c["name"] not in delivered:
                delivered.append(c["name"])
            if not c["gate_refused"] and c["exc"] is None and (c["name"] == target or c["ret"] is True):
                if c["name"] not in handled:
                    handled.append(c["name"])
        return sorted(delivered), sorted(handled)


def install_duration_hook(holder: Dict[str, Any]):
    """Applications installed by a request are created inside the request; their ``install_duration`` is a
    plain attribute with no configuration key, so it is set when ``Application.install`` is entered."""
    from primaite.simulator.system.applications.application import Application

    def before(app, *a, **k):
        if holder.get("id") is not None:
            app.install_duration = holder["id"]
        return None

    tracer.wrap(Application, "install", before=before)


# ---------------------------------------------------------------------------------------
# replaying one model behaviour on the real node
# ---------------------------------------------------------------------------------------

ROLES = ["svc", "app", "app2"]


def actions_of(beh: List[Dict[str, Any]]) -> List[List[Any]]:
    """TLC behaviour -> [[kind, arg...]] over the model's names."""
    out = []
    for stp in beh[1:]:
        a, p = stp["action"], [x.strip().strip('"') for x in stp["params"].split(",")] if stp["params"] else []
        if a == "MReq":
            out.append(["req", p[0], p[1]])
        elif a == "MInstall":
            out.append(["install", p[0]])
        elif a == "MUninstall":
            out.append(["uninstall", p[0]])
        elif a == "MTick":
            out.append(["tick"])
        elif a == "MPower":
            out.append(["power", p[0]])
        elif a == "MPayload":
            out.append(["payload", ROLES[(int(p[0]) - 1) % 3]])
    return out


def run_actions(rec: Recorder, holder: Dict[str, Any], sw_type: str, variant: str, node_kind: str, rd: int, idur: int,
                actions: List[List[Any]], dup_system: bool = False) -> Dict[str, Any]:
    st = static_table()
    holder["id"] = idur
    game, dut, peer, case = build_case(sw_type, variant, node_kind, rd, idur, dup_system)
    svcs, apps = names_of(dut, case)
    names = svcs + apps
    sim = game.simulation
    rec.begin(dut)
    p0 = project(dut, names)
    pof = {n: (ports_of(dut.software_manager.software[n]) if n in dut.software_manager.software else st[n]["ports"]) for n in names}
    trace = {
        "cfg": {"svcs": svcs, "apps": apps, "portsOf": pof, "rd": rd, "id": idur, "on": p0["on"], "op": p0["op"]},
        "ev": [],
        "meta": dict(case),
        "stimulus": {"sw_type": sw_type, "variant": variant, "node_kind": node_kind, "rd": rd, "id": idur,
                     "dup_system": dup_system, "actions": actions},
    }

    def emit(ev, n="", verb="", ok=False, port=0, handled=()):
        trace["ev"].append({"ev": ev, "n": n, "verb": verb, "ok": bool(ok), "port": int(port), "handled": list(handled),
                            **project(dut, names)})

    def ok_of(r):
        return getattr(r, "status", None) == "success"

    emit("Observe")
    try:
        for act in actions:
            k = act[0]
            if k == "req":
                n, verb = case[act[1]], act[2]
                r = sim.apply_request(["network", "node", DUT, st[n]["kind"], n, verb])
                emit("Req", n, verb, ok_of(r))
            elif k in ("install", "uninstall"):
                n = case[act[1]]
                r = sim.apply_request(["network", "node", DUT, "software_manager", "application", k, n])
                emit("Install" if k == "install" else "Uninstall", n, k, ok_of(r))
            elif k == "tick":
                game.pre_timestep()
                game.advance_timestep()
                emit("Tick")
            elif k == "power":
                r = sim.apply_request(["network", "node", DUT, act[1]])
                emit("Power", "", act[1], ok_of(r))
            elif k == "payload":
                n = case[act[1]]
                sw = dut.software_manager.software.get(n)
                pts = ports_of(sw) if sw is not None else st[n]["ports"]
                if not pts:
                    continue
                own = int(sw.port) if sw is not None else st[n]["port"]
                port = own if own in pts else pts[0]
                proto = str(sw.protocol) if sw is not None else st[n]["protocol"]
                if proto not in ("tcp", "udp"):
                    proto = "tcp"
                # type the payload for the software that is there to take it: the addressed software when it
                # is present, otherwise a present owner / listener of the port (a running one if any)
                tp = n
                if sw is None:
                    owners = [m for m, o in dut.software_manager.software.items() if port in ports_of(o)]
                    owners.sort(key=lambda m: (dut.software_manager.software[m].operating_state.name != "RUNNING", m))
                    tp = owners[0] if owners else n
                rec.calls = []
                peer.software_manager.send_payload_to_session_manager(
                    payload=typed_payload(tp), dest_ip_address=IPv4Address(DUT_IP), dest_port=port, ip_protocol=proto)
                _delivered, handled = rec.handled(tp)
                emit("Payload", n, f"{proto}:{tp}", False, port, handled)
    except Exception as e:  # noqa - an exception out of repository code is an event no module allows
        emit("Raised", "", type(e).__name__)
        trace["meta"]["exception"] = repr(e)[:300]
    rec.dut = None
    return trace
