"""C06 - blocking is effective: a host cut off from another cannot affect it.

Model: spec/Blocking.tla (MC_Blocking: 3 topologies x zone placements x one fault at a time x 10 rule-list
shapes on each ACL of the path x every packet of the domain, walked stage by stage; invariant: structurally
blocked => never arrives; action property: a denied frame is final; liveness: an open path delivers).
Binding: configurations are drawn from the model (tlc -simulate initial states), built in the simulator from
a scenario dict (ACLs through the scenario file; faults through requests), and (i) every frame A emits is
followed through the middlebox by wrappers (interface receive, each ACL verdict, ARP learning, hand-over to the
middlebox's own software, forwarding, B's interface) and validated by TLC against BlockingTrace.tla with the
rule lists READ BACK from the built objects; (ii) for configurations the model says are blocked, an attack run
(pings, scans, database / web / FTP clients, data-manipulation bot, ransomware, DoS bot, remote login and
remote commands from A) is compared tick by tick with an idle run on B's own state digest (PairTrace.tla).
"""
from __future__ import annotations

import copy
import ipaddress
import random
from typing import Any, Dict, List, Optional

from . import common, pairs, project, scenarios, tlc, tracer

PROP = "C06"
LISTS = ["acl", "ext_in", "ext_out", "int_in", "int_out", "dmz_in", "dmz_out"]
FW_ATTR = {"ext_in": "external_inbound_acl", "ext_out": "external_outbound_acl", "int_in": "internal_inbound_acl",
           "int_out": "internal_outbound_acl", "dmz_in": "dmz_inbound_acl", "dmz_out": "dmz_outbound_acl"}
ZONE_HOST = {"ext": ("ext", "192.168.20.2", 1), "int": ("int", "192.168.1.2", 2), "dmz": ("dmz", "192.168.10.2", 3)}
ZONE_NET = {"ext": "192.168.20.0", "int": "192.168.1.0", "dmz": "192.168.10.0"}
ZONE_OTHER = {"ext": "192.168.20.3", "int": "192.168.1.3", "dmz": "192.168.10.3"}


def _set(v):
    return set(v["__set__"]) if isinstance(v, dict) and "__set__" in v else set(v)


class Net:
    """The built scenario for one model configuration."""

    def __init__(self, st: Dict[str, Any], noncanon: bool = False, deep: bool = False):
        self.st = st
        self.noncanon = noncanon
        self.bnext = None  # name of the node between the middlebox and B, if any
        self.topo = st["topo"]
        self.zoneA, self.zoneB = st["zoneA"], st["zoneB"]
        up = st["up"]
        self.up = up
        A_APPS = [
            {"type": "database-client", "options": {"db_server_ip": None}},
            {"type": "data-manipulation-bot", "options": {"port_scan_p_of_success": 1.0, "data_manipulation_p_of_success": 1.0,
                                                          "payload": "DELETE", "server_ip": None}},
            {"type": "ransomware-script", "options": {"server_ip": None}},
            {"type": "dos-bot", "options": {"target_ip_address": None, "payload": "SPOOF DATA", "port_scan_p_of_success": 1.0,
                                            "dos_intensity": 1.0, "max_sessions": 20}},
        ]
        B_SVCS = [{"type": "database-service"}, {"type": "web-server"}, {"type": "ftp-server"}, {"type": "dns-server"}]
        if self.topo == "lan":
            self.a, self.b, self.m = "a", "b", "sw"
            self.ipA, self.ipB = "192.168.1.2", "192.168.1.3"
            self.other = "192.168.1.9"
            self.ipsM = []
            self.ipMA = self.ipMB = None
            nodes = [scenarios.host("a", self.ipA, "computer"), scenarios.host("b", self.ipB, "server"),
                     {"hostname": "sw", "type": "switch", "num_ports": 4}]
            links = ([scenarios.link("a", 1, "sw", 1)] if up["linkA"] else []) + ([scenarios.link("b", 1, "sw", 2)] if up["linkB"] else [])
            self.portA, self.portB = 1, 2
        elif self.topo == "routed":
            self.a, self.b, self.m = "a", "b", "r"
            self.ipA, self.ipB = "192.168.1.2", "192.168.2.2"
            self.other = "192.168.1.3"
            self.ipsM = ["192.168.1.1", "192.168.2.1"]
            self.ipMA, self.ipMB = "192.168.1.1", "192.168.2.1"
            cfg = scenarios.routed(acl=self.acl_cfg(st["lists"]["acl"], "DENY"))
            nodes = cfg["simulation"]["network"]["nodes"]
            links = ([scenarios.link("a", 1, "r", 1)] if up["linkA"] else []) + ([scenarios.link("b", 1, "r", 2)] if up["linkB"] else [])
            self.portA, self.portB = 1, 2
        else:
            ha, hb = ZONE_HOST[self.zoneA], ZONE_HOST[self.zoneB]
            self.a, self.b, self.m = ha[0], hb[0], "fw"
            self.ipA, self.ipB = ha[1], hb[1]
            self.other = ZONE_OTHER[self.zoneA]
            self.ipsM = ["192.168.20.1", "192.168.1.1", "192.168.10.1"]
            gw = {"ext": "192.168.20.1", "int": "192.168.1.1", "dmz": "192.168.10.1"}
            self.ipMA, self.ipMB = gw[self.zoneA], gw[self.zoneB]
            real_imp = {"ext_in": "PERMIT", "ext_out": "PERMIT", "int_in": "DENY", "int_out": "DENY", "dmz_in": "DENY", "dmz_out": "DENY"}
            kw = {k: self.acl_cfg(st["lists"][k], real_imp[k]) for k in FW_ATTR}
            cfg = scenarios.firewalled(ext_in=kw["ext_in"], ext_out=kw["ext_out"], int_in=kw["int_in"], int_out=kw["int_out"],
                                       dmz_in=kw["dmz_in"], dmz_out=kw["dmz_out"], dmz=True)
            nodes = cfg["simulation"]["network"]["nodes"]
            links = [l for l in cfg["simulation"]["network"]["links"]
                     if (up["linkB"] or l["endpoint_a_hostname"] != self.b) and (up["linkA"] or l["endpoint_a_hostname"] != self.a)]
            self.portA, self.portB = ha[2], hb[2]
            if deep and self.zoneB == "int":
                # B is not on the firewall's internal subnet but behind a further (all-permitting) router: the zone
                # of a frame is decided by the interface it leaves through, not by the subnet of its destination
                self.ipB, self.bnext = "192.168.5.2", "r2"
                for nd in nodes:
                    if nd["hostname"] == "int":
                        nd["ip_address"], nd["default_gateway"] = "192.168.5.2", "192.168.5.1"
                    if nd["hostname"] == "fw":
                        nd["routes"] = [{"address": "192.168.5.0", "subnet_mask": "255.255.255.0", "next_hop_ip_address": "192.168.1.254"}]
                nodes.append({"hostname": "r2", "type": "router", "num_ports": 3,
                              "ports": {1: {"ip_address": "192.168.1.254", "subnet_mask": "255.255.255.0"},
                                        2: {"ip_address": "192.168.5.1", "subnet_mask": "255.255.255.0"}},
                              "acl": {1: {"action": "PERMIT"}},
                              "default_route": {"next_hop_ip_address": "192.168.1.1"}})
                links = [l for l in links if "int" not in (l["endpoint_a_hostname"], l["endpoint_b_hostname"])]
                links.append(scenarios.link("r2", 1, "fw", 2))
                if up["linkB"]:
                    links.append(scenarios.link("int", 1, "r2", 2))
        for n in nodes:
            if n["hostname"] == self.a:
                apps = copy.deepcopy(A_APPS)
                for ap in apps:
                    for k in ap["options"]:
                        if ap["options"][k] is None:
                            ap["options"][k] = self.ipB
                n["applications"] = apps
            if n["hostname"] == self.b:
                n["services"] = copy.deepcopy(B_SVCS)
            n.setdefault("start_up_duration", 0)
            n.setdefault("shut_down_duration", 0)
        self.cfg = scenarios.base_cfg(nodes, links)

    def acl_cfg(self, lst: Dict[str, Any], real_implicit: str) -> Dict[int, Dict[str, Any]]:
        out: Dict[int, Dict[str, Any]] = {}
        for i, r in enumerate(lst["rules"]):
            d: Dict[str, Any] = {"action": r["act"]}
            if r["proto"] != "any":
                d["protocol"] = r["proto"].upper()
            if r["dport"]:
                d["dst_port"] = {80: "HTTP", 5432: "POSTGRES_SERVER", 219: "ARP"}[r["dport"]]
            src, dst = _set(r["src"]), _set(r["dst"])
            if src == {"A"}:
                d["src_ip"] = "@A"
            elif src == {"A", "other"}:
                d["src_ip"], d["src_wildcard_mask"] = "@A", "0.0.0.1"
                if self.noncanon:
                    d["src_ip"], d["src_wildcard_mask"] = "@A|5", "0.0.0.5"   # base above A, non-contiguous mask
            if dst == {"B"}:
                d["dst_ip"] = "@B"
            elif dst == {"B", "M"}:
                d["dst_ip"], d["dst_wildcard_mask"] = "@B", "0.0.0.3"
                if self.noncanon:
                    d["dst_ip"] = "@B|1"                                        # base above B inside the range
            out[i + 1] = d
        if lst["implicit"] != real_implicit:
            out[21] = {"action": lst["implicit"]}     # emulate the other implicit action by a catch-all last rule
        self._pending = getattr(self, "_pending", [])
        self._pending.append(out)
        return out

    def build(self):
        # resolve @A/@B placeholders now that the addresses are known
        def fix(o):
            if isinstance(o, dict):
                for k, v in list(o.items()):
                    if isinstance(v, str) and v.startswith("@"):
                        base = self.ipA if v[1] == "A" else self.ipB
                        bits = int(v.split("|")[1]) if "|" in v else 0
                        o[k] = str(ipaddress.IPv4Address(int(ipaddress.IPv4Address(base)) | bits))
                    else:
                        fix(v)
            elif isinstance(o, list):
                for v in o:
                    fix(v)
        fix(self.cfg)
        game = scenarios.build(self.cfg)
        net = game.simulation.network
        self.game = game
        self.A, self.B, self.M = (net.get_node_by_hostname(x) for x in (self.a, self.b, self.m))
        self.Bnext = net.get_node_by_hostname(self.bnext) if self.bnext else self.B
        return game

    def apply_faults(self, game):
        up = self.up
        req = game.simulation.apply_request
        if not up["nicA"]:
            req(["network", "node", self.a, "network_interface", 1, "disable"])
        if not up["nicB"]:
            req(["network", "node", self.b, "network_interface", 1, "disable"])
        if not up["portA"]:
            req(["network", "node", self.m, "network_interface", self.portA, "disable"])
        if not up["portB"]:
            req(["network", "node", self.m, "network_interface", self.portB, "disable"])
        if not up["onB"]:
            req(["network", "node", self.b, "shutdown"])
        if not up["onM"]:
            req(["network", "node", self.m, "shutdown"])

    # -- read the rule lists back from the built objects, in the model's symbolic form
    def symbols(self, ip, wildcard) -> List[str]:
        if ip is None:
            return ["A", "B", "M", "MB", "MC", "other"]
        # the harness' own reading of "a range given by a wildcard mask" (bits set in the mask are don't-care bits);
        # deliberately NOT the repository's helper
        def covers(x, base, wc):
            x, base, wc = int(ipaddress.IPv4Address(x)), int(ipaddress.IPv4Address(base)), int(ipaddress.IPv4Address(wc))
            return (x & ~wc & 0xFFFFFFFF) == (base & ~wc & 0xFFFFFFFF)

        out = []
        cands = {"A": [self.ipA], "B": [self.ipB], "M": [self.ipMA] if self.ipMA else [], "MB": [self.ipMB] if self.ipMB else [],
                 "MC": [x for x in self.ipsM if x not in (self.ipMA, self.ipMB)], "other": [self.other]}
        for sym, ips in cands.items():
            for x in ips:
                hit = (ipaddress.IPv4Address(x) == ip) if not wildcard else covers(x, ip, wildcard)
                if hit:
                    out.append(sym)
                    break
        return out

    def read_lists(self) -> Dict[str, Any]:
        out = {n: {"rules": [], "implicit": "PERMIT"} for n in LISTS}

        def conv(acl):
            rules = []
            for r in acl._acl:
                if r is None:
                    continue
                proto = r.protocol if r.protocol and r.protocol != "none" else "any"
                dport = int(r.dst_port) if r.dst_port else 0
                rules.append({"act": r.action.name, "src": self.symbols(r.src_ip_address, r.src_wildcard_mask),
                              "dst": self.symbols(r.dst_ip_address, r.dst_wildcard_mask), "proto": proto, "dport": dport,
                              "sport": int(r.src_port) if r.src_port else 0})
            return {"rules": rules, "implicit": acl.implicit_action.name}

        if self.topo == "routed":
            out["acl"] = conv(self.M.acl)
        elif self.topo == "fw":
            for n, attr in FW_ATTR.items():
                out[n] = conv(getattr(self.M, attr))
        return out


class Walks:
    """Follows every frame emitted by A through M to B."""

    def __init__(self):
        self.net: Optional[Net] = None
        self.tr: Dict[int, Dict[str, Any]] = {}
        self.keep: List[Any] = []
        self.acl_names: Dict[int, str] = {}
        self.ctx: List[Any] = []

    def target(self, net: Net):
        self.net = net
        self.tr, self.keep, self.ctx = {}, [], []
        self.acl_names = {}
        if net.topo == "routed":
            self.acl_names[id(net.M.acl)] = "acl"
        elif net.topo == "fw":
            for n, attr in FW_ATTR.items():
                self.acl_names[id(getattr(net.M, attr))] = n
            self.acl_names[id(net.M.acl)] = "acl"

    def _ev(self, frame, ev, **kw):
        t = self.tr.get(id(frame))
        if t is not None:
            d = {"ev": ev, "acc": False, "list": "", "perm": False}
            d.update(kw)
            t["ev"].append(d)

    def classify(self, frame) -> Optional[Dict[str, Any]]:
        n = self.net
        if not frame.ip or str(frame.ip.src_ip_address) != n.ipA:
            return None
        d = str(frame.ip.dst_ip_address)
        if d == n.ipB:
            dst = "B"
        elif d == n.ipMA:
            dst = "M"
        elif d == n.other:
            dst = "other"
        else:
            return None   # (addresses outside the symbolic domain are not followed)
        if frame.icmp:
            proto, dport = "icmp", 0
        elif frame.udp:
            dport = int(frame.udp.dst_port)
            proto = "arp" if dport == 219 else "udp"
        elif frame.tcp:
            proto, dport = "tcp", int(frame.tcp.dst_port)
        else:
            return None
        return {"dst": dst, "proto": proto, "dport": dport}

    def install(self):
        from primaite.simulator.network.hardware.base import Link
        from primaite.simulator.network.hardware.nodes.network.router import AccessControlList, Router
        from primaite.simulator.system.core.session_manager import SessionManager
        from primaite.simulator.system.services.arp.arp import ARP

        w = self

        def before_tx(link, sender_nic, frame):
            n = w.net
            if n is None:
                return None
            node = getattr(sender_nic, "_connected_node", None)
            if node is n.A and id(frame) not in w.tr:
                p = w.classify(frame)
                if p is not None:
                    w.tr[id(frame)] = {"pkt": p, "ev": []}
                    w.keep.append(frame)
                    w._ev(frame, "Emit")
            elif node is n.M and id(frame) in w.tr and w.tr[id(frame)]["pkt"]["dst"] == "B":
                receiver = link.endpoint_a if link.endpoint_a is not sender_nic else link.endpoint_b
                if getattr(receiver, "_connected_node", None) is n.Bnext:
                    w._ev(frame, "Forward")
            return None

        def after_tx(link, tok, ret, exc, sender_nic, frame):
            n = w.net
            if n is None or id(frame) not in w.tr:
                return
            receiver = link.endpoint_a if link.endpoint_a is not sender_nic else link.endpoint_b
            node = getattr(receiver, "_connected_node", None)
            if node is n.M and getattr(sender_nic, "_connected_node", None) is n.A:
                pass  # MRecv is logged at the interface (before the middlebox pipeline runs)
            elif node is n.B and getattr(sender_nic, "_connected_node", None) in (n.M, n.Bnext) and w.tr[id(frame)]["pkt"]["dst"] == "B":
                w._ev(frame, "BRecv", acc=bool(ret) and exc is None)

        def before_mrecv(node, frame, from_network_interface):
            n = w.net
            if n is not None and node is n.M:
                if id(frame) in w.tr:
                    w._ev(frame, "MRecv", acc=True)
                w.ctx.append(frame)
                return True
            return None

        def after_mrecv(node, tok, ret, exc, frame, from_network_interface):
            if tok:
                w.ctx.pop()

        def after_permitted(acl, tok, ret, exc, frame):
            n = w.net
            if n is None or exc is not None or id(frame) not in w.tr:
                return
            name = w.acl_names.get(id(acl))
            if name:
                w._ev(frame, "Check", list=name, perm=bool(ret[0]))

        def after_arp(arp, tok, ret, exc, ip_address, mac_address, network_interface, override=False):
            n = w.net
            if n is None or not w.ctx:
                return
            f = w.ctx[-1]
            node = getattr(getattr(arp, "software_manager", None), "node", None)
            if node is n.M and id(f) in w.tr and str(ip_address) == n.ipA:
                w._ev(f, "Learn")

        def before_sm(sm, frame, from_network_interface=None):
            n = w.net
            if n is not None and getattr(sm, "node", None) is n.M and id(frame) in w.tr:
                w._ev(frame, "Local")
            return None

        tracer.wrap(Link, "transmit_frame", before=before_tx, after=after_tx)
        from primaite.simulator.network.hardware.nodes.network.firewall import Firewall
        from primaite.simulator.network.hardware.nodes.network.switch import Switch

        for cls in (Router, Firewall, Switch):
            tracer.wrap(cls, "receive_frame", before=before_mrecv, after=after_mrecv)
        tracer.wrap(AccessControlList, "is_permitted", after=after_permitted)
        tracer.wrap(ARP, "add_arp_cache_entry", after=after_arp)
        tracer.wrap(SessionManager, "receive_frame", before=before_sm)

    def take(self, cfg_base: Dict[str, Any], meta: Dict[str, Any]) -> List[Dict[str, Any]]:
        out = []
        for t in self.tr.values():
            c = dict(cfg_base)
            c["pkt"] = t["pkt"]
            out.append({"cfg": c, "ev": t["ev"], "meta": meta})
        self.tr, self.keep = {}, []
        return out


def attack(net: Net, game, rng: random.Random, log: List[str]):
    """The attacker repertoire from A, one item per tick; exceptions out of repository code are recorded."""
    sim = game.simulation
    a, ipB = net.a, net.ipB

    def req(tail):
        return sim.apply_request(["network", "node", a] + tail)

    items = [
        ("ping", lambda: net.A.ping(ipB, pings=2)),
        ("nmap-ping", lambda: req(["application", "nmap", "ping_scan", {"target_ip_address": ipB, "show": False}])),
        ("nmap-port", lambda: req(["application", "nmap", "port_scan", {"target_ip_address": ipB, "target_port": [80, 5432, 21],
                                                                        "target_protocol": ["tcp", "udp"], "show": False}])),
        # ... and the ports the simulator itself treats specially (219 is the port ARP travels on)
        ("nmap-port-special", lambda: req(["application", "nmap", "port_scan", {"target_ip_address": ipB, "target_port": [219, 53, 123, 22],
                                                                                "target_protocol": ["udp", "tcp"], "show": False}])),
        ("db-client", lambda: req(["application", "database-client", "execute"])),
        ("web", lambda: (setattr(net.A.software_manager.software["web-browser"], "target_url", f"http://{ipB}/"),
                         req(["application", "web-browser", "execute"]))),
        ("dm-bot", lambda: req(["application", "data-manipulation-bot", "execute"])),
        ("ransomware", lambda: req(["application", "ransomware-script", "execute"])),
        ("dos-bot", lambda: req(["application", "dos-bot", "execute"])),
        ("remote-login", lambda: req(["service", "terminal", "node_session_remote_login", "admin", "admin", ipB])),
        ("remote-cmd", lambda: req(["service", "terminal", "send_remote_command", ipB, {"command": ["file_system", "create", "folder", "pwned"]}])),
        ("ftp", lambda: net.A.software_manager.software["ftp-client"].send_file(dest_ip_address=ipaddress.IPv4Address(ipB),
                                                                               src_folder_name="root", src_file_name="x.txt",
                                                                               dest_folder_name="root", dest_file_name="x.txt")
         if "ftp-client" in net.A.software_manager.software else None),
        ("ping-again", lambda: net.A.ping(ipB, pings=1)),
    ]
    net.A.file_system.create_file(file_name="x.txt", folder_name="root", force=True)
    digests = []
    for name, fn in items:
        game.pre_timestep()
        try:
            fn()
        except Exception as e:  # noqa - reported in the evidence; C01/C05 own request robustness
            log.append(f"{name}: {type(e).__name__}: {e}"[:160])
        game.advance_timestep()
        digests.append(project.node_digest(net.B))
    return digests


def idle(net: Net, game, n: int):
    digests = []
    for _ in range(n):
        game.pre_timestep()
        game.advance_timestep()
        digests.append(project.node_digest(net.B))
    return digests


def model_blocked(st: Dict[str, Any]) -> bool:
    up = st["up"]
    return not all(up.values())


def sig_fn(tr, event, stuck):
    c = tr.get("cfg", {})
    return {"topo": c.get("topo") or tr["meta"].get("topo"), "part": tr["meta"].get("part"),
            "pkt": (c.get("pkt") or {}).get("proto"), "dst": (c.get("pkt") or {}).get("dst")}


def main(tier: str, seed: int) -> int:
    chk = common.Check(PROP, "model_checking", tier, seed)
    rng = random.Random(seed)
    r = tlc.mc("MC_Blocking", timeout=1500)
    if not r["ok"]:
        chk.violation({"module": "MC_Blocking", "clause": str(r["violation"])}, {"tlc": r["output_tail"]})
    chk.add_mc("MC_Blocking(3 topologies, 6 zone placements, 9 fault states, 10x10 list shapes, 20 packets)", r)
    for act in ("Emit", "MRecv", "Check", "Learn", "Local", "Forward", "BRecv"):
        if r["coverage"].get(act, (0, 0))[1] == 0:
            raise tlc.TLCError(f"vacuous model: action {act} never taken")
    n = 45 if tier == "quick" else 500
    behs, info = tlc.simulate("MC_Blocking", num=n * 3, depth=2, seed=seed + 9)
    chk.cov["transitions"] += info["states"]
    # distinct configurations (the packet of the state is irrelevant here: the attack emits many packets)
    cfgs, seen = [], set()
    for b in behs:
        st = b[0]["state"]
        key = (st["topo"], st["zoneA"], st["zoneB"], str(st["up"]), str(st["lists"]))
        if key not in seen:
            seen.add(key)
            cfgs.append(st)
    # balance: the interesting ones are those with everything up (ACL decides) - keep at least half of them
    acl_cfgs = [c for c in cfgs if all(c["up"].values())]
    fault_cfgs = [c for c in cfgs if not all(c["up"].values())]
    cfgs = (acl_cfgs[: (2 * n) // 3] + fault_cfgs[: n // 3])[:n]
    # directed cover of "each list on the path decides on its own": every ordered zone pair of the firewall, everything
    # up, every list permits everything except exactly one that denies everything from A - with B on the zone's own
    # subnet and (for the internal zone) behind an inner router
    all_up = {k: True for k in ("nicA", "nicB", "portA", "portB", "linkA", "linkB", "onM", "onB")}
    universe = {"__set__": ["A", "B", "M", "MB", "MC", "other"]}
    directed = []
    for za in ("ext", "int", "dmz"):
        for zb in ("ext", "int", "dmz"):
            if za == zb:
                continue
            for blocker in (f"{za}_out" if za != "ext" else "ext_in", f"{zb}_in" if zb != "ext" else "ext_out"):
                lists = {k: {"rules": [], "implicit": "PERMIT"} for k in LISTS}
                lists[blocker] = {"rules": [{"act": "DENY", "src": {"__set__": ["A"]}, "dst": dict(universe), "proto": "any", "dport": 0}],
                                  "implicit": "PERMIT"}
                directed.append({"topo": "fw", "zoneA": za, "zoneB": zb, "up": dict(all_up), "lists": lists, "_directed": blocker})
    # ... and two fully open ones (nothing blocks: the attack must reach B - the non-interference comparison is not vacuous)
    opened = [{"topo": "fw", "zoneA": "dmz", "zoneB": "int", "up": dict(all_up), "lists": {k: {"rules": [], "implicit": "PERMIT"} for k in LISTS}},
              {"topo": "routed", "zoneA": "ext", "zoneB": "int", "up": dict(all_up), "lists": {k: {"rules": [], "implicit": "PERMIT"} for k in LISTS}}]
    cfgs = cfgs + opened
    cfgs = cfgs + (directed if tier != "quick" else [d for i, d in enumerate(directed) if (i + seed) % 2 == 0 or d["zoneB"] == "int"])
    common.boot()
    walks = Walks()
    walks.install()
    walk_traces, pair_traces = [], []
    n_blocked = n_open_changed = n_open = n_deep = 0
    errors: List[str] = []
    for ci, st in enumerate(cfgs):
        noncanon = bool(ci % 2)
        deep = st["topo"] == "fw" and st["zoneB"] == "int" and (bool((ci // 2) % 2) or "_directed" in st)
        if "_directed" in st and st["zoneB"] == "int" and not st.get("_twin"):
            # the directed internal-zone configurations run in both placements
            cfgs.append({**st, "_twin": True})
        if st.get("_twin"):
            deep = False
        net = Net(st, noncanon, deep)
        game = net.build()
        net.apply_faults(game)
        lists = net.read_lists()
        base = {"topo": net.topo, "zoneA": net.zoneA if net.topo == "fw" else "ext", "zoneB": net.zoneB if net.topo == "fw" else "int",
                "up": dict(st["up"]),
                "lists": {k: {"rules": [{kk: vv for kk, vv in r.items() if kk != "sport"} for r in v["rules"]], "implicit": v["implicit"]}
                          for k, v in lists.items()}}
        walks.target(net)
        random.seed(seed + ci)
        log: List[str] = []
        d_att = attack(net, game, rng, log)
        n_deep += 1 if deep else 0
        meta = {"part": "pipeline", "topo": net.topo, "deep": deep, "zones": [net.zoneA, net.zoneB], "up": st["up"], "config_index": ci,
                "lists_model": st["lists"] if net.topo != "lan" else {}}
        walk_traces += walks.take(base, meta)
        walks.net = None
        errors += log
        # idle twin
        net2 = Net(st, noncanon, deep)
        game2 = net2.build()
        net2.apply_faults(game2)
        random.seed(seed + ci)
        d_idle = idle(net2, game2, len(d_att))
        # the model's verdict for this configuration (computed by TLC semantics re-implemented nowhere: we ask TLC
        # through the trace: a pair trace is only *judged* when Blocked holds, which BlockingTrace evaluates)
        blocked = None  # decided by TLC below
        pair_traces.append({"st": st, "base": base, "att": d_att, "idle": d_idle, "meta": {"part": "non-interference", "topo": net.topo,
                                                                                          "zones": [net.zoneA, net.zoneB], "up": st["up"],
                                                                                          "config_index": ci}})
        chk.add_case({"topo": net.topo, "zones": [net.zoneA, net.zoneB], "up": st["up"], "lists": str(st["lists"])[:400]})
    res = tlc.validate("BlockingTrace", walk_traces, chunk=300)
    common.judge_traces(chk, "Blocking", walk_traces, res, sig_fn, selftest="BlockingTrace")
    # (ii) which configurations are blocked?  Ask TLC: a probe trace [Emit, MRecv, ..., BRecv(acc=TRUE)] is rejected
    # by clause BlockedNeverArrives exactly when the model's structural predicate Blocked holds.
    probes = []
    for p in pair_traces:
        c = dict(p["base"])
        c["pkt"] = {"dst": "B", "proto": "icmp", "dport": 0}
        probes.append({"cfg": c, "ev": [{"ev": "ProbeBlocked", "acc": True, "list": "", "perm": False}], "meta": {}})
    pres = tlc.validate("BlockingProbe", probes, chunk=300)
    traces2 = []
    for p, (reached, length) in zip(pair_traces, pres["results"]):
        blocked = reached == length + 1       # the probe event is accepted iff Blocked
        if blocked:
            n_blocked += 1
            a = {"steps": [{"kind": "step", "obs": "-", "reward": "-", "flags": "-", "agents": {}, "state": d} for d in p["att"]], "agents": [], "raised": None}
            b = {"steps": [{"kind": "step", "obs": "-", "reward": "-", "flags": "-", "agents": {}, "state": d} for d in p["idle"]], "agents": [], "raised": None}
            traces2.append(pairs.pair_trace(a, b, meta=p["meta"]))
        else:
            n_open += 1
            if p["att"] != p["idle"]:
                n_open_changed += 1
    if n_blocked == 0 or n_open_changed == 0:
        raise tlc.TLCError(f"vacuous non-interference part: blocked={n_blocked}, open configurations where B changed={n_open_changed}")
    res2 = tlc.validate("PairTrace", traces2)
    common.judge_traces(chk, "Pair", traces2, res2, lambda tr, e, s: {"part": "non-interference", "topo": tr["meta"]["topo"],
                                                                      "up": str(tr["meta"]["up"])})
    chk.cov["configurations"] = {"total": len(cfgs), "blocked_per_model": n_blocked, "open": n_open, "open_where_B_changed": n_open_changed}
    chk.cov["frame_walks"] = len(walk_traces)
    chk.cov["configurations_with_B_behind_an_inner_router"] = n_deep
    if n_deep == 0:
        raise tlc.TLCError("vacuous: no firewall configuration with B behind an inner router was drawn")
    if errors:
        chk.cov["attack_exceptions"] = sorted(set(errors))[:10]
    for tr in walk_traces[:2]:
        chk.sample({"cfg_pkt": tr["cfg"]["pkt"], "topo": tr["cfg"]["topo"], "events": tr["ev"]})
    chk.assumptions += [
        "the structural definition of Blocked (Blocking.tla) is trusted as the reading of 'every path is blocked'; TLC checks it against the staged walk",
        "rule lists are read back from the built ACL objects and abstracted to the symbolic addresses A, B, M, other",
        "B's state = attribute walk of B and everything it owns (not following links into the rest of the network)",
    ]
    return chk.finish()
