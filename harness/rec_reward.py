"""Recorder for RewardGraph.tla / RewardTrace.tla: one trace per episode of one scenario (C10).

The recorder wraps ``calculate`` of every registered reward component class (tracer.wrap; nothing in
/repo is edited) and remembers, per component object, what the call returned and what it was given.
After every game step the driver calls ``step()`` which reads the agents' ``current_reward`` /
``total_reward`` from the objects and emits one ``Step`` event; ``load()`` emits the ``Load`` event.

All values are integers in milli-units (floats never reach TLC); agents are numbered 1..n in the
order in which the scenario declares them.
"""
from __future__ import annotations

import math
from typing import Any, Dict, List, Optional

from . import tracer

CLIP = 2**30 - 1
STICKY_TYPES = ("web-server-404-penalty", "webpage-unavailable-penalty", "green-admin-database-unreachable-penalty")


def milli(x: Any) -> int:
    """Float -> integer milli-units (raises for non-numbers / non-finite values)."""
    v = float(x)
    if not math.isfinite(v):
        raise ValueError(f"non-finite reward {x!r}")
    return max(-CLIP, min(CLIP, int(round(v * 1000.0))))


def trace_cfg(cfg: Dict[str, Any], proxy: int = 0) -> Dict[str, Any]:
    """The configuration part of a trace, taken from the *scenario dict* (what the file says)."""
    agents = cfg.get("agents", [])
    names = [a["ref"] for a in agents]
    comps = []
    for a in agents:
        cs = []
        for c in (a.get("reward_function") or {}).get("reward_components", []) or []:
            typ = c["type"]
            opts = c.get("options") or {}
            w = milli(c.get("weight", 1.0))
            if typ == "shared-reward":
                other = opts.get("agent_name")
                cs.append({"w": w, "kind": "shared", "src": names.index(other) + 1 if other in names else 0,
                           "sticky": False, "typ": typ})
            elif typ in STICKY_TYPES:
                cs.append({"w": w, "kind": "sticky", "src": 0, "sticky": bool(opts.get("sticky", True)), "typ": typ})
            else:
                cs.append({"w": w, "kind": "own", "src": 0, "sticky": False, "typ": typ})
        comps.append(cs)
    return {"n": len(names), "names": names, "comps": comps, "proxy": proxy}


def _event(kind: str, n: int, **kw) -> Dict[str, Any]:
    d = {"ev": kind, "accepted": False, "order": [], "vals": [[] for _ in range(n)], "qual": [[] for _ in range(n)],
         "lar": [False] * n, "post": [False] * n, "once": [False] * n, "cur": [0] * n, "tot": [0] * n, "envr": 0, "exc": "",
         "fresh": [[] for _ in range(n)]}
    d.update(kw)
    return d


class RewardRecorder:
    def __init__(self):
        self.calls: Dict[int, Dict[str, Any]] = {}
        self.type_of: Dict[type, str] = {}
        self.states: List[Any] = []  # (state dict, step counter when it was taken), most recent last
        self.installed = False

    # -- installation: wrap calculate of every registered component class
    def install(self):
        if self.installed:
            return
        from primaite.game.agent.rewards import AbstractReward

        rec = self

        def after(comp, tok, ret, exc, *a, **k):
            state = k.get("state", a[0] if len(a) > 0 else None)
            lar = k.get("last_action_response", a[1] if len(a) > 1 else None)
            c = rec.calls.setdefault(id(comp), {"n": 0})
            c["n"] += 1
            c["ret"], c["exc"], c["state"], c["lar"] = ret, exc, state, lar

        from primaite.game.game import PrimaiteGame

        def after_state(game, tok, ret, exc):
            if exc is None:
                rec.states.append((ret, game.step_counter))
                del rec.states[:-4]

        tracer.wrap(PrimaiteGame, "get_sim_state", after=after_state)
        self.type_of = {cls: name for name, cls in AbstractReward._registry.items()}
        seen = set()
        for cls in AbstractReward._registry.values():
            if cls in seen:
                continue
            seen.add(cls)
            tracer.wrap(cls, "calculate", after=after)
        self.installed = True

    # -- one trace
    def begin(self, cfg: Dict[str, Any], proxy: int = 0, meta: Optional[Dict[str, Any]] = None,
              stimulus: Optional[Dict[str, Any]] = None) -> Dict[str, Any]:
        tc = trace_cfg(cfg, proxy)
        self.calls = {}
        return {"cfg": tc, "ev": [], "meta": meta or {}, "stimulus": stimulus or {}}

    @staticmethod
    def raised(tr: Dict[str, Any], where: str, exc: BaseException):
        tr["ev"].append(_event("Raised", tr["cfg"]["n"], exc=f"{where}:{type(exc).__name__}:{str(exc)[:120]}"))

    def load(self, tr: Dict[str, Any], game, exc: Optional[BaseException]):
        """The outcome of PrimaiteGame.from_config / env construction / env.reset."""
        n = tr["cfg"]["n"]
        names = tr["cfg"]["names"]
        if exc is not None:
            if isinstance(exc, RuntimeError) and "cycle in agent reward sharing" in str(exc):
                tr["ev"].append(_event("Load", n, accepted=False))
            else:
                self.raised(tr, "load", exc)
            return
        if list(game.agents.keys()) != names:
            raise RuntimeError("harness: agents of the game are not the declared agents in declaration order")
        order = [names.index(x) + 1 if x in names else 0 for x in list(game._reward_calculation_order)]
        tot = [milli(a.reward_function.total_reward) for a in game.agents.values()]
        tr["ev"].append(_event("Load", n, accepted=True, order=order, tot=tot))
        self.calls = {}

    def step(self, tr: Dict[str, Any], game, env_reward: Optional[float] = None):
        """Called after a completed game step: read everything from the objects."""
        n = tr["cfg"]["n"]
        vals, qual, lar_ok, post_ok, once_ok, cur, tot, fresh = [], [], [], [], [], [], [], []
        try:
            for ai, (name, agent) in enumerate(game.agents.items()):
                ccfg = tr["cfg"]["comps"][ai]
                comps = agent.reward_function.reward_components
                if len(comps) != len(ccfg):
                    raise RuntimeError("harness: component list of the object differs from the scenario's")
                last = agent.history[-1] if agent.history else None
                # "that agent's own latest action": the item the agent logged for the step just taken
                v_a, q_a, f_a, ok = [], [], [], last is not None and last.timestep == game.step_counter - 1
                post = once = True
                for (comp, _w), cc in zip(comps, ccfg):
                    if self.type_of.get(type(comp)) != cc["typ"]:
                        raise RuntimeError("harness: component type mismatch")
                    c = self.calls.get(id(comp))
                    if c is None or c["n"] != 1 or c["exc"] is not None:
                        # not evaluated (or several times) in this step: something the implementation did
                        once = False
                        if c is None:
                            v_a.append(0)
                            q_a.append(False)
                            f_a.append(0)
                            continue
                    v_a.append(milli(c["ret"]))
                    ok = ok and (c["lar"] is last)
                    # "post-step state": a state taken from the simulation after this step's tick
                    post = post and any(c["state"] is st and cnt == game.step_counter for st, cnt in self.states)
                    q_a.append(self._qualifying(comp, cc, c["state"], last))
                    f_a.append(self._fresh(comp, cc, c, v_a[-1]))
                vals.append(v_a)
                qual.append(q_a)
                fresh.append(f_a)
                lar_ok.append(bool(ok))
                post_ok.append(bool(post))
                once_ok.append(bool(once))
                cur.append(milli(agent.reward_function.current_reward))
                tot.append(milli(agent.reward_function.total_reward))
            envr = milli(env_reward) if env_reward is not None else 0
        finally:
            self.calls = {}
        tr["ev"].append(_event("Step", n, vals=vals, qual=qual, lar=lar_ok, post=post_ok, once=once_ok, cur=cur, tot=tot, envr=envr,
                               fresh=fresh))

    def _fresh(self, comp, cc, call, actual: int) -> int:
        """What a memory-less twin of a sticky-capable component (same class, same options, sticky off, built now) returns
        for the same state and the same latest action: at a qualifying event a component's value is its fresh
        evaluation, whatever it remembered.  Other components: the value itself (no claim)."""
        if cc["kind"] != "sticky":
            return actual
        # two components have their fresh value stated in their docstrings: computed here from the agent's own latest
        # history item and the state the component was shown - never from the component's class
        try:
            lar, state, typ = call["lar"], call["state"], cc["typ"]
            status = getattr(getattr(lar, "response", None), "status", None)
            if typ == "green-admin-database-unreachable-penalty":
                # "always recalculate fresh value": the connection attempt succeeded or it did not
                return milli(1.0 if status == "success" else -1.0)
            if typ == "webpage-unavailable-penalty":
                # "when the agent requests to execute the browser and that request fails ..." -> -1; else by the outcome
                # of the latest page load (200 -> 1, pending / no history -> 0, anything else -> -1)
                if status != "success":
                    return milli(-1.0)
                try:
                    hist = state["network"]["nodes"][comp.config.node_hostname]["applications"]["web-browser"]["history"]
                except (KeyError, TypeError):
                    hist = None
                if not hist:
                    return milli(0.0)
                outcome = hist[-1]["outcome"]
                return milli(0.0 if outcome == "PENDING" else 1.0 if outcome == 200 else -1.0)
        except Exception:  # noqa - no claim
            return actual
        saved = self.calls
        try:
            self.calls = {}
            twin = type(comp)(config=comp.config.model_copy(update={"sticky": False}))
            return milli(twin.calculate(call["state"], call["lar"]))
        except Exception:  # noqa - the twin could not be built / evaluated: no claim
            return actual
        finally:
            self.calls = saved

    @staticmethod
    def _qualifying(comp, cc, state, last) -> bool:
        """Did the event a sticky-capable component reacts to occur in this step?  Computed from the
        agent's own latest history item / the state the component was shown, not from the component."""
        typ = cc["typ"]
        if typ == "webpage-unavailable-penalty":
            return last is not None and list(last.request) == [
                "network", "node", comp.config.node_hostname, "application", "web-browser", "execute"]
        if typ == "green-admin-database-unreachable-penalty":
            return last is not None and list(last.request) == [
                "network", "node", comp.config.node_hostname, "application", "database-client", "execute"]
        if typ == "web-server-404-penalty":
            try:
                svc = state["network"]["nodes"][comp.config.node_hostname]["services"][comp.config.service_name]
            except (KeyError, TypeError):
                return False
            return bool(svc.get("response_codes_this_timestep"))
        return False
