"""Recorder for Health.tla / HealthTrace.tla (C14).

Every write to ``Software.health_state_actual / health_state_visible`` and to
``File/Folder.health_status / visible_health_status`` is reported by ``tracer.watch`` and attributed to the
*enclosing context*: the stack of frames pushed by wrappers around ``Simulation.apply_request`` (with the
request path), ``Simulation.apply_timestep`` (the tick), the tick phases of the code
(``Software.apply_timestep``, ``Folder._scan_timestep``, ``Folder._restoring_timestep``, the whole-node scan =
``Software.scan`` / ``FileSystem.scan`` called straight from the tick), ``Node._start_up_actions`` and
``DatabaseService._process_sql``, and by the harness around direct Python-API stimuli.  When the outermost
frame closes, each *track* (one software and/or one folder with up to two files on one node) gets the events
of HealthTrace.tla: one per request (named from the request path), and per tick ``TickBegin``, one event per
completion phase in the order in which the code ran them, ``TickEnd``.  A write in no known context becomes
``Other`` (no spec action).  The projected state in every event is read from the objects (files by name).
"""
from __future__ import annotations

from typing import Any, Dict, List, Optional, Tuple

from . import tracer

SW_FIELDS = {"health_state_actual", "health_state_visible"}
FS_FIELDS = {"health_status", "visible_health_status"}
SLOTS = ["swA", "swV", "fH1", "fH2", "fV1", "fV2", "foV"]

SW_OPS = {"compromise": "SwCompromise", "fix": "SwFix", "scan": "SwScan", "start": "SwStart"}
FOLDER_OPS = {"scan": "FolderScanReq", "repair": "FolderRepair", "restore": "FolderRestoreReq", "corrupt": "FolderCorrupt"}
FILE_OPS = {"scan": "FileScan", "repair": "FileRepair", "restore": "FileRestore", "corrupt": "FileCorrupt"}
PHASE_EVENT = {"os": "OsScanDone", "fix": "FixDone", "scan": "FoScanDone", "restore": "RestoreDone", "start": "PowerOn", "install": "InstallDone",
               "stray": "Other"}


class Track:
    """One trace under construction."""

    def __init__(self, node, sw=None, folder: Optional[str] = None, files: Tuple[Optional[str], Optional[str]] = (None, None),
                 meta: Optional[Dict[str, Any]] = None, declared: Optional[Dict[str, int]] = None):
        self.node, self.sw, self.folder_name, self.file_names = node, sw, folder, list(files)
        self.host = node.config.hostname
        self.meta = dict(meta or {})
        self.ev: List[Dict[str, Any]] = []
        self.log: List[Dict[str, Any]] = []      # writes of the current outermost frame
        self.stray = 0
        self.drift: Dict[str, int] = {}
        self.shadow = self.project()
        self.lv = self.shadow["lv"]
        self.on = self.shadow["on"]
        fo = self.folder()
        self.cfg = {
            "fix": int(sw.config.fixing_duration) if sw is not None else 1,
            "scan": int(fo.scan_duration) if fo is not None else 1,
            "rest": int(fo.restore_duration) if fo is not None else 1,
            "node": int(node.config.node_scan_duration),
            "a": self.shadow["a"], "v": self.shadow["v"], "fh": self.shadow["fh"], "fv": self.shadow["fv"],
            "fov": self.shadow["fov"],
            "inst": bool(sw is not None and getattr(sw.operating_state, "name", "") == "INSTALLING"),
        }
        # durations the SCENARIO states (when the caller knows them) win over what the built objects say: "the configured
        # duration" is the one written in the scenario, an object that did not take it over is the thing to find
        self.cfg.update({k: int(v) for k, v in (declared or {}).items()})

    # -- objects by name -----------------------------------------------------------------
    def folder(self):
        if self.folder_name is None:
            return None
        return self.node.file_system.get_folder(self.folder_name, include_deleted=True)

    def file(self, k: int):
        fo = self.folder()
        n = self.file_names[k]
        if fo is None or n is None:
            return None
        # (the harness' own lookup, not Folder.get_file: the live file of that name, else the one deleted LAST)
        for f in fo.files.values():
            if f.name == n:
                return f
        for f in reversed(list(fo.deleted_files.values())):
            if f.name == n:
                return f
        return None

    def concerns(self, obj) -> bool:
        if obj is self.sw:
            return True
        if self.folder_name is None:
            return False
        return obj is self.folder() or obj is self.file(0) or obj is self.file(1)

    def project(self) -> Dict[str, Any]:
        sw = self.sw
        p: Dict[str, Any] = {
            "a": sw.health_state_actual.name if sw is not None else "GOOD",
            "v": sw.health_state_visible.name if sw is not None else "GOOD",
            "fh": [], "fv": [], "lv": [],
            "on": self.node.operating_state.name == "ON",
        }
        fo = self.folder()
        for k in (0, 1):
            f = self.file(k)
            if f is None:
                p["fh"].append("GOOD"), p["fv"].append("NONE"), p["lv"].append(False)
            else:
                p["fh"].append(f.health_status.name), p["fv"].append(f.visible_health_status.name)
                p["lv"].append(bool(not f.deleted and not fo.deleted and f.uuid in fo.files))
        p["fov"] = fo.visible_health_status.name if fo is not None else "NONE"
        return p

    @staticmethod
    def slots(p) -> Dict[str, str]:
        return {"swA": p["a"], "swV": p["v"], "fH1": p["fh"][0], "fH2": p["fh"][1], "fV1": p["fv"][0],
                "fV2": p["fv"][1], "foV": p["fov"]}

    # -- event construction ----------------------------------------------------------------
    def note(self, tag: str, extra: Optional[Dict[str, Any]] = None):
        """A watched write (or a phase marker) just happened under `tag`."""
        p = self.project()
        old, new = self.slots(self.shadow), self.slots(p)
        self.log.append({"tag": tag, "p": p, "wr": [s for s in SLOTS if old[s] != new[s]], **(extra or {})})
        self.shadow = p

    def emit(self, ev: str, p: Dict[str, Any], i: int = 0, ok: bool = True, wr: Optional[List[str]] = None, ctx: str = ""):
        if p["on"] != self.on and ev not in ("PowerOn", "PowerOff"):
            # the node's power state moved: that is an event of its own, before this one
            q = dict(self.ev[-1]) if self.ev else None
            base = {"a": self.cfg["a"], "v": self.cfg["v"], "fh": self.cfg["fh"], "fv": self.cfg["fv"], "fov": self.cfg["fov"]} \
                if q is None else {k: q[k] for k in ("a", "v", "fh", "fv", "fov")}
            self.ev.append({"ev": "PowerOn" if p["on"] else "PowerOff", "i": 0, "ok": True, **base, "lv": list(self.lv),
                            "on": p["on"], "wr": [], "stray": 0, "ctx": ctx})
            self.on = p["on"]
        self.ev.append({"ev": ev, "i": int(i), "ok": bool(ok), "a": p["a"], "v": p["v"], "fh": list(p["fh"]),
                        "fv": list(p["fv"]), "fov": p["fov"], "lv": list(self.lv), "on": p["on"],
                        "wr": sorted(set(wr or [])), "stray": self.stray, "ctx": ctx})
        self.stray = 0
        self.on = p["on"]
        self.lv = list(p["lv"])

    def target(self, path: List[Any]) -> Optional[Tuple[str, int]]:
        """Name of the HealthTrace event a request path means for this track (None: it is not aimed at it)."""
        if len(path) < 4 or path[0] != "network" or path[1] != "node" or path[2] != self.host:
            return None
        r = path[3:]
        if r[0] in ("service", "application") and len(r) >= 3 and self.sw is not None and r[1] == self.sw.name:
            return (SW_OPS[r[2]], 0) if r[2] in SW_OPS else None
        if r[:2] == ["os", "scan"]:
            return ("OsScanReq", 0)
        if r[0] != "file_system" or self.folder_name is None:
            return None
        r = r[1:]

        def slot(name):
            return self.file_names.index(name) + 1 if name in self.file_names else 0

        if len(r) >= 3 and r[0] == "folder" and r[1] == self.folder_name:
            if len(r) == 3 and r[2] in FOLDER_OPS:
                return (FOLDER_OPS[r[2]], 0)
            if len(r) >= 5 and r[2] == "file" and r[4] in FILE_OPS and slot(r[3]):
                return (FILE_OPS[r[4]], slot(r[3]))
            if len(r) >= 4 and r[2] == "delete" and slot(r[3]):
                return ("FileDelete", slot(r[3]))
            return None
        if len(r) >= 3 and r[0] == "restore" and r[1] == "folder" and r[2] == self.folder_name:
            return ("FolderRestoreReq", 0)
        if len(r) >= 4 and r[0] == "restore" and r[1] == "file" and r[2] == self.folder_name and slot(r[3]):
            return ("FileRestore", slot(r[3]))
        if len(r) >= 4 and r[0] == "delete" and r[1] == "file" and r[2] == self.folder_name and slot(r[3]):
            return ("FileDelete", slot(r[3]))
        if len(r) >= 3 and r[0] == "delete" and r[1] == "folder" and r[2] == self.folder_name:
            return ("FileDelete", 0)
        return None

    def trace(self, stimulus: Any = None) -> Dict[str, Any]:
        return {"cfg": self.cfg, "ev": self.ev, "meta": {**self.meta, "drift": self.drift}, "stimulus": stimulus}


class Recorder:
    """Process-wide instrumentation; tracks are attached / detached per run."""

    def __init__(self):
        self.frames: List[Tuple] = []
        self.tracks: List[Track] = []
        self.by_sw: Dict[int, List[Track]] = {}
        self.installed = False
        self.tick_all = True        # every track gets TickBegin / TickEnd for every tick

    # -- tracks ------------------------------------------------------------------------------
    def attach(self, tr: Track):
        self.tracks.append(tr)
        if tr.sw is not None:
            self.by_sw.setdefault(id(tr.sw), []).append(tr)

    def detach_all(self):
        self.tracks, self.by_sw, self.frames = [], {}, []

    # -- frames ------------------------------------------------------------------------------
    def push(self, *frame):
        self.frames.append(tuple(frame))

    def pop(self, ok: Any = None, exc: Optional[BaseException] = None):
        fr = self.frames.pop()
        if not self.frames:
            self.flush(fr, ok, exc)

    def stim(self, name: str, i: int = 0):
        """Context manager for a direct Python-API stimulus of the harness (SQL query, connection ...)."""
        rec = self

        class _S:
            ok = True

            def __enter__(s):
                rec.push("Stim", name, i)
                return s

            def __exit__(s, et, ev, tb):
                rec.pop(s.ok, ev)
                return False

        return _S()

    def tag_for(self, tr: Track) -> Tuple[str, Dict[str, Any]]:
        """Which request / tick phase is writing now, from the frame stack."""
        fr = self.frames
        if not fr:
            return "none", {}
        kinds = [f[0] for f in fr]
        extra: Dict[str, Any] = {}
        for f in fr:
            if f[0] == "Sql":
                extra["sql"] = f[1]
        if "StartUp" in kinds:
            return "start", extra
        if fr[0][0] != "Tick":
            return "req", extra
        if len(fr) == 1:
            return "stray", extra
        f1 = fr[1]
        if f1[0] == "AppTick":
            if len(fr) == 2:
                return ("install" if f1[1] is tr.sw else "stray"), extra
            f1 = fr[2]
        if f1[0] == "SwTick":
            return ("fix" if f1[1] is tr.sw else "stray"), extra
        if f1[0] == "FoScanTick":
            return ("scan" if f1[1] is tr.folder() else "stray"), extra
        if f1[0] == "FoRestoreTick":
            return ("restore" if f1[1] is tr.folder() else "stray"), extra
        if f1[0] in ("SwScan", "FsScan"):
            return "os", extra
        return "stray", extra

    # -- watched writes ----------------------------------------------------------------------
    def on_sw_write(self, obj, name, old, new):
        for tr in self.by_sw.get(id(obj), ()):
            self._written(tr)

    def on_fs_write(self, obj, name, old, new):
        for tr in self.tracks:
            if tr.folder_name is not None and tr.concerns(obj):
                if name == "health_status" and obj is tr.folder() and old is not new:
                    tag, _ = self.tag_for(tr)
                    k = f"folder_true_health_written_in_{tag}"
                    tr.drift[k] = tr.drift.get(k, 0) + 1
                self._written(tr)

    def _written(self, tr: Track):
        tag, extra = self.tag_for(tr)
        if tag == "none":
            p = tr.project()
            if Track.slots(p) != Track.slots(tr.shadow):
                tr.stray += 1
            tr.shadow = p
            return
        tr.note(tag, extra)

    # -- closing the outermost frame ---------------------------------------------------------------
    def flush(self, frame: Tuple, ok: Any, exc: Optional[BaseException]):
        for tr in self.tracks:
            log, tr.log = tr.log, []
            if frame[0] == "Tick":
                self._flush_tick(tr, log, exc)
            elif frame[0] == "PreTick":
                if any(e["wr"] for e in log):
                    tr.emit("Other", tr.project(), wr=[s for e in log for s in e["wr"]], ctx="PreTick")
            else:
                self._flush_request(tr, frame, log, ok, exc)

    def _flush_request(self, tr: Track, frame: Tuple, log, ok, exc):
        wr = [s for e in log for s in e["wr"]]
        p = tr.project()
        ctx = "/".join(str(x) for x in (frame[1] if frame[0] == "Req" else frame[:2]))[:160]
        if frame[0] == "Stim":
            name, i = frame[1], frame[2]
        else:
            t = tr.target(list(frame[1]))
            if t is not None:
                name, i = t
            elif not log and p["on"] == tr.on:
                return
            elif any(e["tag"] == "start" for e in log) or (not wr and p["on"] and not tr.on):
                name, i = "PowerOn", 0
            elif not wr and not p["on"] and tr.on:
                name, i = "PowerOff", 0
            elif not wr:
                return                     # writes that changed nothing, in a request that is not about this item
            else:
                sql = [e.get("sql") for e in log if e.get("sql")]
                changed = [s for s in wr if s.startswith("fH")]
                if sql and sql[-1] in ("DELETE", "ENCRYPT"):
                    name, i = ("SqlDelete" if sql[-1] == "DELETE" else "SqlEncrypt"), (int(changed[0][2]) if changed else 0)
                else:
                    name, i = "Other", 0
        if exc is not None:
            tr.emit("Raised", p, i, False, wr, ctx)
            tr.meta["exception"] = repr(exc)
            return
        tr.emit(name, p, i, bool(ok), wr, ctx)

    def _flush_tick(self, tr: Track, log, exc):
        begin = dict(tr.ev[-1]) if tr.ev else None
        p0 = {k: (begin[k] if begin else tr.cfg[k]) for k in ("a", "v", "fh", "fv", "fov")}
        p0.update({"lv": list(tr.lv), "on": tr.on})
        tr.emit("TickBegin", p0, ctx="Tick")
        # group consecutive writes of the same phase
        groups: List[Dict[str, Any]] = []
        for e in log:
            if groups and groups[-1]["tag"] == e["tag"]:
                groups[-1]["p"] = e["p"]
                groups[-1]["wr"] += e["wr"]
            else:
                groups.append({"tag": e["tag"], "p": e["p"], "wr": list(e["wr"])})
        for g in groups:
            if g["tag"] == "stray" and not g["wr"]:
                continue                   # a write that changed nothing, outside every known phase
            tr.emit(PHASE_EVENT.get(g["tag"], "Other"), g["p"], 0, True, g["wr"], "Tick:" + g["tag"])
        p = tr.project()
        if exc is not None:
            tr.emit("Raised", p, 0, False, [], "Tick")
            tr.meta["exception"] = repr(exc)
            return
        tr.emit("TickEnd", p, ctx="Tick")

    # -- installation ------------------------------------------------------------------------------
    def install(self):
        if self.installed:
            return
        from primaite.simulator.file_system.file_system import FileSystem
        from primaite.simulator.file_system.file_system_item_abc import FileSystemItemABC
        from primaite.simulator.file_system.folder import Folder
        from primaite.simulator.network.hardware.base import Node
        from primaite.simulator.sim_container import Simulation
        from primaite.simulator.system.applications.application import Application
        from primaite.simulator.system.services.database.database_service import DatabaseService
        from primaite.simulator.system.software import Software

        rec = self
        tracer.watch(Software, SW_FIELDS, rec.on_sw_write)
        tracer.watch(FileSystemItemABC, FS_FIELDS, rec.on_fs_write)

        def framed(cls, method, kind, arg=None, result_ok=None):
            def before(obj, *a, **k):
                rec.push(kind, obj if arg is None else arg(obj, *a, **k))
                return None

            def after(obj, tok, ret, exc, *a, **k):
                rec.pop(result_ok(ret) if result_ok and exc is None else None, exc)

            tracer.wrap(cls, method, before=before, after=after)

        framed(Simulation, "apply_request", "Req", arg=lambda obj, request, *a, **k: tuple(request),
               result_ok=lambda r: getattr(r, "status", None) == "success")
        framed(Simulation, "apply_timestep", "Tick")
        framed(Simulation, "pre_timestep", "PreTick")
        framed(Software, "apply_timestep", "SwTick")
        framed(Software, "scan", "SwScan")

        # whole-node scan: on a folder without files it writes nothing: mark the phase from the code's own call
        def fs_before(fs, *a, **k):
            rec.push("FsScan", fs)
            return bool(k.get("instant_scan", a[0] if a else False))

        def fs_after(fs, tok, ret, exc, *a, **k):
            if tok and exc is None and rec.frames and rec.frames[0][0] == "Tick" and len(rec.frames) == 2:
                for tr in rec.tracks:
                    if tr.folder_name is not None and tr.node.file_system is fs:
                        tr.note("os")
            rec.pop(None, exc)

        tracer.wrap(FileSystem, "scan", before=fs_before, after=fs_after)
        framed(Folder, "_scan_timestep", "FoScanTick")
        framed(Node, "_start_up_actions", "StartUp")
        framed(Application, "apply_timestep", "AppTick")
        framed(DatabaseService, "_process_sql", "Sql",
               arg=lambda obj, *a, **k: str(a[0] if a else k.get("query")))

        # folder restore: its completion may write nothing (no file needed repair): mark it from the code's own
        # completion test so that the spec sees the phase
        def r_before(folder):
            rec.push("FoRestoreTick", folder)
            return folder.restore_countdown

        def r_after(folder, tok, ret, exc):
            if isinstance(tok, int) and tok > 0 and folder.restore_countdown == 0 and rec.frames and rec.frames[0][0] == "Tick":
                for tr in rec.tracks:
                    if tr.folder_name is not None and tr.folder() is folder:
                        tr.note("restore")
            rec.pop(None, exc)

        tracer.wrap(Folder, "_restoring_timestep", before=r_before, after=r_after)
        self.installed = True


REC = Recorder()
