"""Extension EXT-terminal (beyond the listed properties): the Terminal service and its SSH-like protocol against
spec/Ssh.tla (C16 / Sessions.tla decides WHEN logins succeed; this check is about the protocol and the tables at
the two ends).

(a) MC_Ssh is checked exhaustively (and MC_SshAsCoded.cfg must be refuted); (b) TLC -simulate behaviours of
MC_SshSim.cfg plus directed sequences are replayed as stimulus on a real network  a, b, c -- r  (every node on its own
subnet of one router, whose ACL is used for blocking the SSH port): the four requests of the terminal, the
`remote_logout' request of the user session manager, the Python API of terminal.rst (Terminal.login,
connection.execute / disconnect), service stop / start, node shutdown / startup and ticks; (c) wrappers on
Simulation.apply_request, Terminal.receive / execute / _send_remote_login / _disconnect,
RemoteTerminalConnection.execute, UserSessionManager._login / _logout, SoftwareManager.send_payload_to_session_manager
and Simulation.pre_timestep record one event per spec action (a message sent, a message handled, a message lost, the
brackets) with the tables projected from the real objects; (d) TLC validates the traces against SshTrace.tla;
(e) a shipped scenario (uc7_config_tap003.yaml: the TAP003 insider logs into routers over SSH and sends commands) is
stepped with random blue actions and scripted terminal requests and projected onto every node that has a terminal.
Run: ./check EXT-terminal"""
from __future__ import annotations

import copy
import random
import re
from typing import Any, Dict, List, Optional

from . import common, scenarios, tlc, tracer

MC_ACTIONS = ("MLoginBegin", "MCmdBegin", "MLogoffBegin", "MKickBegin", "MLocalBegin", "MLoginSend", "MLoginRecv",
              "MLoginOkRecv", "MLoginReturn", "MCmdSend", "MCmdRecv", "MCmdReplyRecv", "MCmdReturn", "MDiscSend",
              "MKickSend", "MDiscRecv", "MLogoffReturn", "MKickReturn", "MLost", "MLocalExec", "MLocalReturn",
              "MTickBegin", "MTimeoutPush", "MTimeoutRecv", "MTickEnd", "MPower", "MSvcSet", "MBlock")
REPLAY_EVENTS = ("Begin", "LoginSend", "LoginRecv", "LoginOkRecv", "CmdSend", "CmdRecv", "CmdReplyRecv", "DiscSend",
                 "KickSend", "DiscRecv", "TimeoutPush", "TimeoutRecv", "Lost", "LocalExec", "Return", "TickBegin",
                 "TickEnd", "Power", "SvcSet", "Block")
DEFAULTS = {"kind": "", "nd": "", "peer": "", "good": False, "cmd": 0, "id": 0, "out": "", "nout": 0, "ok": False,
            "st": "", "tag": 0, "exec": False, "via": "", "flag": False, "eff": []}
VERBS = {"node_session_remote_login": "login", "send_remote_command": "cmd", "remote_logoff": "logoff",
         "send_local_command": "local"}
IPS = {"a": "192.168.1.2", "b": "192.168.2.2", "c": "192.168.3.2"}
BLOCK_POS = 0
_CUR: List[Optional["World"]] = [None]
_INSTALLED = [False]


def net_cfg() -> Dict[str, Any]:
    S = scenarios
    dur = {"start_up_duration": 0, "shut_down_duration": 0}
    nodes = [
        S.host("a", IPS["a"], "computer", gw="192.168.1.1", **dur),
        S.host("b", IPS["b"], "server", gw="192.168.2.1", **dur),
        S.host("c", IPS["c"], "computer", gw="192.168.3.1", **dur),
        {"hostname": "r", "type": "router", "num_ports": 4,
         "ports": {1: {"ip_address": "192.168.1.1", "subnet_mask": "255.255.255.0"},
                   2: {"ip_address": "192.168.2.1", "subnet_mask": "255.255.255.0"},
                   3: {"ip_address": "192.168.3.1", "subnet_mask": "255.255.255.0"}},
         "acl": {10: {"action": "PERMIT"}}},
    ]
    links = [S.link("a", 1, "r", 1), S.link("b", 1, "r", 2), S.link("c", 1, "r", 3)]
    return S.base_cfg(nodes, links)


def _san(name: str) -> str:
    return "h_" + re.sub(r"[^A-Za-z0-9_]", "_", name)


class World:
    """One recorded run: the real nodes that have a terminal, and the trace(s) being written."""

    def __init__(self, game, names: Dict[str, str], net: str, meta: Dict[str, Any]):
        from primaite.simulator.network.hardware.node_operating_state import NodeOperatingState
        from primaite.simulator.system.services.service import ServiceOperatingState
        from primaite.simulator.system.services.terminal.terminal import RemoteTerminalConnection

        self.NOS, self.SOS, self.RTC = NodeOperatingState, ServiceOperatingState, RemoteTerminalConnection
        self.game = game
        network = game.simulation.network
        self.node = {m: network.get_node_by_hostname(h) for m, h in names.items()}
        self.host = dict(names)
        self.by_host = {h: m for m, h in names.items()}
        self.name_of_node = {id(nd): m for m, nd in self.node.items()}
        self.ip2name: Dict[str, str] = {}
        for m, nd in self.node.items():
            for nic in nd.network_interface.values():
                if getattr(nic, "ip_address", None) is not None:
                    self.ip2name[str(nic.ip_address)] = m
        self.net = net
        self.ids: Dict[str, int] = {}
        self.issued: Dict[str, str] = {}           # connection uuid -> model name of the node whose usm issued it
        self.frames: List[Dict[str, Any]] = []     # active Terminal.receive handlers (innermost last)
        self.bracket: Optional[Dict[str, Any]] = None
        self.nrecv = 0
        self.ncmd = 0
        self.markers: Dict[str, int] = {}          # marker text of a command -> its number
        self.resp_cmd: Dict[int, Any] = {}         # id(RequestResponse) -> (response kept alive, command number)
        self.segments: List[Dict[str, Any]] = []
        self.meta = meta
        self.cuts: Dict[str, int] = {}
        self.counts: Dict[str, int] = {}
        self.last_env: Optional[Dict[str, Any]] = None
        self.trace: Dict[str, Any] = {}
        self.timeout = 0
        self.max_remote = 0
        self.pending_cut: Optional[str] = None
        self.nmark = 0
        self.handles: Dict[Any, Any] = {}

    # -- projection of the real objects onto the variables of Ssh.tla
    def canon(self, uuid: Any) -> int:
        u = str(uuid)
        k = self.ids.get(u)
        if k is None:
            k = len(self.ids) + 1
            self.ids[u] = k
        return k

    def peer_name(self, ip: Any) -> str:
        return self.ip2name.get(str(ip), "x_" + re.sub(r"[^0-9]", "_", str(ip)))

    def tables(self, m: str) -> Dict[str, Any]:
        nd = self.node[m]
        cli, srv, sess = [], [], []
        term = nd.software_manager.software.get("terminal")
        if term is not None:
            for cid, cn in term._connections.items():  # noqa
                if not isinstance(cn, self.RTC):
                    continue
                rec = {"id": self.canon(cid), "peer": self.peer_name(cn.ip_address)}
                (srv if self.issued.get(str(cid)) == m else cli).append(rec)
        usm = nd.software_manager.software.get("user-session-manager")
        if usm is not None:
            for sid, s in usm.remote_sessions.items():
                sess.append({"id": self.canon(sid), "peer": self.peer_name(s.remote_ip_address)})
        key = lambda r: (r["id"], r["peer"])  # noqa
        return {"cli": sorted(cli, key=key), "srv": sorted(srv, key=key), "sess": sorted(sess, key=key)}

    def flags(self):
        on, run = {}, {}
        for m, nd in self.node.items():
            on[m] = nd.operating_state == self.NOS.ON
            term = nd.software_manager.software.get("terminal")
            run[m] = term is not None and term.operating_state == self.SOS.RUNNING
        return on, run

    def project(self) -> Dict[str, Any]:
        on, run = self.flags()
        return {"on": on, "run": run, "net": self.net, "tb": {m: self.tables(m) for m in self.node}}

    def start(self, reason: str = ""):
        """Begin a (new) trace from the tables as they are now."""
        usms = [nd.software_manager.software["user-session-manager"] for nd in self.node.values()]
        tos = {int(u.remote_session_timeout_steps) for u in usms}
        mrs = {int(u.max_remote_sessions) for u in usms}
        if len(tos) != 1 or len(mrs) != 1:
            raise RuntimeError(f"harness: nodes with different session limits {tos} {mrs}")
        self.timeout, self.max_remote = tos.pop(), mrs.pop()
        pr = self.project()
        nid = max([0] + [r["id"] for t in pr["tb"].values() for k in t for r in t[k]])
        tb0 = copy.deepcopy(pr["tb"])
        for m, nd in self.node.items():      # a trace that starts in the middle of a run: how long each session has been idle
            usm = nd.software_manager.software["user-session-manager"]
            idle = {self.canon(sid): max(0, int(usm.current_timestep) - int(s.last_active_step)) for sid, s in usm.remote_sessions.items()}
            for r in tb0[m]["sess"]:
                r["idle"] = idle.get(r["id"], 0)
        self.trace = {"cfg": {"nodes": sorted(self.node), "timeout": self.timeout, "maxRemote": self.max_remote,
                              "on": pr["on"], "run": pr["run"], "net": pr["net"], "tb": tb0, "nid": nid},
                      "ev": [], "meta": dict(self.meta, segment=len(self.segments), started_by=reason), "stimulus": []}
        self.last_env = {"on": pr["on"], "run": pr["run"]}
        self.bracket = None

    def cut(self, reason: str):
        """Something this module does not model happened inside the current request: the trace ends before that
        request, a new one starts from the tables as they are afterwards."""
        self.cuts[reason] = self.cuts.get(reason, 0) + 1
        b = self.bracket
        if b is not None and b.get("start") is not None:
            del self.trace["ev"][b["start"]:]
        self.bracket = None
        self.pending_cut = reason

    def finish_cut(self):
        if self.pending_cut and not self.frames and self.bracket is None:
            reason, self.pending_cut = self.pending_cut, None
            stim = self.trace.get("stimulus", [])
            self.segments.append(self.trace)
            self.start(reason)
            self.trace["stimulus"] = list(stim)

    def emit(self, ev: str, slot: Optional[int] = None, **kw) -> int:
        if self.pending_cut:
            return -1
        e = dict(DEFAULTS)
        e["eff"] = []
        e.update(kw)
        e.update(self.project())
        e["ev"] = ev
        self.counts[ev] = self.counts.get(ev, 0) + 1
        if slot is None:
            self.trace["ev"].append(e)
            return len(self.trace["ev"]) - 1
        self.trace["ev"][slot] = e
        return slot

    def sync(self):
        on, run = self.flags()
        if self.last_env is not None and {"on": on, "run": run} != self.last_env:
            self.emit("Env")
        self.last_env = {"on": on, "run": run}

    def note_env(self):
        on, run = self.flags()
        self.last_env = {"on": on, "run": run}

    def close(self) -> List[Dict[str, Any]]:
        if _CUR[0] is self:
            _CUR[0] = None
        if self.bracket is not None and self.bracket.get("start") is not None and not self.bracket.get("closed"):
            del self.trace["ev"][self.bracket["start"]:]
        self.segments.append(self.trace)
        out = [t for t in self.segments if t["ev"]]
        for t in out:
            t["meta"]["cuts"] = dict(self.cuts)
        return out

    # -- helpers for the wrappers
    def name_of(self, node) -> Optional[str]:
        return self.name_of_node.get(id(node))

    def good(self, m: str, user: str, pw: str) -> bool:
        um = self.node[m].software_manager.software.get("user-manager")
        u = um.users.get(user) if um is not None else None
        return bool(u is not None and not u.disabled and u.password == pw)

    def new_cmd(self, command: Any) -> int:
        self.ncmd += 1
        for tok in re.findall(r"vf\d+x", repr(command)):
            self.markers[tok] = self.ncmd
        return self.ncmd

    def tag_of(self, resp: Any) -> int:
        """The number of the command whose answer this is (by the identity of the response object, else by the marker
        text of the command in its data); 0 = cannot tell."""
        from primaite.interface.request import RequestResponse

        seen = []

        def walk(o, depth=0):
            if depth > 4:
                return
            seen.append(o)
            if isinstance(o, RequestResponse):
                walk(o.data, depth + 1)
            elif isinstance(o, dict):
                for v in o.values():
                    walk(v, depth + 1)
            elif isinstance(o, (list, tuple)):
                for v in o:
                    walk(v, depth + 1)

        walk(resp)
        for o in seen:
            hit = self.resp_cmd.get(id(o))
            if hit is not None and hit[0] is o:
                return hit[1]
        text = repr(getattr(resp, "data", resp))
        for tok, num in self.markers.items():
            if tok in text:
                return num
        return 0

    def effect(self, cmd_num: int) -> List[str]:
        toks = [t for t, k in self.markers.items() if k == cmd_num]
        out = []
        for m, nd in self.node.items():
            if any(nd.file_system.get_folder(t) is not None for t in toks):
                out.append(m)
        return sorted(out)

    def req(self, model_node: str, *tail):
        return self.game.simulation.apply_request(["network", "node", self.host.get(model_node, model_node), *tail])


def _kind_of_payload(payload) -> Optional[str]:
    from primaite.simulator.network.protocols.ssh import SSHPacket, SSHTransportMessage as TM

    if isinstance(payload, SSHPacket):
        return {TM.SSH_MSG_USERAUTH_REQUEST: "LoginReq", TM.SSH_MSG_USERAUTH_SUCCESS: "LoginOk",
                TM.SSH_MSG_SERVICE_REQUEST: "Cmd", TM.SSH_MSG_SERVICE_SUCCESS: "CmdReply",
                TM.SSH_MSG_SERVICE_FAILED: "CmdReply"}.get(payload.transport_message, "Other")
    if isinstance(payload, dict) and payload.get("type") == "disconnect":
        return "Disc"
    if isinstance(payload, dict) and payload.get("type") == "user_timeout":
        return "Timeout"
    return None


def install():
    """Wrappers in the harness process (never edits /repo); they report to the World in _CUR."""
    if _INSTALLED[0]:
        return
    _INSTALLED[0] = True
    from primaite.interface.request import RequestResponse
    from primaite.simulator.network.hardware.base import UserSessionManager
    from primaite.simulator.sim_container import Simulation
    from primaite.simulator.system.core.software_manager import SoftwareManager
    from primaite.simulator.system.services.terminal.terminal import RemoteTerminalConnection, Terminal

    def term_node(w: World, term) -> Optional[str]:
        sm = getattr(term, "software_manager", None)
        return w.name_of(sm.node) if sm is not None else None

    # ---- brackets ------------------------------------------------------------------------------------------
    def open_bracket(w: World, kind: str, nd: str, via: str, **kw):
        w.finish_cut()
        w.sync()
        b = {"kind": kind, "nd": nd, "via": via, "start": len(w.trace["ev"]), "cmd": kw.get("cmd", 0), "closed": False}
        w.bracket = b
        w.emit("Begin", kind=kind, nd=nd, via=via, **kw)
        return b

    def close_bracket(w: World, b, exc, ok: bool, st: str, tag: int = 0):
        if w.bracket is not b:      # cut while it was open
            w.finish_cut()
            return
        if exc is not None:
            w.emit("Raised", nd=b["nd"])
            w.trace["meta"]["exception"] = repr(exc)[:300]
        else:
            eff = w.effect(b["cmd"]) if b["kind"] in ("cmd", "local") and b["cmd"] else []
            w.emit("Return", kind=b["kind"], nd=b["nd"], via=b["via"], ok=ok, st=st, tag=tag, eff=eff)
        b["closed"] = True
        w.bracket = None
        w.note_env()

    def before_request(sim, request, *a, **k):
        w = _CUR[0]
        if w is None or w.game.simulation is not sim or w.bracket is not None or w.frames:
            return None
        r = list(request)
        if len(r) < 6 or r[0] != "network" or r[1] != "node" or r[3] != "service" or r[4] != "terminal" or r[5] not in VERBS:
            return None
        nd = w.by_host.get(r[2])
        if nd is None:
            return None
        kind, args = VERBS[r[5]], r[6:]
        try:
            if kind == "login":
                peer = w.peer_name(args[2])
                kw = {"peer": peer, "good": w.good(peer, args[0], args[1]) if peer in w.node else False}
            elif kind == "cmd":
                kw = {"peer": w.peer_name(args[0]), "cmd": w.new_cmd(args[1]["command"])}
            elif kind == "logoff":
                kw = {"peer": w.peer_name(args[0])}
            else:
                kw = {"good": w.good(nd, args[0], args[1]), "cmd": w.new_cmd(args[2]["command"])}
        except Exception:  # noqa - a malformed request is not this module's business
            return None
        return (w, open_bracket(w, kind, nd, "req", **kw))

    def after_request(sim, tok, ret, exc, *a, **k):
        if tok is None:
            return
        w, b = tok
        if isinstance(ret, RequestResponse):
            st = ret.status
        else:
            st = "none" if ret is None else "other"
        close_bracket(w, b, exc, st == "success", st, w.tag_of(ret) if isinstance(ret, RequestResponse) else 0)

    tracer.wrap(Simulation, "apply_request", before=before_request, after=after_request)

    def before_login(term, username=None, password=None, ip_address=None, connection_request_id=None, is_reattempt=False):
        w = _CUR[0]
        if w is None or is_reattempt or w.bracket is not None or w.frames:
            return None
        nd = term_node(w, term)
        if nd is None:
            return None
        peer = w.peer_name(ip_address)
        return (w, open_bracket(w, "login", nd, "api", peer=peer,
                                good=w.good(peer, username, password) if peer in w.node else False))

    def after_login(term, tok, ret, exc, *a, **k):
        if tok is not None:
            w, b = tok
            close_bracket(w, b, exc, ret is not None, "success" if ret is not None else "failure")

    tracer.wrap(Terminal, "_send_remote_login", before=before_login, after=after_login)

    def before_conn_exec(conn, command=None, *a, **k):
        w = _CUR[0]
        if w is None or w.bracket is not None or w.frames:
            return None
        nd = term_node(w, conn.parent_terminal)
        if nd is None:
            return None
        return (w, open_bracket(w, "cmd", nd, "api", peer=w.peer_name(conn.ip_address), cmd=w.new_cmd(command)))

    def after_conn_exec(conn, tok, ret, exc, *a, **k):
        if tok is not None:
            w, b = tok
            close_bracket(w, b, exc, bool(ret), "")

    tracer.wrap(RemoteTerminalConnection, "execute", before=before_conn_exec, after=after_conn_exec)

    def before_disconnect(term, connection_uuid=None, *a, **k):
        w = _CUR[0]
        if w is None or w.bracket is not None or w.frames:
            return None
        nd = term_node(w, term)
        cn = term._connections.get(connection_uuid)  # noqa
        if nd is None or not isinstance(cn, RemoteTerminalConnection) or w.issued.get(str(connection_uuid)) == nd:
            return None
        return (w, open_bracket(w, "logoff", nd, "api", peer=w.peer_name(cn.ip_address)))

    def after_disconnect(term, tok, ret, exc, *a, **k):
        if tok is not None:
            w, b = tok
            close_bracket(w, b, exc, bool(ret), "success" if ret else "failure")

    tracer.wrap(Terminal, "_disconnect", before=before_disconnect, after=after_disconnect)

    def before_logout(usm, local=True, remote_session_id=None, *a, **k):
        w = _CUR[0]
        if w is None or local or not remote_session_id:
            return None
        nd = w.name_of(usm.software_manager.node) if usm.software_manager is not None else None
        if nd is None:
            return None
        if w.frames or w.bracket is not None:
            # a session ended from inside another request: by the handler of a disconnect message (modelled there),
            # or as the side effect of an executed command (not modelled)
            top = w.frames[-1] if w.frames else None
            if not (top is not None and top["kind"] == "Disc" and top["nd"] == nd):
                w.cut("session-ended-by-an-executed-command")
            return None
        return (w, open_bracket(w, "kick", nd, "api", id=w.canon(remote_session_id)))

    def after_logout(usm, tok, ret, exc, *a, **k):
        if tok is not None:
            w, b = tok
            close_bracket(w, b, exc, bool(ret), "")

    tracer.wrap(UserSessionManager, "_logout", before=before_logout, after=after_logout)

    def after_usm_login(usm, tok, ret, exc, *a, **k):
        w = _CUR[0]
        if w is None or exc is not None or not ret or k.get("local", a[2] if len(a) > 2 else True):
            return
        nd = w.name_of(usm.software_manager.node) if usm.software_manager is not None else None
        if nd is None:
            return
        w.issued[str(ret)] = nd
        top = w.frames[-1] if w.frames else None
        if top is not None and top["kind"] == "LoginReq" and top["nd"] == nd:
            top["issued"].append(str(ret))
        else:
            # a remote session that no terminal asked for (the user session manager's own remote_login request)
            w.cut("session-opened-without-a-login-message")

    tracer.wrap(UserSessionManager, "_login", after=after_usm_login)

    # ---- messages --------------------------------------------------------------------------------------------
    def before_send(sm, payload=None, *a, **k):
        w = _CUR[0]
        if w is None:
            return None
        kind = _kind_of_payload(payload)
        nd = w.name_of(sm.node)
        if kind is None or nd is None:
            return None
        top = w.frames[-1] if w.frames else None
        if top is not None and top["nd"] == nd:
            top["out"].append(kind)
        elif w.bracket is None and kind != "Timeout":
            return None     # terminal traffic outside anything observed (cannot happen through the hooks above)
        else:
            b = w.bracket or {}
            if kind == "LoginReq":
                w.emit("LoginSend", nd=nd)
            elif kind == "Cmd":
                w.emit("CmdSend", nd=nd, id=w.canon(payload.connection_uuid))
            elif kind == "Disc":
                if b.get("kind") == "kick":
                    w.emit("KickSend", nd=nd)
                else:
                    w.emit("DiscSend", nd=nd, id=w.canon(payload["connection_id"]))
            elif kind == "Timeout":
                w.emit("TimeoutPush", nd=nd, id=w.canon(payload["connection_id"]))
            else:
                w.emit("StraySend", nd=nd, out=kind, nout=1)
        return (w, w.nrecv)

    def after_send(sm, tok, ret, exc, *a, **k):
        if tok is None:
            return
        w, n0 = tok
        if w.nrecv == n0 and exc is None and _CUR[0] is w and not w.pending_cut:
            w.emit("Lost")

    tracer.wrap(SoftwareManager, "send_payload_to_session_manager", before=before_send, after=after_send)

    def before_receive(term, *a, **k):
        w = _CUR[0]
        if w is None:
            return None
        nd = term_node(w, term)
        payload = k.get("payload", a[1] if len(a) > 1 else (a[0] if a else None))
        kind = _kind_of_payload(payload)
        if nd is None or kind is None:
            return None
        w.nrecv += 1
        fr = {"nd": nd, "kind": kind, "out": [], "issued": [], "exec": False, "st": "", "slot": None}
        if not w.pending_cut:
            fr["slot"] = w.emit("Pending", nd=nd)
        w.frames.append(fr)
        return (w, fr)

    EV_OF = {"LoginReq": "LoginRecv", "LoginOk": "LoginOkRecv", "Cmd": "CmdRecv", "CmdReply": "CmdReplyRecv",
             "Disc": "DiscRecv", "Timeout": "TimeoutRecv", "Other": "OtherRecv"}

    def after_receive(term, tok, ret, exc, *a, **k):
        if tok is None:
            return
        w, fr = tok
        if w.frames and w.frames[-1] is fr:
            w.frames.pop()
        if w.pending_cut or fr["slot"] is None or fr["slot"] >= len(w.trace["ev"]):
            w.finish_cut()
            return
        if exc is not None:
            w.emit("Raised", slot=fr["slot"], nd=fr["nd"])
            w.trace["meta"]["exception"] = repr(exc)[:300]
            return
        out = fr["out"]
        kw = {"nd": fr["nd"], "out": out[0] if out else "", "nout": len(out)}
        if fr["kind"] == "LoginReq":
            kw["id"] = w.canon(fr["issued"][0]) if fr["issued"] else 0
        if fr["kind"] == "Cmd":
            kw["exec"], kw["st"] = fr["exec"], fr["st"]
        w.emit(EV_OF[fr["kind"]], slot=fr["slot"], **kw)

    tracer.wrap(Terminal, "receive", before=before_receive, after=after_receive)

    def after_execute(term, tok, ret, exc, *a, **k):
        w = _CUR[0]
        if w is None or exc is not None:
            return
        nd = term_node(w, term)
        if nd is None:
            return
        st = ret.status if isinstance(ret, RequestResponse) else "none"
        top = w.frames[-1] if w.frames else None
        b = w.bracket
        if top is not None and top["nd"] == nd and top["kind"] == "Cmd":
            top["exec"], top["st"] = True, st
            if b is not None and isinstance(ret, RequestResponse):
                w.resp_cmd[id(ret)] = (ret, b["cmd"])
        elif b is not None and b["kind"] == "local" and b["nd"] == nd and not w.frames:
            if isinstance(ret, RequestResponse):
                w.resp_cmd[id(ret)] = (ret, b["cmd"])
            w.emit("LocalExec", nd=nd, st=st)

    tracer.wrap(Terminal, "execute", after=after_execute)

    # ---- time --------------------------------------------------------------------------------------------------
    def before_tick(sim, *a, **k):
        w = _CUR[0]
        if w is None or w.game.simulation is not sim:
            return None
        w.finish_cut()
        w.sync()
        w.bracket = {"kind": "tick", "nd": "", "via": "", "start": None, "cmd": 0}
        w.emit("TickBegin")
        return w

    def after_tick(sim, tok, ret, exc, *a, **k):
        if tok is None:
            return
        w = tok
        if exc is not None:
            w.emit("Raised")
            w.trace["meta"]["exception"] = repr(exc)[:300]
        else:
            w.emit("TickEnd")
        w.bracket = None
        w.note_env()
        w.finish_cut()

    tracer.wrap(Simulation, "pre_timestep", before=before_tick, after=after_tick)


# ---------------------------------------------------------------------------------------------------------------
# replay of model behaviours / directed sequences
# ---------------------------------------------------------------------------------------------------------------


def _params(s: str) -> List[Any]:
    out: List[Any] = []
    for tok in re.findall(r'"[^"]*"|TRUE|FALSE|-?\d+', s or ""):
        out.append(tok[1:-1] if tok.startswith('"') else (tok == "TRUE" if tok in ("TRUE", "FALSE") else int(tok)))
    return out


def stimulus_of(beh, rng: random.Random) -> List[List[Any]]:
    out: List[List[Any]] = []
    for st in beh[1:]:
        a, p = st["action"], _params(st["params"])
        via = "api" if rng.random() < 0.25 else "req"
        if a == "MLoginBegin":
            out.append(["login", p[0], p[1], p[2], via])
        elif a == "MCmdBegin":
            out.append(["cmd", p[0], p[1], rng.choice(["ok", "ok", "ok", "fail", "unk"]), via])
        elif a == "MLogoffBegin":
            out.append(["logoff", p[0], p[1], via])
        elif a == "MKickBegin":
            out.append(["kick", p[0], p[1]])
        elif a == "MLocalBegin":
            out.append(["local", p[0], p[1], rng.choice(["ok", "ok", "fail"])])
        elif a == "MTickBegin":
            out.append(["tick"])
        elif a == "MPower":
            out.append(["power", p[0]])
        elif a == "MSvcSet":
            out.append(["svc", p[0]])
        elif a == "MBlock":
            out.append(["block"])
    return out


def directed() -> List[Dict[str, Any]]:
    """Sequences in the model's alphabet that random simulation reaches rarely (validated by TLC like the others)."""
    T = ["tick"]
    L = lambda c, s, g=True, via="req": ["login", c, s, g, via]  # noqa
    C = lambda c, s, m="ok", via="req": ["cmd", c, s, m, via]  # noqa
    O = lambda c, s, via="req": ["logoff", c, s, via]  # noqa
    return [
        {"name": "login-commands-logoff", "to": 3, "mr": 3,
         "steps": [L("a", "b"), C("a", "b"), C("a", "b", "fail"), C("a", "b", "unk"), C("a", "b"), O("a", "b"), C("a", "b"), O("a", "b")]},
        {"name": "api-login-commands-disconnect", "to": 3, "mr": 3,
         "steps": [L("a", "b", True, "api"), C("a", "b", "ok", "api"), C("a", "b", "fail", "api"), O("a", "b", "api"),
                   C("a", "b", "ok", "api"), L("c", "b", False, "api"), C("c", "b", "ok", "api")]},
        {"name": "refused-logins", "to": 3, "mr": 1,
         "steps": [L("a", "b", False), C("a", "b"), L("a", "b"), L("c", "b"), C("c", "b"), C("a", "b"), O("a", "b"), L("c", "b"), C("c", "b")]},
        {"name": "time-out-both-ends", "to": 2, "mr": 3,
         "steps": [T, L("a", "b"), L("c", "b"), T, C("a", "b"), T, T, C("c", "b"), C("a", "b"), T, T, T, C("a", "b"), O("a", "b")]},
        {"name": "time-out-client-unreachable", "to": 1, "mr": 3,
         "steps": [T, L("a", "b"), ["power", "a"], T, T, T, ["power", "a"], O("a", "b"), L("a", "b"), ["block"], T, T, T, ["block"], O("a", "b")]},
        {"name": "server-side-logout", "to": 3, "mr": 3,
         "steps": [L("a", "b"), L("c", "b"), ["kick", "b", 0], C("a", "b"), C("c", "b"), ["kick", "b", 0], C("c", "b"), ["kick", "b", 7], O("a", "b")]},
        {"name": "two-connections-to-one-server", "to": 3, "mr": 3,
         "steps": [L("a", "b"), L("a", "b"), C("a", "b"), O("a", "b"), C("a", "b"), O("a", "b"), C("a", "b"), O("a", "b")]},
        {"name": "local-commands", "to": 3, "mr": 3,
         "steps": [["local", "a", True, "ok"], ["local", "a", True, "fail"], ["local", "b", True, "ok"], T, ["local", "a", True, "ok"]]},
        {"name": "power-and-service-cycles-without-traffic-in-between", "to": 3, "mr": 3,
         "steps": [L("a", "b"), ["svc", "b"], ["svc", "b"], C("a", "b"), ["power", "b"], ["power", "b"], C("a", "b"), ["svc", "a"], ["svc", "a"],
                   C("a", "b"), O("a", "b")]},
        {"name": "logoff-with-server-unreachable", "to": 3, "mr": 3,
         "steps": [L("a", "b"), ["power", "b"], O("a", "b"), ["power", "b"], L("a", "b"), C("a", "b"), ["block"], O("a", "b"), ["block"],
                   L("a", "b"), C("a", "b")]},
        # commands on a connection whose session the server has ended while the client could not be told
        {"name": "dead-connection-after-kick-client-off", "to": 3, "mr": 3,
         "steps": [L("a", "b"), ["power", "a"], ["kick", "b", 0], ["power", "a"], C("a", "b")]},
        {"name": "dead-connection-after-time-out-port-blocked", "to": 1, "mr": 3,
         "steps": [T, L("a", "b"), ["block"], T, T, ["block"], C("a", "b")]},
        {"name": "dead-connection-after-kick-client-stopped", "to": 3, "mr": 3,
         "steps": [L("a", "b"), L("c", "b"), ["svc", "a"], ["kick", "b", 0], ["svc", "a"], C("a", "b"), C("c", "b")]},
        # the triggers of the divergences found on the unchanged tree, each on its own so that they mask nothing else
        {"name": "command-without-reply-server-stopped", "to": 3, "mr": 3, "steps": [L("a", "b"), C("a", "b"), ["svc", "b"], C("a", "b")]},
        {"name": "command-without-reply-server-off", "to": 3, "mr": 3, "steps": [L("a", "b"), ["power", "b"], C("a", "b")]},
        {"name": "command-without-reply-port-blocked", "to": 3, "mr": 3, "steps": [L("a", "b"), C("a", "b", "fail"), ["block"], C("a", "b")]},
        {"name": "command-by-stopped-client", "to": 3, "mr": 3, "steps": [L("a", "b"), ["svc", "a"], C("a", "b")]},
        {"name": "login-by-stopped-client", "to": 3, "mr": 3, "steps": [["svc", "a"], L("a", "b"), ["svc", "a"], C("a", "b")]},
        {"name": "logoff-by-stopped-client", "to": 3, "mr": 3, "steps": [L("a", "b"), ["svc", "a"], O("a", "b")]},
        {"name": "local-command-bad-credentials", "to": 3, "mr": 3, "steps": [["local", "a", False, "ok"]]},
        # an account that is disabled while its local session is still open
        {"name": "local-command-account-disabled-in-between", "to": 5, "mr": 3,
         "steps": [["local2", "a", "ok"], ["local2", "a", "ok"], ["disable2", "a"], ["local2", "a", "ok"], T, ["local2", "a", "ok"],
                   ["local", "a", True, "ok"]]},
        {"name": "local-command-terminal-stopped", "to": 3, "mr": 3, "steps": [["svc", "a"], ["local", "a", True, "ok"]]},
        {"name": "mutual-logins-command", "to": 3, "mr": 3, "steps": [L("b", "a"), L("a", "b"), C("a", "b")]},
        {"name": "mutual-logins-logoff", "to": 3, "mr": 3, "steps": [L("b", "a"), L("a", "b"), O("a", "b"), C("b", "a")]},
    ]


def _first_conn_is_client(w: World, c: str, s: str) -> bool:
    """Would the terminal of c, looking its connections up by the address of s, find one it holds as a client?"""
    term = w.node[c].software_manager.software["terminal"]
    for cid, cn in term._connections.items():  # noqa
        if isinstance(cn, w.RTC) and str(cn.ip_address) == IPS[s]:
            return w.issued.get(str(cid)) != c
    return True


def _would_be_answered(w: World, c: str, s: str) -> bool:
    """(stimulus selection only) would a command from c reach the terminal of s and the reply come back?"""
    on, run = w.flags()
    return on[c] and run[c] and on[s] and run[s] and w.net == "open"


def run_steps(steps: List[List[Any]], timeout: int, max_remote: int, avoid: bool, meta: Dict[str, Any]) -> List[Dict[str, Any]]:
    from ipaddress import IPv4Address

    game = scenarios.build(net_cfg())
    w = World(game, {m: m for m in IPS}, "open", meta)
    for m, nd in w.node.items():
        usm = nd.software_manager.software["user-session-manager"]
        usm.remote_session_timeout_steps = timeout
        usm.local_session_timeout_steps = timeout
        usm.max_remote_sessions = max_remote
        for tail in (["service", "user-manager", "add_user", "u1", "pw", False], ["service", "user-manager", "disable_user", "u1"],
                     ["service", "user-manager", "add_user", "u2", "pw2", False]):
            if w.req(m, *tail).status != "success":
                raise RuntimeError("harness: could not prepare the disabled account")
    _CUR[0] = w
    w.start()

    def creds(good: bool):
        return ("admin", "admin") if good else (("admin", "wrong") if w.ncmd % 2 else ("u1", "pw"))

    def command(mode: str):
        w.nmark += 1
        tok = f"vf{w.nmark}x"
        return {"ok": ["file_system", "create", "folder", tok], "fail": ["file_system", "delete", "folder", tok],
                "unk": [tok + "_nonsense"]}[mode]

    for st in steps:
        kind = st[0]
        try:
            if kind == "login":
                _, c, s, good, via = st
                if avoid and not w.flags()[1][c] and w.flags()[0][c]:
                    continue   # divergence: a terminal that is not running still sends the login request
                u, p = creds(good)
                if via == "api":
                    h = w.node[c].software_manager.software["terminal"].login(username=u, password=p, ip_address=IPv4Address(IPS[s]))
                    if h is not None:
                        w.handles[(c, s)] = h
                else:
                    w.req(c, "service", "terminal", "node_session_remote_login", u, p, IPS[s])
            elif kind == "cmd":
                _, c, s, mode, via = st
                if avoid and not _first_conn_is_client(w, c, s):
                    continue   # divergence: the connection is looked up by address among client AND server ends
                h = w.handles.get((c, s))
                if via == "api" and h is not None:
                    h.execute(command(mode))
                else:
                    st[4] = "req"
                    has = any(r["peer"] == s for r in w.tables(c)["cli"])
                    if avoid and has and not _would_be_answered(w, c, s):
                        continue   # divergence: a command without reply is answered with an earlier answer
                    if avoid and has and not any(r["id"] in {x["id"] for x in w.tables(s)["sess"]} for r in w.tables(c)["cli"] if r["peer"] == s):
                        continue   # (the same: the server rejects the command and sends no reply)
                    w.req(c, "service", "terminal", "send_remote_command", IPS[s], {"command": command(mode)})
            elif kind == "logoff":
                _, c, s, via = st
                h = w.handles.get((c, s))
                up = w.flags()[0][c] and w.flags()[1][c]
                if avoid and ((w.flags()[0][c] and not up) or (via == "api" and h is not None and not up)
                              or not _first_conn_is_client(w, c, s)):
                    continue   # divergences: a terminal that is not running / whose node is off still sends the disconnect
                if via == "api" and h is not None:
                    h.disconnect()
                    w.handles.pop((c, s), None)
                else:
                    st[3] = "req"
                    w.req(c, "service", "terminal", "remote_logoff", IPS[s])
            elif kind == "kick":
                _, s, k = st
                sids = sorted(w.node[s].software_manager.software["user-session-manager"].remote_sessions, key=w.canon)
                sid = sids[k % len(sids)] if sids and k != 7 else "no-such-session"
                w.req(s, "service", "user-session-manager", "remote_logout", sid)
            elif kind == "local":
                _, x, good, mode = st
                on, run = w.flags()
                if avoid and on[x] and not (good and run[x]):
                    continue   # divergence: send_local_command answers success when nothing was executed
                u, p = creds(good)
                w.req(x, "service", "terminal", "send_local_command", u, p, {"command": command(mode)})
            elif kind == "local2":
                # a second, ordinary account (enabled at first) runs a local command; "disable2" disables it in between
                _, x, mode = st
                w.req(x, "service", "terminal", "send_local_command", "u2", "pw2", {"command": command(mode)})
            elif kind == "disable2":
                w.req(st[1], "service", "user-manager", "disable_user", "u2")
            elif kind == "tick":
                game.pre_timestep()
                game.advance_timestep()
            elif kind == "power":
                m = st[1]
                was = w.flags()
                w.req(m, "shutdown" if was[0][m] else "startup")
                if w.flags() != was:
                    w.finish_cut()
                    w.emit("Power", nd=m, flag=w.flags()[0][m])
                    w.note_env()
            elif kind == "svc":
                m = st[1]
                was = w.flags()
                if not was[0][m]:
                    continue
                w.req(m, "service", "terminal", "stop" if was[1][m] else "start")
                if w.flags() != was:
                    w.finish_cut()
                    w.emit("SvcSet", nd=m, flag=w.flags()[1][m])
                    w.note_env()
            elif kind == "block":
                if w.net == "open":
                    resp = game.simulation.apply_request(["network", "node", "r", "acl", "add_rule", "DENY", "TCP", "ALL", "NONE", "ALL",
                                                          "ALL", "NONE", "SSH", BLOCK_POS])
                    new = "blocked"
                else:
                    resp = game.simulation.apply_request(["network", "node", "r", "acl", "remove_rule", BLOCK_POS])
                    new = "open"
                if resp.status != "success":
                    raise RuntimeError(f"harness: ACL request refused: {resp}")
                w.finish_cut()
                w.net = new
                w.emit("Block", flag=new == "blocked")
        except RuntimeError:
            raise
        except Exception as e:  # noqa - an exception out of repository code is an event no action allows
            if not (w.trace["ev"] and w.trace["ev"][-1]["ev"] == "Raised"):
                w.pending_cut = None
                w.emit("Raised")
            w.trace["meta"]["exception"] = repr(e)[:300]
            w.trace["stimulus"].append(st)
            break
        w.trace["stimulus"].append(list(st))
    w.finish_cut()
    w.sync()
    return w.close()


# ---------------------------------------------------------------------------------------------------------------
# scenario-scale run
# ---------------------------------------------------------------------------------------------------------------


def run_scenario(name: str, seed: int, n_steps: int, episodes: int, scripted: float) -> List[Dict[str, Any]]:
    """Step a shipped scenario (random blue actions; its scripted agents act by themselves) and, between steps, let a few
    hosts use their terminals; every node that has a terminal is projected."""
    from primaite.session.environment import PrimaiteGymEnv
    from primaite.simulator import SIM_OUTPUT

    cfg = copy.deepcopy(scenarios.shipped(name))
    io = cfg.setdefault("io_settings", {})
    for k in ("save_agent_actions", "save_step_metadata", "save_pcap_logs", "save_sys_logs", "save_agent_logs"):
        io[k] = False
    env = PrimaiteGymEnv(env_config=cfg)
    SIM_OUTPUT.save_pcap_logs = SIM_OUTPUT.save_sys_logs = SIM_OUTPUT.save_agent_logs = False
    rng = random.Random(seed * 7919 + 23)
    traces: List[Dict[str, Any]] = []
    for ep in range(episodes):
        env.reset(seed=seed + ep)
        game = env.game
        names: Dict[str, str] = {}
        for nd in game.simulation.network.nodes.values():
            sw = getattr(nd, "software_manager", None)
            if sw is not None and "terminal" in sw.software and "user-session-manager" in sw.software:
                names[_san(nd.config.hostname)] = nd.config.hostname
        if len(names) < 2:
            raise RuntimeError(f"harness: no terminals in {name}")
        w = World(game, names, "unknown", {"scenario": name, "episode": ep, "seed": seed})
        _CUR[0] = w
        w.start()
        hosts = sorted(m for m, nd in w.node.items() if type(nd).__name__ in ("Computer", "Server"))
        ip_of = {m: ip for ip, m in w.ip2name.items()}
        n_act = env.action_space.n
        try:
            for t in range(n_steps):
                if rng.random() < scripted and len(hosts) >= 2:
                    c, s = rng.sample(hosts, 2)
                    r = rng.random()
                    w.nmark += 1
                    cmd = {"command": ["file_system", "create", "folder", f"vf{w.nmark}x"]}
                    held = [x for x in w.tables(c)["cli"]]
                    if held and r < 0.55:
                        s = rng.choice(held)["peer"]
                        if s in ip_of:
                            w.req(c, "service", "terminal", "send_remote_command", ip_of[s], cmd)
                    elif held and r < 0.7:
                        s = rng.choice(held)["peer"]
                        if s in ip_of:
                            w.req(c, "service", "terminal", "remote_logoff", ip_of[s])
                    elif r < 0.9:
                        w.req(c, "service", "terminal", "node_session_remote_login", "admin", "admin" if rng.random() < 0.85 else "nope", ip_of[s])
                    else:
                        w.req(c, "service", "terminal", "send_local_command", "admin", "admin", cmd)
                env.step(rng.randrange(n_act))
        except Exception as e:  # noqa
            w.pending_cut = None
            w.emit("Raised")
            w.trace["meta"]["exception"] = repr(e)[:300]
        w.finish_cut()
        w.sync()
        segs = w.close()
        for sgm in segs:
            sgm["meta"]["event_counts"] = dict(w.counts)
        traces += segs
    try:
        env.close()
    except Exception:  # noqa
        pass
    return traces


CAUSES = [
    ("AnswerIsThisCommand", "Return", "command-without-reply-is-answered-with-an-earlier-answer"),
    ("OnlyRunningSends", "Send", "terminal-that-is-not-running-still-sends"),
    ("LocalAnswerSaysSo", "Return", "local-command-answered-success-although-nothing-was-executed"),
    ("UsesOwnClientConnection", "Send", "connection-looked-up-by-address-among-client-and-server-ends"),
]


def sig_fn(tr, event, stuck) -> Dict[str, Any]:
    """Canonical key of a rejected trace: the root cause, not the circumstances (those are in the replay file)."""
    fail = set((stuck or {}).get("fail") or [])
    st = (stuck or {}).get("st") or {}
    call = st.get("call") if isinstance(st, dict) and isinstance(st.get("call"), dict) else {}
    for clause, ev, cause in CAUSES:
        if clause in fail:
            if clause == "AnswerIsThisCommand" and call.get("got"):
                cause = "answer-of-the-request-differs-from-the-reply-the-client-received"
            return {"clause": clause, "event": ev, "cause": cause}
    return {"kind": call.get("kind", ""), "where": "scenario" if tr["meta"].get("scenario") else "replay"}


def main(tier: str, seed: int) -> int:
    import time
    from concurrent.futures import ThreadPoolExecutor

    chk = common.Check("EXT-terminal", "model_checking", tier, seed)
    quick = tier == "quick"
    rng = random.Random(seed)
    t0 = time.time()
    phases: Dict[str, float] = {}
    pool = ThreadPoolExecutor(max_workers=4)

    # (a) exhaustive model + the negative configuration, (b) behaviours of the model: TLC runs while primaite boots
    n_beh = 90 if quick else 900
    f_mc = pool.submit(tlc.mc, "MC_Ssh", workers=8)
    f_neg = pool.submit(tlc.mc, "MC_Ssh", cfg="MC_SshAsCoded.cfg", workers=2)
    f_sim = pool.submit(tlc.simulate, "MC_Ssh", cfg="MC_SshSim.cfg", num=n_beh, depth=110, seed=seed + 41)
    common.boot()
    install()
    phases["boot"] = round(time.time() - t0, 1)
    behs, info = f_sim.result()
    chk.cov["transitions"] += info["states"]
    sim_seen = {s["action"] for b in behs for s in b}
    lacking = [a for a in MC_ACTIONS if a not in sim_seen]
    if lacking:
        raise tlc.TLCError(f"vacuous stimulus set: model actions never taken in {len(behs)} behaviours: {lacking}")

    traces: List[Dict[str, Any]] = []
    for i, beh in enumerate(behs):
        st0 = beh[0]["state"]
        avoid = i % 3 != 0     # two thirds keep away from the triggers of the divergences already found (DESIGN 5.3)
        segs = run_steps(stimulus_of(beh, rng), int(st0["timeout"]), int(st0["maxRemote"]), avoid,
                         {"source": "tlc-simulate", "index": i, "avoid": avoid})
        traces += segs
        for tr in segs:
            chk.add_case(tr["stimulus"], nontrivial=any(e["ev"] == "LoginOkRecv" for e in tr["ev"]))
    for d in directed():
        for rep in range(1 if quick else 3):
            segs = run_steps([list(s) for s in d["steps"]], d["to"], d["mr"], False, {"source": "directed", "name": d["name"]})
            traces += segs
            for tr in segs:
                chk.add_case(tr["stimulus"])
    phases["replay"] = round(time.time() - t0, 1)
    f_val = pool.submit(tlc.validate, "SshTrace", traces, chunk=30 if quick else 100)

    # (e) scenario-scale, recorded while TLC validates the replay traces
    sc_traces: List[Dict[str, Any]] = []
    for name, steps_n, eps in ([("uc7_config_tap003.yaml", 90, 1)] if quick else
                               [("uc7_config_tap003.yaml", 128, 3), ("uc7_config.yaml", 100, 1)]):
        try:
            sc_traces += run_scenario(name, seed, steps_n, eps, scripted=0.5)
        except StopIteration:
            chk.notes.append(f"{name}: no single proxy agent, skipped")
    if not sc_traces:
        raise RuntimeError("no scenario-scale trace recorded")
    phases["scenario"] = round(time.time() - t0, 1)
    f_val_sc = pool.submit(tlc.validate, "SshTrace", sc_traces, chunk=2)

    r = f_mc.result()
    if not r["ok"]:
        chk.violation({"module": "MC_Ssh", "clause": str(r["violation"])}, {"tlc": r["output_tail"]})
    chk.add_mc("MC_Ssh(2 nodes, each client and server; MaxRemote 1..2, Timeout 2; 6 requests / environment steps)", r)
    for act in MC_ACTIONS:
        if r["coverage"].get(act, (0, 0))[1] == 0:
            raise tlc.TLCError(f"vacuous model: action {act} never taken")
    rn = f_neg.result()
    if rn["ok"] or not rn["violation"] or rn["violation"][1] != "AnswerIsThisCommand":
        raise tlc.TLCError(f"negative configuration MC_SshAsCoded was not refuted as expected: {rn['violation']}")
    chk.cov["negative_configuration"] = {"model": "MC_SshAsCoded", "refuted_by": list(rn["violation"]),
                                         "distinct_states": rn["distinct"]}
    if not quick:
        rd = tlc.mc("MC_Ssh", cfg="MC_SshDeep.cfg")
        if not rd["ok"]:
            chk.violation({"module": "MC_SshDeep", "clause": str(rd["violation"])}, {"tlc": rd["output_tail"]})
        chk.add_mc("MC_SshDeep(Timeout 1..2, 7 requests / environment steps)", rd)
    phases["mc"] = round(time.time() - t0, 1)

    res = f_val.result()
    common.judge_traces(chk, "Ssh", traces, res, sig_fn, label="replay", selftest="SshTrace")
    accepted = sum(1 for (a, b) in res["results"] if a == b + 1)
    res_sc = f_val_sc.result()
    common.judge_traces(chk, "Ssh", sc_traces, res_sc, sig_fn, label="scenario")
    pool.shutdown()
    phases["validated"] = round(time.time() - t0, 1)
    accepted_sc = sum(1 for (a, b) in res_sc["results"] if a == b + 1)

    # vacuity guards
    # (every action of the module must have been exercised in the code; on a run without divergence every one of them must
    # also have been accepted by TLC - with divergences the events after the first one of a trace are not examined)
    per_event = chk.cov.get("impl_events", {})
    recorded: Dict[str, int] = {}
    for tr in traces:
        for e in tr["ev"]:
            recorded[e["ev"]] = recorded.get(e["ev"], 0) + 1
    chk.cov["impl_events_recorded_replay"] = recorded
    missing = [e for e in REPLAY_EVENTS if per_event.get(e, 0) == 0]
    if missing and not chk.violations:
        raise RuntimeError(f"vacuous binding: no accepted event of {missing} (recorded: {recorded})")
    if missing:
        chk.notes.append(f"no accepted event of {missing}: every trace that has one diverges earlier or there")
    if accepted == 0 and not chk.violations:
        raise RuntimeError("vacuous binding: TLC accepted no replay trace")
    sc_counts: Dict[str, int] = {}
    sc_recorded: Dict[str, int] = {}
    for tr, (a, b) in zip(sc_traces, res_sc["results"]):
        for i, e in enumerate(tr["ev"]):
            sc_recorded[e["ev"]] = sc_recorded.get(e["ev"], 0) + 1
            if i < a - 1:
                sc_counts[e["ev"]] = sc_counts.get(e["ev"], 0) + 1
    need = ("LoginRecv", "LoginOkRecv", "CmdRecv", "CmdReplyRecv", "TickBegin")
    if not chk.violations and not all(sc_counts.get(k) for k in need):
        raise RuntimeError(f"vacuous scenario-scale run: terminal events {sc_recorded} / accepted {sc_counts}")
    rej_by_source: Dict[str, int] = {}
    for tr, (a, b) in zip(traces, res["results"]):
        if a != b + 1:
            k = tr["meta"].get("name") or ("tlc-simulate/avoid" if tr["meta"].get("avoid") else "tlc-simulate/full")
            rej_by_source[k] = rej_by_source.get(k, 0) + 1
    chk.cov["rejected_by_source"] = rej_by_source
    chk.cov["traces"] = {"replay": len(traces), "replay_accepted": accepted, "scenario": len(sc_traces),
                         "scenario_accepted": accepted_sc,
                         "events_replay": sum(len(t["ev"]) for t in traces),
                         "events_scenario": sum(len(t["ev"]) for t in sc_traces)}
    chk.cov["scenario_events_accepted"] = sc_counts
    cuts: Dict[str, int] = {}
    for tr in traces + sc_traces:
        if tr["meta"].get("segment") == 0:
            for k, v in tr["meta"].get("cuts", {}).items():
                cuts[k] = cuts.get(k, 0) + v
    chk.cov["trace_cuts_unmodelled"] = cuts
    chk.cov["phase_end_s"] = phases
    chk.sample({"cfg": traces[0]["cfg"], "events": traces[0]["ev"][:4]})
    chk.assumptions += [
        "valid credentials = the target's user manager has that user, enabled, with that password (read from the objects); "
        "WHEN a login succeeds is C16's, here: accepted iff valid credentials and fewer than max_remote_sessions sessions",
        "a connection of Terminal._connections is a server end iff its id was issued by that node's own user session manager",
        "a handler's event is completed at its return: only the tables of its own node are compared there (handlers nested "
        "in it run on other nodes); Begin / Return / tick / environment events compare the tables of every node",
        "power-off and stopping the terminal leave the tables alone (as coded; undocumented)",
        "time-outs: allowed once a session has been idle for `timeout' ticks, due after that (C16's latitude)",
        "port blocking = a DENY rule for TCP/SSH on the router between the nodes (both directions); scenario-scale runs leave "
        "reachability unknown (a message may be lost or delivered there)",
        "a command that ends its own session on the server (password change over SSH) and a session opened through the user "
        "session manager's own remote_login request are not modelled: the trace is cut around them (counted in trace_cuts_unmodelled)",
        "which command an answer belongs to: identity of the RequestResponse object the server's request manager returned, "
        "else the marker text of the command in the answer's data",
    ]
    return chk.finish()
