"""Projections from live simulator objects to plain data.

``snapshot(obj)`` walks the object graph reachable from a SimComponent (pydantic fields, private
attributes, extras; containers) and returns a JSON-able structure in which opaque identifiers
(uuid4 strings, MAC addresses, object identities, timestamps) are canonicalised by first
occurrence.  It is used for "refused requests change nothing" (C05), non-interference (C04, C06) and
trajectory comparison (C03).  ``digest`` hashes it.
"""
from __future__ import annotations

import enum
import hashlib
import ipaddress
import json
import re
from datetime import datetime
from typing import Any, Dict, Optional

_SKIP_TYPES = ("SysLog", "PacketCapture", "Logger", "_AgentLogger", "AgentLog", "PrettyTable", "RequestManager",
               "RequestType", "Graph", "module", "function", "method", "builtin_function_or_method", "type",
               "ABCMeta", "ModelMetaclass", "partial", "PrimaiteIO")
_SKIP_ATTRS = {"_request_manager", "sys_log", "pcap", "_parent", "parent", "_nx_graph", "root", "sim_root",
               "_service_request_manager", "_nic_request_manager", "_process_request_manager",
               "_application_request_manager", "_os_request_manager", "_software_request_manager",
               "_application_manager", "_node_request_manager", "logger", "_file_request_manager",
               "_folder_request_manager"}

_UUID = re.compile(r"[0-9a-f]{8}-[0-9a-f]{4}-[0-9a-f]{4}-[0-9a-f]{4}-[0-9a-f]{12}")
_MAC = re.compile(r"(?<![0-9a-f:])(?:[0-9a-f]{2}:){5}[0-9a-f]{2}(?![0-9a-f:])")
_TS = re.compile(r"\d{4}-\d{2}-\d{2}[T ]\d{2}:\d{2}:\d{2}(?:\.\d+)?")
_ADDR = re.compile(r" at 0x[0-9a-f]{6,}")


class Canon:
    """First-occurrence numbering of opaque identifiers inside strings."""

    def __init__(self):
        self.ids: Dict[str, str] = {}

    def _name(self, kind: str, s: str) -> str:
        k = self.ids.get(s)
        if k is None:
            k = f"<{kind}{len(self.ids)}>"
            self.ids[s] = k
        return k

    def text(self, s: str) -> str:
        if len(s) < 17:
            return s
        s = _UUID.sub(lambda m: self._name("id", m.group(0)), s)
        s = _MAC.sub(lambda m: self._name("mac", m.group(0)), s)
        s = _TS.sub("<ts>", s)
        s = _ADDR.sub(" at <addr>", s)
        return s


_EXTRA_SKIP: set = set()


def _walk(o: Any, canon: Canon, seen: Dict[int, int], depth: int) -> Any:
    if o is None or isinstance(o, (bool, int)):
        return o
    if isinstance(o, float):
        return round(o, 9)
    if isinstance(o, str):
        return canon.text(o)
    if isinstance(o, enum.Enum):
        return f"{type(o).__name__}.{o.name}"
    if isinstance(o, (ipaddress.IPv4Address, ipaddress.IPv4Network)):
        return str(o)
    if isinstance(o, datetime):
        return "<ts>"
    if isinstance(o, bytes):
        return canon.text(o.decode("utf-8", "replace"))
    tn = type(o).__name__
    if tn in _SKIP_TYPES or callable(o) and not hasattr(o, "__dict__"):
        return None
    if depth > 40:
        return "<deep>"
    if isinstance(o, dict):
        out = []
        for k, v in o.items():
            out.append([_walk(k, canon, seen, depth + 1), _walk(v, canon, seen, depth + 1)])
        return {"d": out}
    if isinstance(o, (list, tuple)):
        return [_walk(x, canon, seen, depth + 1) for x in o]
    if isinstance(o, (set, frozenset)):
        items = [_walk(x, canon, seen, depth + 1) for x in o]
        return {"s": sorted(items, key=lambda x: json.dumps(x, sort_keys=True, default=str))}
    oid = id(o)
    if oid in seen:
        return {"ref": seen[oid]}
    seen[oid] = len(seen)
    fields: Dict[str, Any] = {}
    d = getattr(o, "__dict__", None)
    if isinstance(d, dict):
        fields.update(d)
    priv = getattr(o, "__pydantic_private__", None)
    if isinstance(priv, dict):
        fields.update(priv)
    extra = getattr(o, "__pydantic_extra__", None)
    if isinstance(extra, dict):
        fields.update(extra)
    if not fields and not hasattr(o, "__dict__"):
        return canon.text(repr(o))
    out = {"cls": tn}
    for k in fields:
        if k in _SKIP_ATTRS or k in _EXTRA_SKIP or k.startswith("__"):
            continue
        v = fields[k]
        if callable(v) and not hasattr(v, "__dict__"):
            continue
        if type(v).__name__ in _SKIP_TYPES:
            continue
        out[k] = _walk(v, canon, seen, depth + 1)
    return out


def snapshot(obj: Any, canon: Optional[Canon] = None, skip=()) -> Any:
    """`skip`: extra attribute names not to follow (e.g. a node's links to the rest of the network)."""
    global _EXTRA_SKIP
    _EXTRA_SKIP = set(skip)
    try:
        return _walk(obj, canon or Canon(), {}, 0)
    finally:
        _EXTRA_SKIP = set()


NODE_ONLY = ("_connected_link", "_connected_node", "airspace")


def node_digest(node) -> str:
    """Digest of one node and everything it owns, not following its links into the rest of the network."""
    s = json.dumps(snapshot(node, Canon(), skip=NODE_ONLY), sort_keys=True, default=str)
    return hashlib.sha1(s.encode()).hexdigest()[:12]


def digest(obj: Any, canon: Optional[Canon] = None) -> str:
    s = json.dumps(snapshot(obj, canon), sort_keys=True, default=str)
    return hashlib.sha1(s.encode()).hexdigest()


def described(sim) -> str:
    """Canonical digest of Simulation.describe_state()."""
    c = Canon()
    s = json.dumps(sim.describe_state(), sort_keys=True, default=str)
    return hashlib.sha1(c.text(s).encode()).hexdigest()


def diff(a: Any, b: Any, path: str = "", out: Optional[list] = None, limit: int = 12) -> list:
    """First differences between two snapshots (for replay files)."""
    out = [] if out is None else out
    if len(out) >= limit:
        return out
    if type(a) != type(b):
        out.append((path, a if not isinstance(a, (dict, list)) else "<struct>", b if not isinstance(b, (dict, list)) else "<struct>"))
        return out
    if isinstance(a, dict):
        for k in sorted(set(a) | set(b)):
            if k not in a or k not in b:
                out.append((f"{path}/{k}", "<absent>" if k not in a else "<present>", "<absent>" if k not in b else "<present>"))
            else:
                diff(a[k], b[k], f"{path}/{k}", out, limit)
        return out
    if isinstance(a, list):
        if len(a) != len(b):
            out.append((path + "#len", len(a), len(b)))
        for i, (x, y) in enumerate(zip(a, b)):
            diff(x, y, f"{path}[{i}]", out, limit)
        return out
    if a != b:
        out.append((path, a, b))
    return out
