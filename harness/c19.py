"""C19 - scripted green/red agents act only when and how their settings allow.

Model: spec/Agents.tla (+ MC_Agents exhaustive).  Binding: one trace per scripted agent per episode
(settings read from the constructed agent object, one event per game step read from agent.history and,
for threat-actor agents, current_kill_chain_stage sampled before/after the step), validated by TLC
against AgentsTrace.tla, for
 (i)  generated scenarios: a four-host LAN carrying periodic-agent / red-database-corrupting-agent /
      probabilistic-agent instances whose settings are initial states of MC_Agents drawn by TLC
      (`-simulate`), a fixed list of edge settings and (thorough) the full mirrored enumeration of the
      MC ranges, times seeds, stepped with PrimaiteGame.step();
 (ii) the shipped scenarios (data_manipulation, scenario_with_placeholders, uc7_config, uc7_config_tap003,
      uc7_multiple_attack_variants) and variants of the two UC7 files whose TAP settings (start, frequency,
      variance, repeat flags, stage probabilities) are changed, run through PrimaiteGymEnv with blue
      actions drawn at random from the action map so that red actions sometimes fail.
"""
from __future__ import annotations

import copy
import itertools
import random
from typing import Any, Dict, List, Optional, Tuple

from . import common, scenarios, tlc, tracer

PROP = "C19"
LIM = 2**30 - 1
DO_NOTHING = "do-nothing"
HOSTS = ["c1", "c2", "c3"]
SRV_IP = "192.168.1.10"

_last_choice: Dict[int, int] = {}
_installed = False


# ---------------------------------------------------------------------------------------
# recording
# ---------------------------------------------------------------------------------------


def install():
    """Remember the integer handed to ActionManager.get_action (the index a probabilistic agent drew)."""
    global _installed
    if _installed:
        return
    from primaite.game.agent.actions.manager import ActionManager

    def after(mgr, tok, ret, exc, action=None, *a, **k):
        try:
            _last_choice[id(mgr)] = int(action)
        except Exception:  # noqa
            _last_choice[id(mgr)] = -1

    tracer.wrap(ActionManager, "get_action", after=after)
    _installed = True


def _pm(v: float) -> int:
    """Probability as integer per-mille; exactly 0.0 is the only value mapped to 0."""
    if v == 0:
        return 0
    return max(1, min(1000, int(round(v * 1000))))


def _clip(n: int) -> int:
    return max(-LIM, min(LIM, int(n)))


def settings_of(agent) -> Optional[Dict[str, Any]]:
    """The agent's settings as the trace cfg (None: not an agent this property talks about)."""
    from primaite.game.agent.scripted_agents.abstract_tap import AbstractTAP
    from primaite.game.agent.scripted_agents.probabilistic_agent import ProbabilisticAgent
    from primaite.game.agent.scripted_agents.random_agent import PeriodicAgent, RandomAgent

    s = agent.config.agent_settings
    base = {"kind": "", "start": 0, "startVar": 0, "freq": 1, "var": 0, "maxExec": 0, "nodes": [], "action": "",
            "app": "", "p": [], "nStages": 0, "repeatChain": False, "repeatStages": False, "c2": "", "startNodes": []}
    if isinstance(agent, PeriodicAgent):
        base.update(kind="periodic", start=_clip(s.start_step), startVar=_clip(s.start_variance), freq=_clip(s.frequency),
                    var=_clip(s.variance), maxExec=_clip(s.max_executions), nodes=[str(n) for n in s.possible_start_nodes],
                    action="node-application-execute", app=str(s.target_application))
        return base
    if isinstance(agent, ProbabilisticAgent):
        probs = s.action_probabilities or {}
        base.update(kind="prob", p=[_pm(probs[i]) for i in range(len(probs))])  # by KEY: "probability of action i"
        return base
    if isinstance(agent, RandomAgent):
        n = len(agent.action_manager.action_map)
        base.update(kind="prob", p=[max(1, 1000 // max(1, n))] * n)  # every entry of its action map may be drawn
        return base
    if isinstance(agent, AbstractTAP):
        nodes = [str(n) for n in (s.starting_nodes or [])] or [str(s.default_starting_node)]
        start_nodes = list(nodes)
        kc = s.kill_chain
        c2 = getattr(getattr(kc, "COMMAND_AND_CONTROL", None), "c2_server_name", "")
        if c2:
            nodes.append(str(c2))  # the configured C2 server issues the payload commands
        n_stages = {"tap-001": 6, "tap-003": 5}.get(agent.config.type, 0)
        # kill-chain options that are switched off (read from the agent's CONFIG, i.e. what the scenario says - the agent
        # consumes its working copy): the actions they stand for
        pay = getattr(kc, "PAYLOAD", None)
        forbid = []
        if pay is not None and getattr(pay, "corrupt", None) is False:
            forbid.append("c2-server-ransomware-launch")
        if pay is not None and getattr(pay, "exfiltrate", None) is False:
            forbid.append("c2-server-data-exfiltrate")
        # stages of TAP003 whose handler "performs a trial using the given user <STAGE> stage probability" (docstrings of
        # _planning / _access / _manipulation / _exploit) and whose configured probability is 0
        zero = []
        if agent.config.type == "tap-003":
            for nm in ("PLANNING", "ACCESS", "MANIPULATION", "EXPLOIT"):
                opt = getattr(kc, nm, None)
                if opt is not None and getattr(opt, "probability", 1) == 0:
                    zero.append(int(agent.selected_kill_chain[nm]))
        base.update(kind="tap", start=_clip(s.start_step), startVar=_clip(s.variance), freq=_clip(s.frequency), var=_clip(s.variance),
                    nodes=nodes, nStages=n_stages, repeatChain=bool(s.repeat_kill_chain), repeatStages=bool(s.repeat_kill_chain_stages),
                    c2=str(c2 or ""), startNodes=start_nodes, forbid=forbid, zeroStages=zero)
        return base
    return None


def _event(**kw) -> Dict[str, Any]:
    e = {"ev": "", "t": 0, "action": "", "node": "", "app": "", "choice": -1, "consistent": False, "s0": 0, "s1": 0, "nxt": 0, "c2act": False}
    e.update(kw)
    return e


class Episode:
    """Per-step recorder for all scripted agents of one game (one episode)."""

    def __init__(self, game, label: str, stimulus: Dict[str, Any]):
        self.game = game
        self.watched: List[Tuple[str, Any, Dict[str, Any]]] = []
        self.stats = {"red_failed_responses": 0, "steps": 0}
        self.foreign_exception: Optional[str] = None
        for name, ag in game.agents.items():
            cfg = settings_of(ag)
            if cfg is None:
                continue
            tr = {"cfg": cfg, "ev": [],
                  "meta": {"scenario": label, "agent": name, "type": ag.config.type},
                  "stimulus": stimulus}
            if cfg["kind"] == "periodic":
                tr["meta"]["first_next_execution_timestep"] = int(ag.next_execution_timestep)
                tr["meta"]["start_node"] = str(ag.start_node)
            if cfg["kind"] == "prob" and ag.config.type == "probabilistic-agent":
                keys = list((ag.config.agent_settings.action_probabilities or {}).keys())
                tr["meta"]["keys_ascending"] = keys == sorted(keys)
            self.watched.append((name, ag, tr))
        self._s0: Dict[str, int] = {}
        self._len: Dict[str, int] = {}

    def before(self):
        self._len = {name: len(ag.history) for name, ag in self.game.agents.items()}
        for name, ag, tr in self.watched:
            if tr["cfg"]["kind"] == "tap":
                self._s0[name] = int(ag.current_kill_chain_stage)

    def after(self, exc: Optional[BaseException] = None):
        self.stats["steps"] += 1
        raiser = None
        if exc is not None:
            # apply_agent_actions walks the agents in order: the first whose history did not grow raised
            for name, ag in self.game.agents.items():
                if len(ag.history) <= self._len.get(name, 0):
                    raiser = name
                    break
            if raiser is None or raiser not in [w[0] for w in self.watched]:
                self.foreign_exception = f"{type(exc).__name__}: {exc} (agent {raiser})"
        for name, ag, tr in self.watched:
            kind = tr["cfg"]["kind"]
            if len(ag.history) <= self._len[name]:
                if exc is not None and raiser == name:
                    tr["ev"].append(_event(ev="Raised", t=_clip(self.game.step_counter), action=type(exc).__name__,
                                           s0=self._s0.get(name, 0), s1=self._s0.get(name, 0)))
                    tr["meta"]["exception"] = f"{type(exc).__name__}: {exc}"
                continue
            h = ag.history[-1]
            par = h.parameters or {}
            acted = h.action != DO_NOTHING
            node = str(par.get("node_name", par.get("source_node", "")) or "")
            app = str(par.get("application_name", "") or "")
            if kind == "periodic":
                tr["ev"].append(_event(ev="Act" if acted else "Idle", t=_clip(h.timestep), action=h.action, node=node, app=app))
            elif kind == "prob":
                ch = _last_choice.get(id(ag.action_manager), -1)
                declared = getattr(getattr(ag.config, "action_space", None), "action_map", None) or {}
                ent = declared.get(ch)
                amap = ag.action_manager.action_map
                if ent is not None:
                    # the action DECLARED under the chosen key in the scenario (not the action manager's own table)
                    cons = str(ent.action) == h.action and dict(ent.options) == dict(par)
                else:
                    cons = ch in amap and amap[ch][0] == h.action and dict(amap[ch][1]) == dict(par)
                tr["ev"].append(_event(ev="Choose", t=_clip(h.timestep), action=h.action, node=node, app=app, choice=ch, consistent=bool(cons)))
            else:
                if acted and h.response.status != "success":
                    self.stats["red_failed_responses"] += 1
                tr["ev"].append(_event(ev="TapAct" if acted else "TapIdle", t=_clip(h.timestep), action=h.action, node=node, app=app,
                                       s0=self._s0[name], s1=int(ag.current_kill_chain_stage), nxt=int(ag.next_kill_chain_stage),
                                       c2act=str(h.action).startswith("c2-server")))
        return raiser

    def traces(self) -> List[Dict[str, Any]]:
        return [tr for _, _, tr in self.watched if tr["ev"]]


# ---------------------------------------------------------------------------------------
# generated scenarios
# ---------------------------------------------------------------------------------------


def lan() -> Tuple[List[Dict], List[Dict]]:
    apps = [
        {"type": "database-client", "options": {"db_server_ip": SRV_IP}},
        {"type": "data-manipulation-bot", "options": {"port_scan_p_of_success": 0.8, "data_manipulation_p_of_success": 0.8,
                                                       "payload": "DELETE", "server_ip": SRV_IP}},
        {"type": "web-browser", "options": {"target_url": f"http://{SRV_IP}/"}},
    ]
    nodes = [scenarios.host("srv", SRV_IP, "server", services=[{"type": "database-service"}, {"type": "web-server"}])]
    for i, h in enumerate(HOSTS):
        nodes.append(scenarios.host(h, f"192.168.1.{20 + i}", "computer", applications=copy.deepcopy(apps)))
    nodes.append({"hostname": "sw", "type": "switch", "num_ports": 8})
    links = [scenarios.link(h, 1, "sw", i + 1) for i, h in enumerate(["srv"] + HOSTS)]
    return nodes, links


def periodic_def(ref: str, typ: str, st: Dict[str, int], start_nodes: List[str]) -> Dict[str, Any]:
    s = {"start_step": st["start"], "start_variance": st["startVar"], "frequency": st["freq"], "variance": st["var"],
         "possible_start_nodes": list(start_nodes),
         "target_application": "data-manipulation-bot" if typ == "red-database-corrupting-agent" else st.get("app", "database-client")}
    if st.get("maxExec") is not None:
        s["max_executions"] = st["maxExec"]
    return {"ref": ref, "team": "RED" if typ.startswith("red") else "GREEN", "type": typ, "agent_settings": s}


def prob_def(ref: str, table: List[Tuple[int, float]], host: str) -> Dict[str, Any]:
    """`table` is a list of (action index, probability) in the ORDER in which the keys are written."""
    acts = [
        {"action": "do-nothing", "options": {}},
        {"action": "node-application-execute", "options": {"node_name": host, "application_name": "web-browser"}},
        {"action": "node-application-execute", "options": {"node_name": host, "application_name": "database-client"}},
        {"action": "node-application-execute", "options": {"node_name": host, "application_name": "data-manipulation-bot"}},
    ]
    n = len(table)
    return {"ref": ref, "team": "GREEN", "type": "probabilistic-agent",
            "agent_settings": {"action_probabilities": {i: p for i, p in table}},
            "action_space": {"action_map": {i: copy.deepcopy(acts[i]) for i, _ in table}}}  # (keys in the table's order)


def random_def(ref: str, host: str) -> Dict[str, Any]:
    d = prob_def(ref, [(0, 0.25), (1, 0.25), (2, 0.25), (3, 0.25)], host)
    d["type"] = "random-agent"
    d["agent_settings"] = {}
    return d


def run_generated(agent_defs: List[Dict[str, Any]], steps: int, seed: int, label: str) -> Tuple[List[Dict[str, Any]], Dict[str, Any]]:
    import numpy as np

    nodes, links = lan()
    cfg = scenarios.base_cfg(nodes, links, agent_defs)
    random.seed(seed)
    np.random.seed(seed)
    game = scenarios.build(cfg)
    ep = Episode(game, label, {"generated": True, "seed": seed, "steps": steps, "agents": agent_defs})
    for _ in range(steps):
        ep.before()
        try:
            game.step()
            ep.after()
        except Exception as exc:  # noqa - an exception of repository code is an event, not a crash of the check
            ep.after(exc)
            break
    return ep.traces(), ep.stats


EDGE_PERIODIC = [
    # start, startVar, freq, var, maxExec     (None: keep the default 999999)
    (0, 0, 1, 0, None), (0, 0, 1, 0, 0), (0, 0, 1, 0, 1), (0, 0, 3, 2, 2), (0, 1, 2, 0, 3), (0, 2, 3, 1, None),
    (1, 1, 1, 0, 1), (1, 2, 2, 1, None), (1, 0, 4, 3, None), (2, 2, 1, 0, 2), (2, 0, 2, 0, 0), (3, 0, 3, 0, 1),
    (4, 2, 4, 3, 3), (4, 0, 4, 0, None), (3, 2, 2, 1, None), (5, 1, 5, 4, None), (6, 3, 2, 0, 1), (2, 1, 7, 1, None),
]

EDGE_PROB = [
    # keys written in order
    [(0, 1.0)], [(0, 0.0), (1, 1.0)], [(0, 0.5), (1, 0.0), (2, 0.5)], [(0, 0.0), (1, 0.0), (2, 1.0)],
    [(0, 0.3), (1, 0.6), (2, 0.1)], [(0, 0.0), (1, 0.999), (2, 0.001)], [(0, 0.25), (1, 0.0), (2, 0.0), (3, 0.75)],
    # the same kind of table with the keys written in another order (a YAML mapping has no order)
    [(1, 0.0), (0, 0.5), (2, 0.5)], [(2, 1.0), (1, 0.0), (0, 0.0)], [(1, 1.0), (0, 0.0)],
    # tables that sum to 1 only within the tolerance of the loader's validator (1e-6)
    [(0, 0.3), (1, 0.6), (2, 0.0999995)], [(0, 0.5), (1, 0.5000005)],
]


def periodic_settings_from_tlc(behs) -> Tuple[List[Tuple[str, Dict[str, int]]], List[List[Tuple[int, float]]], List[Dict[str, Any]]]:
    per, prob, tap = [], [], []
    for beh in behs:
        st = beh[0]["state"]
        if st["kind"] == "periodic":
            typ = "periodic-agent" if st["mode"] == "eq" else "red-database-corrupting-agent"
            per.append((typ, {k: st[k] for k in ("start", "startVar", "freq", "var", "maxExec")}))
        elif st["kind"] == "prob":
            pm = list(st["p"])
            tot = sum(pm)
            table = [(i, v / tot) for i, v in enumerate(pm)]
            # make the floats sum to one exactly enough for the validator; zeros stay exact zeros
            prob.append(table)
        elif st["kind"] == "tap":
            tap.append({"nStages": st["nStages"], "start_step": st["start"], "frequency": st["freq"], "variance": st["var"],
                        "repeat_kill_chain": st["repeatChain"], "repeat_kill_chain_stages": st["repeatStages"]})
    return per, prob, tap


def mirrored_enumeration() -> List[Tuple[str, Dict[str, int]]]:
    """The periodic settings of MC_Agents.cfg, enumerated in Python (thorough tier)."""
    out = []
    for s, sv, f, mx in itertools.product(range(5), range(3), range(1, 5), range(4)):
        for v in range(f):
            for typ in ("periodic-agent", "red-database-corrupting-agent"):
                out.append((typ, {"start": s, "startVar": sv, "freq": f, "var": v, "maxExec": mx}))
    return out


# ---------------------------------------------------------------------------------------
# shipped scenarios
# ---------------------------------------------------------------------------------------


def valid_blue_actions(agent) -> Tuple[List[int], List[int]]:
    from primaite.game.agent.actions.abstract import AbstractAction

    ok, bad = [], []
    for i, (name, _) in agent.action_manager.action_map.items():
        (ok if name in AbstractAction._registry else bad).append(i)
    return ok, bad


def tap_variant(cfg: Dict[str, Any], **kw) -> Dict[str, Any]:
    cfg = copy.deepcopy(cfg)
    for a in cfg["agents"]:
        if str(a.get("type", "")).startswith("tap-"):
            for k, v in kw.items():
                if k == "prob":
                    for st in a["agent_settings"]["kill_chain"].values():
                        st["probability"] = v
                elif k == "starting_nodes":
                    a["agent_settings"]["starting_nodes"] = list(v)
                elif k == "payload":
                    a["agent_settings"]["kill_chain"].setdefault("PAYLOAD", {}).update(v)
                elif k == "stage_prob":
                    for stn, pv in v.items():
                        a["agent_settings"]["kill_chain"].setdefault(stn, {})["probability"] = pv
                else:
                    a["agent_settings"][k] = v
    return cfg


def run_env(env_config, label: str, steps: int, seed: int, blue: str, episodes: List[int], rng: random.Random,
            stim_extra: Optional[Dict[str, Any]] = None, fixed_actions: Optional[List[int]] = None
            ) -> Tuple[List[Dict[str, Any]], Dict[str, Any]]:
    """Run the given episode numbers of a scenario (dict, file or scheduled directory) through PrimaiteGymEnv."""
    from primaite.session.environment import PrimaiteGymEnv

    traces: List[Dict[str, Any]] = []
    stats = {"red_failed_responses": 0, "steps": 0, "excluded_blue_actions": [], "foreign_exceptions": []}
    env = PrimaiteGymEnv(env_config=copy.deepcopy(env_config) if isinstance(env_config, dict) else env_config)
    for k, epno in enumerate(episodes):
        env.episode_counter = epno - 1
        env.reset(seed=seed + 1000 * k)  # NB the stimulus records this per-episode seed and k = 0 on replay
        ok, bad = valid_blue_actions(env.agent)
        stats["excluded_blue_actions"] = bad
        acts: List[int] = []
        stim = {"scenario": label, "seed": seed + 1000 * k, "episode": epno, "blue": blue, "actions": acts}
        stim.update(stim_extra or {})
        ep = Episode(env.game, label, stim)
        for i_step in range(steps):
            if fixed_actions is not None:
                if i_step >= len(fixed_actions):
                    break
                a = fixed_actions[i_step]
            elif blue == "passive":
                a = 0
            elif blue == "random":
                a = rng.choice(ok)
            else:  # "mixed": mostly passive, so that kill chains get somewhere, with bursts of interference
                a = rng.choice(ok) if rng.random() < 0.3 else 0
            acts.append(a)
            ep.before()
            try:
                env.step(a)
                ep.after()
            except Exception as exc:  # noqa
                ep.after(exc)
                if ep.foreign_exception:
                    stats["foreign_exceptions"].append({"scenario": label, "step": len(acts) - 1, "blue_action": a, "exc": ep.foreign_exception})
                break
        traces += ep.traces()
        stats["red_failed_responses"] += ep.stats["red_failed_responses"]
        stats["steps"] += ep.stats["steps"]
    env.close()
    return traces, stats


# ---------------------------------------------------------------------------------------
# verdict
# ---------------------------------------------------------------------------------------


def sig_fn(tr, event, stuck):
    """Canonical key arguments of a rejected event (so that different causes get different signatures)."""
    meta, cfg = tr.get("meta", {}), tr["cfg"]
    sig = {"agent_type": meta.get("type"), "kind": cfg.get("kind")}
    fail = (stuck or {}).get("fail") or []
    if event.get("ev") == "Raised":
        sig["exception"] = event.get("action")
        if cfg["kind"] == "tap":
            sig["first_turn_may_be_step_0"] = cfg["start"] - cfg["var"] <= 0
    if cfg["kind"] == "prob" and "NeverZeroProbability" in fail:
        sig["probability_keys_in_ascending_order"] = bool(meta.get("keys_ascending", True))
    if cfg["kind"] == "periodic" and "FirstActionInStartWindow" in fail:
        sig["first_planned_step_negative"] = int(meta.get("first_next_execution_timestep", 0)) < 0
    return sig


def rejected_by_signature(traces: List[Dict[str, Any]], res: Dict[str, Any]) -> Dict[str, int]:
    """How many traces TLC rejected, per (agent type, event, clause) - for the evidence."""
    seen: Dict[str, int] = {}
    for tr, (reached, length), stuck in zip(traces, res["results"], res["stuck"]):
        if reached == length + 1:
            continue
        ev = tr["ev"][reached - 1] if 0 < reached <= length else {}
        fail = (stuck or {}).get("fail") or []
        extra = {k: v for k, v in sig_fn(tr, ev, stuck).items() if k not in ("agent_type", "kind")}
        key = f"{tr['meta'].get('type')}|{ev.get('ev')}|{','.join(sorted(fail)) if fail else 'no-matching-action'}|{extra}"
        seen[key] = seen.get(key, 0) + 1
    return seen


def tap_coverage(traces: List[Dict[str, Any]]) -> Dict[str, int]:
    c = {"tap_traces": 0, "reached_succeeded": 0, "reached_failed": 0, "restarted": 0, "concluded_steps": 0, "stage_advances": 0}
    for tr in traces:
        if tr["cfg"]["kind"] != "tap":
            continue
        c["tap_traces"] += 1
        evs = [e for e in tr["ev"] if e["ev"] in ("TapAct", "TapIdle")]
        c["reached_succeeded"] += any(e["s1"] == 200 for e in evs)
        c["reached_failed"] += any(e["s1"] == 300 for e in evs)
        c["restarted"] += any(e["s0"] in (200, 300) and e["s1"] in (100, 1) for e in evs)
        c["stage_advances"] += sum(1 for e in evs if e["s1"] != e["s0"] and e["s1"] < 100)
        if not tr["cfg"]["repeatChain"]:
            c["concluded_steps"] += sum(1 for e in evs if e["s0"] in (200, 300))
    return c


def replay(path: str) -> int:
    """Re-execute the stimulus of a replay file and print the first event TLC cannot explain."""
    import json

    rep = json.loads(open(path).read())
    det = rep["detail"]
    stim = det["stimulus"]
    who = det["meta"]["agent"]
    common.boot()
    install()
    if stim.get("generated"):
        trs, _ = run_generated(stim["agents"], stim["steps"], stim["seed"], "generated_lan")
    else:
        lab = stim["scenario"]
        src = {"data_manipulation": "data_manipulation.yaml", "uc7_config": "uc7_config.yaml", "uc7_config_tap003": "uc7_config_tap003.yaml",
               "uc7_config+settings": "uc7_config.yaml", "uc7_config_tap003+settings": "uc7_config_tap003.yaml"}
        if lab in src:
            cfg = scenarios.shipped(src[lab])
            if stim.get("tap_settings"):
                cfg = tap_variant(cfg, **stim["tap_settings"])
        else:
            cfg = str(scenarios.PKG / lab)
        trs, _ = run_env(cfg, lab, len(stim["actions"]), stim["seed"], stim["blue"], [stim["episode"]], random.Random(0),
                         fixed_actions=list(stim["actions"]))
    trs = [t for t in trs if t["meta"]["agent"] == who]
    res = tlc.validate("AgentsTrace", trs)
    rc = 0
    for tr, (reached, length), stuck in zip(trs, res["results"], res["stuck"]):
        if reached == length + 1:
            print(f"replay: trace of {who} accepted ({length} events)")
            continue
        rc = 1
        print(f"replay: {who} ({tr['meta']['type']}) settings {tr['cfg']}")
        print(f"  first unexplained event #{reached}: {tr['ev'][reached - 1]}")
        print(f"  failing clauses: {(stuck or {}).get('fail')}  spec state before: {(stuck or {}).get('st')}")
    return rc


def main(tier: str, seed: int) -> int:
    import time

    chk = common.Check(PROP, "model_checking", tier, seed)
    rng = random.Random(seed)
    phase: Dict[str, float] = {}
    t_ph = time.time()

    def mark(name):
        nonlocal t_ph
        phase[name] = round(time.time() - t_ph, 1)
        t_ph = time.time()

    quick = tier == "quick"
    # 1. the model
    r = tlc.mc("MC_Agents")
    if not r["ok"]:
        chk.violation({"module": "MC_Agents", "clause": str(r["violation"])}, {"tlc": r["output_tail"]})
    chk.add_mc("MC_Agents(start 0..4, startVar 0..2, freq 1..4, var<freq, maxExec 0..3, 12 ticks; tap start 0..2, freq 1..3, 5|6 stages, both repeat flags)", r)
    for act in ("PeriodicAct", "PeriodicIdle", "ProbStep", "TapWait", "TapBegin", "TapWork", "TapGiveUp", "TapGiveUpRestart", "TapRestart", "TapConclude"):
        if r["coverage"].get(act, (0, 0))[1] == 0:
            raise tlc.TLCError(f"vacuous model: action {act} never taken")
    mark("mc")
    # 2. settings from the model
    behs, info = tlc.simulate("MC_Agents", num=90 if quick else 500, depth=2, seed=seed + 1)
    chk.cov["transitions"] += info["states"]
    per, prob_tables, tap_settings = periodic_settings_from_tlc(behs)
    n_tlc_periodic = len(per)
    for (s, sv, f, v, mx) in EDGE_PERIODIC:
        for typ in ("periodic-agent", "red-database-corrupting-agent"):
            per.append((typ, {"start": s, "startVar": sv, "freq": f, "var": v, "maxExec": mx}))
    n_before_mirror = len(per)
    if not quick:
        per += mirrored_enumeration()
    # max_executions is not honoured by the red-database-corrupting-agent (finding): so that this does not hide
    # the rest of those episodes from the start / gap clauses, each of its settings is also run without a maximum
    per += [(typ, {**st, "maxExec": None}) for typ, st in per if typ == "red-database-corrupting-agent" and st["maxExec"] is not None]
    prob_tables = prob_tables[: (4 if quick else 40)] + EDGE_PROB
    if not quick:
        # the probability tables of MC_Agents.cfg, mirrored: keys in ascending order, and written in reverse order
        for pm in itertools.product((0, 400, 1000), repeat=3):
            if sum(pm):
                tb = [(i, v / sum(pm)) for i, v in enumerate(pm)]
                prob_tables += [tb, tb[::-1]]
    mark("simulate")
    common.boot()
    install()
    mark("boot")
    traces: List[Dict[str, Any]] = []
    # 2a. generated scenarios: six periodic agents + two probabilistic agents per game
    seeds = [seed + i for i in range(2 if quick else 3)]
    start_node_sets = [HOSTS, HOSTS[:1], HOSTS[1:], HOSTS]
    gsteps = 30
    group = 6
    games = 0
    for gi in range(0, len(per), group):
        chunk = per[gi: gi + group]
        defs = []
        for j, (typ, st) in enumerate(chunk):
            defs.append(periodic_def(f"per_{gi + j}", typ, st, start_node_sets[(gi + j) % len(start_node_sets)]))
        for j in range(2):
            tb = prob_tables[(gi // group * 2 + j) % len(prob_tables)]
            defs.append(prob_def(f"prob_{gi}_{j}", tb, HOSTS[j]))
        for sd in (seeds if gi < n_before_mirror else seeds[:2]):
            trs, _ = run_generated(defs, gsteps, sd * 7919 + gi, "generated_lan")
            traces += trs
            games += 1
        for typ, st in chunk:
            chk.add_case({"type": typ, **st}, nontrivial=True)
    # a random-agent in games of its own (it raises on its first turn - finding - and would end every other
    # agent's episode with it)
    for sd in seeds[:2]:
        trs, _ = run_generated([random_def("rand", HOSTS[2]), prob_def("prob_with_rand", EDGE_PROB[4], HOSTS[0])], 10, sd, "generated_lan")
        traces += trs
        games += 1
    mark("generated")
    chk.cov["generated_games"] = games
    chk.cov["generated_settings"] = {"from_tlc_simulate": n_tlc_periodic, "edge_list": 2 * len(EDGE_PERIODIC),
                                     "mirrored_enumeration": 0 if quick else len(mirrored_enumeration()),
                                     "probability_tables": len(prob_tables)}
    # 3. shipped scenarios
    steps = 45 if quick else 128
    nseeds = 2 if quick else 3
    env_stats: Dict[str, Any] = {}

    def shipped_run(env_config, label, blue, episodes, sd, n_steps=None, extra=None):
        trs, st = run_env(env_config, label, n_steps or steps, sd, blue, episodes, rng, extra)
        agg = env_stats.setdefault(label, {"episodes": 0, "steps": 0, "red_failed_responses": 0, "excluded_blue_actions": [], "foreign_exceptions": []})
        agg["episodes"] += len(episodes)
        agg["steps"] += st["steps"]
        agg["red_failed_responses"] += st["red_failed_responses"]
        agg["excluded_blue_actions"] = st["excluded_blue_actions"]
        agg["foreign_exceptions"] += st["foreign_exceptions"]
        chk.add_case({"scenario": label, "blue": blue, "episodes": episodes, "seed": sd, "extra": extra})
        return trs

    dm = scenarios.shipped("data_manipulation.yaml")
    for i in range(nseeds):
        traces += shipped_run(dm, "data_manipulation", "random", [1, 2], seed + 11 * i, n_steps=128)
    traces += shipped_run(str(scenarios.PKG / "scenario_with_placeholders"), "scenario_with_placeholders", "random", [0, 1, 2, 3], seed + 5, n_steps=60)
    uc7 = scenarios.shipped("uc7_config.yaml")
    uc7_3 = scenarios.shipped("uc7_config_tap003.yaml")
    for i in range(nseeds):
        eps = [1, 2] if (i == 1 and not quick) else [1]
        traces += shipped_run(uc7, "uc7_config", "random" if i else "mixed", eps, seed + 21 * i)
        traces += shipped_run(uc7_3, "uc7_config_tap003", "random" if i else "mixed", eps, seed + 31 * i)
    variants_dir = str(scenarios.PKG / "uc7_multiple_attack_variants")
    for i in range(1 if quick else 2):
        # schedule: 0 TAP001_PC1, 1 TAP001_PC2, 2 TAP001_PC3, 5 TAP003   (quick: one TAP001 variant and the TAP003 one)
        traces += shipped_run(variants_dir, "uc7_multiple_attack_variants", "mixed" if i == 0 else "random",
                              [rng.choice([0, 1, 2]), 5] if quick else [0, 1, 2, 5], seed + 41 * i, n_steps=36 if quick else None)
    # 3b. the two UC7 files with other TAP settings (repeat flags, probabilities, schedule)
    tap_vars: List[Tuple[str, Dict[str, Any], str]] = [
        ("tap-001", dict(start_step=2, frequency=1, variance=0, repeat_kill_chain=True, repeat_kill_chain_stages=True), "passive"),
        ("tap-003", dict(start_step=2, frequency=1, variance=0, repeat_kill_chain=True, repeat_kill_chain_stages=True), "passive"),
        ("tap-001", dict(start_step=3, frequency=2, variance=1, repeat_kill_chain=True, repeat_kill_chain_stages=False, prob=0.6), "mixed"),
        ("tap-003", dict(start_step=3, frequency=2, variance=1, repeat_kill_chain=True, repeat_kill_chain_stages=False, prob=0.5), "mixed"),
        ("tap-001", dict(start_step=2, frequency=1, variance=0, repeat_kill_chain=False, repeat_kill_chain_stages=False, prob=0.8), "random"),
        ("tap-003", dict(start_step=4, frequency=2, variance=0, repeat_kill_chain=False, repeat_kill_chain_stages=False, prob=0.7), "random"),
        ("tap-001", dict(start_step=1, frequency=1, variance=0, repeat_kill_chain=False, repeat_kill_chain_stages=True,
                         starting_nodes=["ST_PROJ-A-PRV-PC-1", "ST_PROJ-B-PRV-PC-2", "ST_PROJ-C-PRV-PC-3"]), "passive"),
        # the earliest start the settings schema admits
        ("tap-001", dict(start_step=0, frequency=2, variance=0), "passive"),
        # the payload switches of TAP001 (a whole kill chain needs ~18 turns: every step is a turn)
        ("tap-001", dict(start_step=1, frequency=1, variance=0, payload={"exfiltrate": False, "corrupt": False}, _steps=56), "passive"),
        ("tap-001", dict(start_step=1, frequency=1, variance=0, repeat_kill_chain=True, payload={"exfiltrate": True, "corrupt": False}, _steps=90),
         "passive"),
        ("tap-001", dict(start_step=1, frequency=1, variance=0, payload={"exfiltrate": False, "corrupt": True}, _steps=56), "passive"),
        # one stage of TAP003 with probability 0 (the agent reaches the stage and stays idle in it)
        ("tap-003", dict(start_step=1, frequency=1, variance=0, repeat_kill_chain_stages=True, stage_prob={"EXPLOIT": 0}, _steps=50), "passive"),
        ("tap-003", dict(start_step=1, frequency=1, variance=0, repeat_kill_chain_stages=True, stage_prob={"MANIPULATION": 0}, _steps=30), "passive"),
        ("tap-003", dict(start_step=1, frequency=3, variance=1, repeat_kill_chain=True), "passive"),
    ]
    if not quick:
        for flags in itertools.product([False, True], repeat=2):
            for typ in ("tap-001", "tap-003"):
                tap_vars.append((typ, dict(start_step=2, frequency=2, variance=1, repeat_kill_chain=flags[0], repeat_kill_chain_stages=flags[1], prob=0.7), "random"))
                tap_vars.append((typ, dict(start_step=5, frequency=3, variance=2, repeat_kill_chain=flags[0], repeat_kill_chain_stages=flags[1], prob=0.9), "mixed"))
    # settings drawn by TLC for threat-actor agents
    for ts in tap_settings[: (1 if quick else 8)]:
        ts = dict(ts)
        typ = "tap-001" if ts.pop("nStages") == 6 else "tap-003"
        tap_vars.append((typ, ts, "mixed"))
    for j, (typ, kw, blue) in enumerate(tap_vars):
        base = uc7 if typ == "tap-001" else uc7_3
        lab = "uc7_config+settings" if typ == "tap-001" else "uc7_config_tap003+settings"
        kw = dict(kw)
        nst = kw.pop("_steps", None)
        traces += shipped_run(tap_variant(base, **kw), lab, blue, [1], seed + 51 + j, n_steps=nst or (36 if quick else 96), extra={"tap_settings": kw})
    mark("shipped")
    # 4. TLC judges every trace
    res = tlc.validate("AgentsTrace", traces, chunk=150)
    common.judge_traces(chk, "Agents", traces, res, sig_fn)
    mark("validation")
    chk.cov["phase_wall_s"] = phase
    chk.cov["rejected_traces_by_signature"] = rejected_by_signature(traces, res)
    kinds: Dict[str, int] = {}
    for tr in traces:
        k = tr["meta"]["type"]
        kinds[k] = kinds.get(k, 0) + 1
    chk.cov["traces_by_agent_type"] = kinds
    chk.cov["tap_coverage"] = tap_coverage(traces)
    chk.cov["shipped_runs"] = env_stats
    sampled = set()
    for tr in sorted(traces, key=lambda q: q["meta"]["scenario"] == "generated_lan"):
        k = tr["meta"]["type"]
        if k not in sampled:
            sampled.add(k)
            acts = [e for e in tr["ev"] if e["ev"] in ("Act", "TapAct")][:6]
            chk.sample({"cfg": tr["cfg"], "meta": tr["meta"], "first_events": tr["ev"][:3], "first_actions": acts}, limit=8)
    if not quick:
        seen_events = chk.cov.get("impl_events", {})
        for evn in ("Act", "Idle", "Choose", "TapAct", "TapIdle"):
            if not seen_events.get(evn):
                raise tlc.TLCError(f"vacuous binding: no accepted implementation event {evn}")
    cov = chk.cov["tap_coverage"]
    if cov["reached_succeeded"] == 0 or cov["restarted"] == 0 or cov["concluded_steps"] == 0:
        raise tlc.TLCError(f"vacuous binding: kill-chain end not exercised {cov}")
    chk.assumptions += [
        "TLC and the CommunityModules (Json); the wrapper on ActionManager.get_action (records the index a probabilistic agent drew)",
        "timestep of an action = AgentHistoryItem.timestep = game.step_counter before it is incremented; the start window is widened by one "
        "step at its lower end for the 0-/1-based reading of 'start step' (Agents.tla header)",
        "threat-actor agents: stages 1..6 (TAP001) / 1..5 (TAP003, whose documentation names EXPLOIT the final stage); the configured C2 server "
        "counts as a configured node; timing clauses for TAP agents are lower bounds only (their turns may be spent doing nothing)",
        "probabilities enter the traces as integer per-mille, exact 0.0 -> 0 and any positive value -> at least 1; 'probability of action i' is read "
        "by KEY from action_probabilities",
        "blue actions are drawn from the action-map entries whose action name is a registered action: uc7_config_tap003.yaml contains entries "
        "spelt `router-acl-addrule` which raise when chosen (excluded indices are listed under shipped_runs; that defect belongs to C20/C01)",
    ]
    return chk.finish()
