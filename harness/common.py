"""Shared plumbing of the checks: booting primaite from the current /repo tree, evidence files,
known findings, replay files and the verdict protocol (DESIGN.md 3, 5.3)."""
from __future__ import annotations

import atexit
import json
import os
import random
import shutil
import sys
import tempfile
import time
import traceback
import warnings
from pathlib import Path
from typing import Any, Callable, Dict, List, Optional

VERIF = Path(__file__).resolve().parent.parent
REPO = Path(os.environ.get("VERIF_REPO", "/repo"))
EVIDENCE = VERIF / "evidence"
REPLAYS = VERIF / "replays"
GUARD = "PRIMAITE_VERIF"

# the tree under test comes first on the import path from the very start (a check module may import primaite
# modules at its own import time); boot() verifies where primaite really came from
if str(REPO / "src") not in sys.path:
    sys.path.insert(0, str(REPO / "src"))

_booted = False
_tmp_dirs: List[str] = []


def _cleanup():
    for d in _tmp_dirs:
        shutil.rmtree(d, ignore_errors=True)


atexit.register(_cleanup)


def tmpdir(prefix: str = "verif_") -> Path:
    d = tempfile.mkdtemp(prefix=prefix)
    _tmp_dirs.append(d)
    return Path(d)


def boot(quiet: bool = True):
    """Import primaite from $VERIF_REPO/src (current working tree), in the only order that works,
    redirect all simulator output to a scratch directory and switch logging off."""
    global _booted
    if _booted:
        return
    os.environ[GUARD] = "1"
    src = str(REPO / "src")
    if src not in sys.path:
        sys.path.insert(0, src)
    warnings.filterwarnings("ignore")
    import logging

    logging.disable(logging.CRITICAL)
    # primaite reads the user-level primaite_config.yaml at import; the repository's own dev-cli tests rewrite that
    # file, so an import that races with a concurrent test run can find it half-written: retry
    for attempt in range(6):
        try:
            import primaite  # noqa

            break
        except (TypeError, KeyError, AttributeError):
            for m in [k for k in sys.modules if k == "primaite" or k.startswith("primaite.")]:
                del sys.modules[m]
            if attempt == 5:
                raise
            time.sleep(3)

    if not str(Path(primaite.__file__).resolve()).startswith(str((REPO / "src").resolve())):
        raise RuntimeError(f"primaite imported from {primaite.__file__}, expected {src}")
    import primaite.game.game  # noqa  (must precede any primaite.simulator.* import)
    import primaite.session.environment  # noqa
    from primaite.simulator import SIM_OUTPUT

    SIM_OUTPUT.path = tmpdir("verif_simout_")
    SIM_OUTPUT.save_pcap_logs = False
    SIM_OUTPUT.save_sys_logs = False
    SIM_OUTPUT.save_agent_logs = False
    SIM_OUTPUT.write_sys_log_to_terminal = False
    _booted = True


def seed_from_env(default: int = 0) -> int:
    try:
        return int(os.environ.get("VERIF_SEED", default))
    except ValueError:
        return default


def tier_from_env(default: str = "quick") -> str:
    t = os.environ.get("VERIF_TIER", default)
    return t if t in ("quick", "thorough") else default


# ---------------------------------------------------------------------------------------
# known findings
# ---------------------------------------------------------------------------------------


def load_known() -> List[Dict[str, Any]]:
    p = VERIF / "known_findings.json"
    if not p.exists():
        return []
    return json.loads(p.read_text()).get("findings", [])


def match_known(prop: str, signature: Dict[str, Any]) -> Optional[Dict[str, Any]]:
    """A finding is matched iff every key of a *known* entry's signature equals the violation's."""
    for f in load_known():
        if f.get("property") != prop or f.get("status") != "known":
            continue
        sig = f.get("signature", {})
        if all(signature.get(k) == v for k, v in sig.items()):
            return f
    return None


# ---------------------------------------------------------------------------------------
# verdict
# ---------------------------------------------------------------------------------------


class Check:
    """Collects what a check explored and decides the exit code.

    ``violation(signature, detail)`` is called for every implementation divergence / model
    violation; matching known findings become KNOWN-FINDING lines, anything else a VIOLATION.
    """

    def __init__(self, prop: str, level: str, tier: str, seed: int):
        self.prop, self.level, self.tier, self.seed = prop, level, tier, seed
        self.t0 = time.time()
        self.cov: Dict[str, Any] = {
            "states": 0,
            "transitions": 0,
            "traces_validated_against_impl": 0,
            "samples": [],
            "evaluations": 0,
            "distinct_nontrivial": 0,
        }
        self.assumptions: List[str] = []
        self.violations: List[Dict[str, Any]] = []
        self.known_hits: Dict[str, int] = {}
        self.notes: List[str] = []
        self._distinct = set()
        self._sig_seen: Dict[str, int] = {}
        REPLAYS.mkdir(exist_ok=True)
        for old in REPLAYS.glob(f"{prop}_{tier}_*.json"):
            old.unlink()

    # -- coverage bookkeeping
    def add_mc(self, name: str, res: Dict[str, Any]):
        self.cov["states"] += res.get("distinct", 0)
        self.cov["transitions"] += res.get("states", 0)
        self.cov.setdefault("model_runs", []).append(
            {
                "model": name,
                "distinct_states": res.get("distinct", 0),
                "states_generated": res.get("states", 0),
                "depth": res.get("depth", 0),
                "wall_s": round(res.get("wall_s", 0), 2),
                "actions": {k: list(v) for k, v in res.get("coverage", {}).items()},
            }
        )

    def add_case(self, key: Any, nontrivial: bool = True):
        self.cov["evaluations"] += 1
        if nontrivial:
            k = json.dumps(key, sort_keys=True, default=str)
            if k not in self._distinct:
                self._distinct.add(k)
                self.cov["distinct_nontrivial"] = len(self._distinct)

    def sample(self, s: Any, limit: int = 6):
        if len(self.cov["samples"]) < limit:
            self.cov["samples"].append(s)

    # -- violations
    def violation(self, signature: Dict[str, Any], detail: Dict[str, Any]):
        known = match_known(self.prop, signature)
        if known is not None:
            key = known.get("id") or known.get("description", "known")
            if key not in self.known_hits:
                print(f"KNOWN-FINDING: property={self.prop} {known.get('description', '')}", flush=True)
            self.known_hits[key] = self.known_hits.get(key, 0) + 1
            return
        key = json.dumps(signature, sort_keys=True, default=str)
        n = len(self._sig_seen)
        if key not in self._sig_seen and n < 40:
            self._sig_seen[key] = 0
            REPLAYS.mkdir(exist_ok=True)
            path = REPLAYS / f"{self.prop}_{self.tier}_{n}.json"
            path.write_text(json.dumps({"property": self.prop, "signature": signature, "detail": detail}, indent=1, default=str))
            print(f"VIOLATION property={self.prop} replay={path}", flush=True)
            print(f"  signature: {json.dumps(signature, default=str)}", flush=True)
        if key in self._sig_seen:
            self._sig_seen[key] += 1
        self.violations.append(signature)

    def finish(self, extra: Optional[Dict[str, Any]] = None) -> int:
        EVIDENCE.mkdir(exist_ok=True)
        cov = dict(self.cov)
        if extra:
            cov.update(extra)
        if not cov["samples"]:
            cov["samples"] = ["(no sample recorded)"]
        cov["known_findings_hit"] = self.known_hits
        if self.notes:
            cov["notes"] = self.notes
        ev = {
            "property_id": self.prop,
            "tier": self.tier,
            "seed": self.seed,
            "level": self.level,
            "coverage": cov,
            "assumptions": self.assumptions,
            "wall_s": round(time.time() - self.t0, 2),
            "violations": len(self.violations),
        }
        evdir = EVIDENCE / "ext" if self.prop.startswith("EXT") else EVIDENCE  # extensions are not listed properties
        if REPO.resolve() != Path("/repo"):
            # a run against another tree (a seeded change in a scratch worktree) never overwrites the evidence of /repo
            evdir = Path(tempfile.gettempdir()) / "verif_evidence_other_tree"
        evdir.mkdir(exist_ok=True, parents=True)
        (evdir / f"{self.prop}.json").write_text(json.dumps(ev, indent=1, default=str))
        if self.violations:
            print(f"{self.prop}: {len(self.violations)} violation(s), {len(self._sig_seen)} distinct signature(s)", flush=True)
            return 1
        print(
            f"{self.prop}: OK  states={cov['states']} transitions={cov['transitions']} "
            f"impl_traces={cov['traces_validated_against_impl']} known={sum(self.known_hits.values())} "
            f"wall={ev['wall_s']}s",
            flush=True,
        )
        return 0


def binding_selftest(chk: Check, trace_module: str, traces: List[Dict[str, Any]], res: Dict[str, Any], n: int = 4):
    """Vacuity / binding test of a trace specification: corrupt accepted implementation traces (flip one logged
    field, drop one event, swap two adjacent events) and require that TLC rejects at least one corruption of each
    kind it could apply.  A trace spec that accepts everything is a machinery failure, not a pass."""
    import copy as _copy

    from . import tlc as _tlc

    good = [t for t, (reached, length) in zip(traces, res["results"]) if reached == length + 1 and len(t["ev"]) >= 2]
    good = sorted(good, key=lambda t: -len(t["ev"]))[:n]
    if not good:
        return
    rng = random.Random(chk.seed)
    mutants, kinds = [], []
    for t in good:
        ev = t["ev"]
        # (a) flip one logged field of one event
        for _ in range(3):
            m = _copy.deepcopy(t)
            e = m["ev"][rng.randrange(len(ev))]

            def leaves(o, acc):
                if isinstance(o, dict):
                    for kk, vv in o.items():
                        if kk == "ev":
                            continue
                        if isinstance(vv, (bool, int, str)):
                            acc.append((o, kk))
                        elif isinstance(vv, (dict, list)):
                            leaves(vv, acc)
                elif isinstance(o, list):
                    for i, vv in enumerate(o):
                        if isinstance(vv, (bool, int, str)):
                            acc.append((o, i))
                        elif isinstance(vv, (dict, list)):
                            leaves(vv, acc)
                return acc

            cand = leaves(e, [])
            if not cand:
                continue
            box, k = rng.choice(cand)
            v = box[k]
            box[k] = (not v) if isinstance(v, bool) else (v + 1 if isinstance(v, int) else v + "_zz")
            mutants.append({"cfg": m["cfg"], "ev": m["ev"]})
            kinds.append("flip")
        # (b) drop one event
        m = _copy.deepcopy(t)
        del m["ev"][rng.randrange(len(ev) - 1)]
        mutants.append({"cfg": m["cfg"], "ev": m["ev"]})
        kinds.append("drop")
        # (c) swap two adjacent different events
        for i in range(len(ev) - 1):
            if ev[i] != ev[i + 1]:
                m = _copy.deepcopy(t)
                m["ev"][i], m["ev"][i + 1] = m["ev"][i + 1], m["ev"][i]
                mutants.append({"cfg": m["cfg"], "ev": m["ev"]})
                kinds.append("swap")
                break
    # one JVM per corrupted trace: a corruption may make TLC fail to *evaluate* the trace spec (e.g. an index out
    # of range) - that is a rejection of that trace, and must not take the others down with it
    from concurrent.futures import ThreadPoolExecutor

    def one(m):
        try:
            rr = _tlc.validate(trace_module, [m], chunk=1, parallel=1)
            reached, length = rr["results"][0]
            return reached != length + 1
        except _tlc.TLCError:
            return True

    with ThreadPoolExecutor(max_workers=8) as ex:
        verdicts = list(ex.map(one, mutants))
    rej: Dict[str, List[int]] = {}
    for k, rejected in zip(kinds, verdicts):
        rej.setdefault(k, [0, 0])
        rej[k][1] += 1
        if rejected:
            rej[k][0] += 1
    chk.cov.setdefault("binding_selftest", {})[trace_module] = {k: f"{a}/{b} corrupted traces rejected" for k, (a, b) in rej.items()}
    if sum(a for a, b in rej.values()) == 0:
        raise RuntimeError(f"binding self-test: {trace_module} accepted every corrupted trace (vacuous trace specification)")


def judge_traces(chk: Check, module: str, traces: List[Dict[str, Any]], res: Dict[str, Any],
                 sig_fn: Callable[[Dict[str, Any], Dict[str, Any], Dict[str, Any]], Dict[str, Any]],
                 label: str = "", selftest: Optional[str] = None):
    """Turn TLC's per-trace results into violations / coverage.  `selftest` = name of the trace module: also run
    the binding self-test on accepted traces."""
    if selftest:
        binding_selftest(chk, selftest, traces, res)
    chk.cov["states"] += res["distinct"]
    chk.cov["transitions"] += res["states"]
    per_event: Dict[str, int] = chk.cov.setdefault("impl_events", {})
    unexamined = 0
    for tr, (reached, length), stuck in zip(traces, res["results"], res["stuck"]):
        chk.cov["traces_validated_against_impl"] += 1
        for e in tr["ev"][: max(0, reached - 1)]:
            per_event[e["ev"]] = per_event.get(e["ev"], 0) + 1
        if reached == length + 1:
            continue
        unexamined += length - reached
        event = tr["ev"][reached - 1] if 0 < reached <= length else {}
        st = stuck or {}
        sig = sig_fn(tr, event, st)
        sig.setdefault("module", module)
        sig.setdefault("event", event.get("ev"))
        fail = st.get("fail") or []
        sig.setdefault("clause", ",".join(sorted(fail)) if fail else "no-matching-action")
        chk.violation(
            sig,
            {
                "trace_label": label,
                "meta": tr.get("meta"),
                "cfg": tr.get("cfg"),
                "position": reached,
                "event": event,
                "spec_state_before": st.get("st"),
                "failing_clauses": fail,
                "prefix": tr["ev"][: reached - 1][-30:],
                "stimulus": tr.get("stimulus"),
            },
        )
    if unexamined:
        chk.cov["events_unexamined_after_divergence"] = chk.cov.get("events_unexamined_after_divergence", 0) + unexamined


def run_main(fn: Callable[[], int]):
    """Exit 2 for machinery failures, never for something the implementation did."""
    try:
        rc = fn()
    except SystemExit:
        raise
    except BaseException:  # noqa
        traceback.print_exc()
        print("MACHINERY FAILURE (exit 2)", flush=True)
        sys.exit(2)
    sys.exit(rc)
