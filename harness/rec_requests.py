"""Request-tree observation (independent dry run), agent-action instance generation, request event
records for RequestsTrace.tla (C05, C11)."""
from __future__ import annotations

import copy
import random
from typing import Any, Dict, List, Optional, Tuple

from . import project


def dry_run(sim, request: List[Any]) -> Tuple[List[Dict[str, bool]], bool]:
    """Walk the live RequestManager tree along `request` WITHOUT calling any handler and without using
    RequestManager.check_valid: returns ([{present, guard}...], leaf_reached)."""
    from primaite.simulator.core import RequestManager

    rm = sim._request_manager
    rest = list(request)
    obs: List[Dict[str, bool]] = []
    while True:
        if not rest:
            return obs, False
        key, opts = rest[0], rest[1:]
        try:
            present = key in rm.request_types
        except TypeError:  # unhashable key (a dict/list where a name is expected)
            present = False
        if not present:
            obs.append({"present": False, "guard": False})
            return obs, False
        rt = rm.request_types[key]
        try:
            ok = bool(rt.validator(opts, {}))
        except Exception:  # noqa - the permission rule itself raised: the real resolution raises there too
            ok = False
        obs.append({"present": True, "guard": ok})
        if not ok:
            return obs, False
        if isinstance(rt.func, RequestManager):
            rm = rt.func
            rest = opts
            continue
        # a route registered as `component.apply_request` is the same delegation written differently (apply_request only
        # hands the request to the component's own manager): the permission rules behind it are on the path as well
        owner = getattr(rt.func, "__self__", None)
        if getattr(rt.func, "__name__", "") == "apply_request" and isinstance(getattr(owner, "_request_manager", None), RequestManager):
            rm = owner._request_manager
            rest = opts
            continue
        return obs, True


# -----------------------------------------------------------------------------------------
# agent action instances
# -----------------------------------------------------------------------------------------


def _sw(node, cls):
    return [n for n, s in node.software_manager.software.items() if isinstance(s, cls)]


def action_instances(game, rng: random.Random, per_type: int = 6) -> List[Tuple[str, Dict[str, Any], bool]]:
    """(action type, options, parameters-name-existing-components) for every registered action type
    crossed with components of the live network."""
    from primaite.game.agent.actions.abstract import AbstractAction
    from primaite.simulator.network.hardware.nodes.host.host_node import HostNode
    from primaite.simulator.network.hardware.nodes.network.firewall import Firewall
    from primaite.simulator.network.hardware.nodes.network.router import Router
    from primaite.simulator.system.applications.application import Application
    from primaite.simulator.system.services.service import Service

    net = game.simulation.network
    nodes = list(net.nodes.values())
    out: List[Tuple[str, Dict[str, Any], bool]] = []
    ips = [str(ni.ip_address) for n in nodes for ni in n.network_interface.values() if hasattr(ni, "ip_address")]

    def files(n):
        res = []
        for fname, folder in n.file_system.folders.items():
            for f in folder.files.values():
                res.append((folder.name, f.name))
        return res

    for name in AbstractAction._registry:
        cands: List[Tuple[Dict[str, Any], bool]] = []
        for n in nodes:
            h = n.config.hostname
            is_host = isinstance(n, HostNode)
            is_fw = isinstance(n, Firewall)
            is_router = isinstance(n, Router) and not is_fw
            apps, svcs = _sw(n, Application), _sw(n, Service)
            fl = files(n)
            folders = [f.name for f in n.file_system.folders.values()]
            if name == "do-nothing":
                cands.append(({}, True))
                break
            if name.startswith("node-application-") and name not in ("node-application-install", "node-application-remove"):
                for a in apps:
                    # nmap deliberately exposes only its three scan operations (its manager does not inherit the
                    # generic application requests): the generic verbs do not exist for it
                    # (nmap offers scan / close / fix like every application, but no execute of its own)
                    # (likewise c2-server: it is driven by the c2-server-* actions and has no `execute` of its own)
                    cands.append(({"node_name": h, "application_name": a}, not (a in ("nmap", "c2-server") and name == "node-application-execute")))
                cands.append(({"node_name": h, "application_name": "no-such-app"}, False))
                for a in apps[:2]:
                    if "-" in a:  # a near miss: the other usual spelling of an existing name names nothing
                        cands.append(({"node_name": h, "application_name": a.replace("-", "_")}, False))
            elif name == "node-application-install":
                for a in ("dos-bot", "database-client", "web-browser"):
                    cands.append(({"node_name": h, "application_name": a}, True))
            elif name == "node-application-remove":
                for a in apps + ["no-such-app"]:
                    cands.append(({"node_name": h, "application_name": a}, True))
            elif name.startswith("node-service-"):
                for s in svcs:
                    cands.append(({"node_name": h, "service_name": s}, True))
                cands.append(({"node_name": h, "service_name": "no-such-service"}, False))
                for sv in svcs[:2]:
                    if "-" in sv:
                        cands.append(({"node_name": h, "service_name": sv.replace("-", "_")}, False))
                if "_" in h and svcs:
                    cands.append(({"node_name": h.replace("_", "-"), "service_name": svcs[0]}, False))
            elif name == "node-file-create":
                cands.append(({"node_name": h, "folder_name": "vfold", "file_name": f"v{rng.randrange(5)}.txt"}, True))
                for fo, fi in fl[:2]:
                    cands.append(({"node_name": h, "folder_name": fo, "file_name": fi}, True))
            elif name.startswith("node-file-"):
                for fo, fi in fl:
                    cands.append(({"node_name": h, "folder_name": fo, "file_name": fi}, True))
                cands.append(({"node_name": h, "folder_name": "root", "file_name": "missing.txt"}, False))
                cands.append(({"node_name": h, "folder_name": "nofolder", "file_name": "missing.txt"}, False))
            elif name == "node-folder-create":
                cands.append(({"node_name": h, "folder_name": f"vf{rng.randrange(4)}"}, True))
                for fo in folders[:1]:
                    cands.append(({"node_name": h, "folder_name": fo}, True))
            elif name.startswith("node-folder-"):
                for fo in folders:
                    cands.append(({"node_name": h, "folder_name": fo}, True))
                cands.append(({"node_name": h, "folder_name": "nofolder"}, False))
            elif name in ("host-nic-enable", "host-nic-disable"):
                for k in n.network_interface:
                    cands.append(({"node_name": h, "nic_num": k}, True))
                cands.append(({"node_name": h, "nic_num": 99}, False))
            elif name in ("network-port-enable", "network-port-disable"):
                for k in list(n.network_interface)[:3]:
                    cands.append(({"target_nodename": h, "port_num": k}, True))
            elif name in ("node-os-scan", "node-shutdown", "node-startup", "node-reset"):
                cands.append(({"node_name": h}, True))
            elif name in ("node-nmap-ping-scan",):
                cands.append(({"source_node": h, "target_ip_address": rng.choice(ips)}, "nmap" in n.software_manager.software))
            elif name in ("node-nmap-port-scan", "node-network-service-recon"):
                cands.append(({"source_node": h, "target_ip_address": rng.choice(ips), "target_protocol": "tcp", "target_port": 80},
                              "nmap" in n.software_manager.software))
            elif name == "node-account-add-user":
                cands.append(({"node_name": h, "username": f"u{rng.randrange(3)}", "password": "pw", "is_admin": False},
                              "user-manager" in n.software_manager.software))
            elif name == "node-account-disable-user":
                cands.append(({"node_name": h, "username": rng.choice(["admin", "u0", "nobody"])}, "user-manager" in n.software_manager.software))
            elif name == "node-account-change-password":
                cands.append(({"node_name": h, "username": "admin", "current_password": rng.choice(["admin", "x"]), "new_password": "admin"},
                              "user-manager" in n.software_manager.software))
            elif name == "node-send-local-command":
                cands.append(({"node_name": h, "username": "admin", "password": "admin", "command": ["file_system", "create", "folder", "lc"]},
                              "terminal" in n.software_manager.software))
            elif name == "node-session-remote-login":
                cands.append(({"node_name": h, "remote_ip": rng.choice(ips), "username": "admin", "password": rng.choice(["admin", "bad"])},
                              "terminal" in n.software_manager.software))
            elif name == "node-session-remote-logoff":
                cands.append(({"node_name": h, "remote_ip": rng.choice(ips)}, "terminal" in n.software_manager.software))
            elif name == "node-send-remote-command":
                cands.append(({"node_name": h, "remote_ip": rng.choice(ips), "command": ["file_system", "create", "folder", "rc"]},
                              "terminal" in n.software_manager.software))
            elif name == "router-acl-add-rule" and (is_router or is_host):
                cands.append(({"target_router": h, "position": rng.randrange(1, 20), "permission": rng.choice(["PERMIT", "DENY"]),
                               "src_ip": rng.choice(ips + ["ALL"]), "src_wildcard": "NONE", "dst_ip": "ALL", "dst_wildcard": "NONE",
                               "protocol_name": rng.choice(["ALL", "tcp", "udp", "icmp"]), "src_port": "ALL", "dst_port": "ALL"}, is_router))
            elif name == "router-acl-remove-rule" and (is_router or is_host):
                cands.append(({"target_router": h, "position": rng.randrange(1, 24)}, is_router))
            elif name == "firewall-acl-add-rule" and (is_fw or is_host):
                cands.append(({"target_firewall_nodename": h, "firewall_port_name": rng.choice(["internal", "external", "dmz"]),
                               "firewall_port_direction": rng.choice(["inbound", "outbound"]),
                               "position": rng.randrange(1, 20), "permission": rng.choice(["PERMIT", "DENY"]),
                               "src_ip": rng.choice(ips + ["ALL"]), "src_wildcard": "NONE", "dst_ip": "ALL", "dst_wildcard": "NONE",
                               "protocol_name": rng.choice(["ALL", "tcp", "udp", "icmp"]), "src_port": "ALL", "dst_port": "ALL"}, is_fw))
            elif name == "firewall-acl-remove-rule" and (is_fw or is_host):
                cands.append(({"target_firewall_nodename": h, "firewall_port_name": rng.choice(["internal", "external", "dmz"]),
                               "firewall_port_direction": rng.choice(["inbound", "outbound"]), "position": rng.randrange(1, 24)}, is_fw))
            elif name == "configure-database-client":
                cands.append(({"node_name": h, "server_ip_address": rng.choice(ips), "server_password": None}, "database-client" in apps))
            elif name == "configure-ransomware-script":
                cands.append(({"node_name": h, "server_ip_address": rng.choice(ips)}, "ransomware-script" in apps))
            elif name == "configure-dos-bot":
                cands.append(({"node_name": h, "target_ip_address": rng.choice(ips), "target_port": 5432}, "dos-bot" in apps))
            elif name == "configure-c2-beacon":
                cands.append(({"node_name": h, "c2_server_ip_address": rng.choice(ips)}, "c2-beacon" in apps))
            elif name == "c2-server-ransomware-configure":
                cands.append(({"node_name": h, "server_ip_address": rng.choice(ips), "payload": "ENCRYPT"}, "c2-server" in apps))
            elif name == "c2-server-ransomware-launch":
                cands.append(({"node_name": h}, "c2-server" in apps))
            elif name == "c2-server-terminal-command":
                cands.append(({"node_name": h, "commands": [["file_system", "create", "folder", "cc"]], "ip_address": None,
                               "username": "admin", "password": "admin"}, "c2-server" in apps))
            elif name == "c2-server-data-exfiltrate":
                cands.append(({"node_name": h, "username": "admin", "password": "admin", "target_ip_address": rng.choice(ips),
                               "target_file_name": "database.db", "target_folder_name": "database", "exfiltration_folder_name": None},
                              "c2-server" in apps))
        rng.shuffle(cands)
        for opts, exist in cands[:per_type]:
            out.append((name, opts, bool(exist)))
        # one instance aimed at a node that does not exist
        for opts, exist in cands[:1]:
            o = copy.deepcopy(opts)
            for k in ("node_name", "target_router", "target_firewall_nodename", "target_nodename", "source_node"):
                if k in o:
                    o[k] = "no_such_node"
                    out.append((name, o, False))
                    break
    return out


def form(action: str, options: Dict[str, Any]):
    from primaite.game.agent.actions.abstract import AbstractAction

    cls = AbstractAction._registry[action]
    return cls.form_request(config=cls.ConfigSchema(**options))


# -----------------------------------------------------------------------------------------
# mutations of a request path
# -----------------------------------------------------------------------------------------


def mutations(request: List[Any], leaf_depth: int, rng: random.Random) -> List[Tuple[str, List[Any]]]:
    """Mutations of the *path elements* (positions < leaf_depth): misspell, drop, truncate."""
    out = []
    n = min(leaf_depth, len(request))
    for i in range(n):
        m = list(request)
        m[i] = f"{m[i]}_zz"
        out.append((f"misspell@{i}", m))
    for i in range(n):
        m = list(request)
        del m[i]
        out.append((f"drop@{i}", m))
    for i in range(1, n):
        out.append((f"truncate@{i}", list(request[:i])))
    # names of components that travel as PARAMETERS of a handler (folder / file / user names ...): misspelt and empty
    def names_component(v) -> bool:
        # (addresses, numbers and other VALUES are not component names: a malformed value is outside the statement)
        if not isinstance(v, str) or not v or v[0].isdigit() or v.upper() in ("ALL", "NONE", "PERMIT", "DENY", "TRUE", "FALSE"):
            return False
        return all(ch.isalnum() or ch in "-_. " for ch in v)

    for i in range(n, len(request)):
        if names_component(request[i]):
            m = list(request)
            m[i] = f"{m[i]}_zz"
            out.append((f"param-misspell@{i}", m))
            m = list(request)
            m[i] = ""
            out.append((f"param-empty@{i}", m))
    return out


class DigestNumbering:
    def __init__(self):
        self.ids: Dict[str, int] = {}

    def num(self, d: str) -> int:
        if d not in self.ids:
            self.ids[d] = len(self.ids) + 1
        return self.ids[d]


def state_digest(sim) -> str:
    return project.digest(sim) + project.described(sim)


def addresses_absent(sim, req) -> bool:
    """Ground truth from the simulator's COMPONENT tables (never from the request routes): does this request address,
    by name, an application / service / folder / file of an existing node that does not exist right now?  (Requests that
    bring a component into being - install, create, restore - address the manager, not the component: False.)"""
    try:
        r = [str(x) for x in req]
        if len(r) < 5 or r[0] != "network" or r[1] != "node":
            return False
        node = sim.network.get_node_by_hostname(r[2])
        if node is None:
            return False
        if r[3] in ("application", "service"):
            table = node.applications if r[3] == "application" else node.services
            return not any(sw.name == r[4] for sw in table.values())
        if r[3:6] == ["software_manager", "application", "uninstall"] and len(r) >= 7:
            # "uninstall the application NAME": there is no application of that name (a service of that name is not one)
            return not any(sw.name == r[6] for sw in node.applications.values())
        if r[3] == "file_system" and r[4] == "folder" and len(r) >= 7 and "restore" not in r[5:]:
            fo = next((f for f in node.file_system.folders.values() if f.name == r[5]), None)
            if fo is None:
                return True
            if r[6] == "file" and len(r) >= 9:
                return not any(f.name == r[7] for f in fo.files.values())
        return False
    except Exception:  # noqa - no claim
        return False


def documented_power_ok(sim, req) -> bool:
    """The power conjunct of the documented precondition of a request to a node (action_masking.rst: every action needs
    "Node is on", node-startup needs "Node is off"), evaluated on the node's state - not through any validator."""
    try:
        r = [str(x) for x in req]
        if len(r) < 4 or r[0] != "network" or r[1] != "node":
            return True
        node = sim.network.get_node_by_hostname(r[2])
        if node is None:
            return True
        st = node.operating_state.name
        return st == "OFF" if r[3] == "startup" else st == "ON"
    except Exception:  # noqa - no claim
        return True


def req_event(path, leaf, executed, status, reason, pre, post, mask="na", action=False, exist=False, gone=False, declared=True,
              pwok=True) -> Dict[str, Any]:
    return {
        "gone": bool(gone),
        "pwok": bool(pwok),
        "declared": bool(declared),
        "ev": "Req",
        "path": [{"present": bool(p["present"]), "guard": bool(p["guard"])} for p in path],
        "leaf": bool(leaf),
        "exec": bool(executed),
        "status": status,
        "reason": bool(reason),
        "pre": pre,
        "post": post,
        "mask": mask,
        "action": bool(action),
        "exist": bool(exist),
    }


def tick_event(post: int) -> Dict[str, Any]:
    e = req_event([], False, False, "", False, 0, post)
    e["ev"] = "Tick"
    return e
