"""Recorder / ground-truth reader for ObsEncoding.tla (C02, C09).

Three things live here, shared by ``c02.py`` and ``c09.py``:

* ``read_dump``       the generator states of ``MC_ObsEncoding`` as TLC dumped them;
* ``ComponentBench``  component level: for one generator state (kind, cfg, truth) build the synthetic
                      ``state`` dictionary ``describe_state()`` would produce for that truth (patched copies of
                      a REAL describe_state() taken from tiny simulations, so key names are the simulator's),
                      instantiate the REAL observation class(es) with that cfg, call ``observe(state)`` and read
                      ``.space``;
* ``ObsWalker``       environment level: walk the *declared* observation tree of an agent (parsed from the
                      scenario's ``observation_space`` options, NOT from the observation objects), read the
                      truth of every leaf group DIRECTLY FROM THE SIMULATOR OBJECTS (never ``describe_state``),
                      and pair it with ``observation_manager.current_observation`` and the real gymnasium space.

One event = one leaf group (see ObsEncodingTrace.tla); one trace = one event, so that one divergence never
hides another.
"""
from __future__ import annotations

import copy
import hashlib
import json
import re
from typing import Any, Dict, Iterable, List, Optional, Tuple

UNIT = 131072.0  # bytes per "Mbit" as the simulator converts (bits / 1024**2)
CLIP = 2**27  # 9 * CLIP < 2**31 (TLC integers)
OUT = 999
LIM = 2**30 - 1

CFG0 = dict(scan=False, incAccess=False, incNmne=False, capNmne=False, incUsers=False, lo=0, med=5, hi=10,
            nIp=0, nWc=0, nPort=0, nProto=0, nRules=0, slot=0, nSvc=0, nApp=0, nFold=0, nNic=0, nFiles=0, nPorts=0)
TRUTH0 = dict(exists=False, nodeOn=False, op=0, actual=0, visible=0, count=0, count2=0, enabled=False, scanned=False, last=0,
              inN=0, inD=1, outN=0, outD=1, nmIn=0, nmInPrev=0, nmOut=0, nmOutPrev=0, local=False, remote=0,
              rule=False, action=0, sIp=0, sWc=0, sPort=0, dIp=0, dWc=0, dPort=0, proto=0)
EVENT0 = dict(ev="Leaf", kind="", cfg=CFG0, truth=TRUTH0, obs={}, size={}, contains=True, nested=True, hasFlat=False,
              flat=False, bad=0, od="", ad="", where="", exc="", inObs=False)

DRIFT_FOLDER = ("observations in which a folder's visible status differs from the value at the last folder scan the "
                "observation saw (not scanned yet, or changed since without a folder scan): the leaf does not track it")
DRIFT_FOLDER_OS = ("... of which after a folder scan had been seen (visible status changed without a completed folder scan, "
                   "e.g. by a node OS scan)")

NOT_PINNED = [
    "link / NIC-traffic band at an exact ninth of the capacity (k or k+1 admitted) and above 100 % (any band)",
    "NMNE: cumulative count or count since the previous observation (both categories admitted)",
    "ACL ip / wildcard / port / protocol id of a rule value that is not in the configured list (any id)",
    "`position` of an empty ACL slot or of an ACL that reads as default (0 or the slot number)",
    "number of PORTS entries of a firewall observation",
    "real Discrete sizes larger than the documented number of values are accepted (reported as drift)",
]


def cfg_rec(**kw) -> Dict[str, Any]:
    d = dict(CFG0)
    for k, v in kw.items():
        if k not in d:
            raise KeyError(k)
        d[k] = v
    return d


def truth_rec(**kw) -> Dict[str, Any]:
    d = dict(TRUTH0)
    for k, v in kw.items():
        if k not in d:
            raise KeyError(k)
        d[k] = v
    return d


def _int(v) -> int:
    v = int(v)
    return max(-LIM, min(LIM, v))


def leaf_event(kind: str, cfg: Dict, truth: Dict, obs: Dict[str, int], size: Dict[str, int], contains: bool) -> Dict:
    e = dict(EVENT0)
    e.update(ev="Leaf", kind=kind, cfg=cfg, truth=truth, obs={k: _int(v) for k, v in obs.items()},
             size={k: _int(v) for k, v in size.items()}, contains=bool(contains))
    return e


def step_event(nested: bool, has_flat: bool, flat: bool, bad: int) -> Dict:
    e = dict(EVENT0)
    e.update(ev="Step", nested=bool(nested), hasFlat=bool(has_flat), flat=bool(flat), bad=int(bad))
    return e


def episode_event(od: str, ad: str) -> Dict:
    e = dict(EVENT0)
    e.update(ev="Episode", od=od, ad=ad)
    return e


def raise_origin(exc: BaseException) -> str:
    """Where repository code raised: "observe" (inside game/agent/observations), "flatten" (gymnasium flattening
    of the observation in PrimaiteGymEnv._get_obs) or "" (anywhere else: simulation, agents, rewards)."""
    import traceback

    frames = traceback.extract_tb(exc.__traceback__)
    if any("/game/agent/observations/" in f.filename for f in frames):
        return "observe"
    if any(f.name == "_get_obs" or "/gymnasium/spaces/" in f.filename for f in frames):
        return "flatten"
    return ""


def raised_event(where: str, exc: BaseException) -> Dict:
    """`where` = observe_<kind> at component level; at environment level the origin if it is the observation
    code or the flattening, else the env call that raised (step / reset / construct)."""
    e = dict(EVENT0)
    origin = raise_origin(exc)
    if not where.startswith("observe_") and origin:
        where = origin
    e.update(ev="Raised", where=where, exc=f"{type(exc).__name__}: {str(exc)[:160]}",
             inObs=where.startswith("observe"))
    return e


def trace(prop: str, events: List[Dict], meta: Dict, constant: bool = True, stimulus: Any = None) -> Dict:
    return {"cfg": {"prop": prop, "constant": bool(constant)}, "ev": events, "meta": meta, "stimulus": stimulus}


# ---------------------------------------------------------------------------------------
# generator states from TLC's dump
# ---------------------------------------------------------------------------------------

_RE_FIELD = re.compile(r"([A-Za-z_][A-Za-z_0-9]*) \|->")


def _tla_record_to_json(s: str) -> Dict[str, Any]:
    s = _RE_FIELD.sub(r'"\1":', s)
    s = s.replace("[", "{").replace("]", "}").replace("TRUE", "true").replace("FALSE", "false")
    return json.loads(s)


def read_dump(path: str) -> List[Tuple[str, Dict[str, Any], Dict[str, Any]]]:
    """(kind, cfg, truth) of every state of MC_ObsEncoding in phase "gen" (TLC `-dump` file)."""
    text = open(path).read()
    out = []
    for block in text.split("\n\nState ")[0:]:
        if 'phase = "gen"' not in block:
            continue
        parts = block.split("\n/\\ ")
        d = {}
        for p in parts[1:]:
            var, _, val = p.partition(" = ")
            d[var.strip()] = val.strip()
        kind = d["kind"].strip('"')
        out.append((kind, _tla_record_to_json(d["cfg"]), _tla_record_to_json(d["truth"])))
    return out


# ---------------------------------------------------------------------------------------
# gymnasium helpers
# ---------------------------------------------------------------------------------------


def space_digest(space) -> str:
    """Structural digest of a gymnasium space (types, keys, sizes, bounds)."""
    from gymnasium import spaces

    def rec(s):
        if isinstance(s, spaces.Dict):
            return {"Dict": [[repr(k), rec(v)] for k, v in sorted(s.spaces.items(), key=lambda kv: repr(kv[0]))]}
        if isinstance(s, spaces.Discrete):
            return {"Discrete": [int(s.n), int(s.start)]}
        if isinstance(s, spaces.MultiDiscrete):
            return {"MultiDiscrete": [int(x) for x in s.nvec.flatten()]}
        if isinstance(s, spaces.Box):
            return {"Box": [list(s.shape), str(s.dtype), float(s.low.min()), float(s.high.max()),
                            hashlib.sha1(s.low.tobytes() + s.high.tobytes()).hexdigest()]}
        if isinstance(s, spaces.Tuple):
            return {"Tuple": [rec(x) for x in s.spaces]}
        return {"Other": repr(s)}

    return hashlib.sha1(json.dumps(rec(space), sort_keys=True).encode()).hexdigest()[:16]


def count_bad_leaves(space, obs) -> int:
    """Number of leaves of `obs` that are not members of the matching leaf of `space` (+ key mismatches)."""
    from gymnasium import spaces

    if isinstance(space, spaces.Dict):
        if not isinstance(obs, dict):
            return 1
        bad = len(set(space.spaces.keys()) ^ set(obs.keys()))
        for k, sub in space.spaces.items():
            if k in obs:
                bad += count_bad_leaves(sub, obs[k])
        return bad
    try:
        return 0 if space.contains(obs) else 1
    except Exception:  # noqa
        return 1


def _scalar(space, obs, name_map: Dict[str, Tuple]) -> Tuple[Dict[str, int], Dict[str, int], bool]:
    """Observed values, real sizes and gymnasium membership of the scalar fields `name_map`
    (field name -> key path below this group).  A key missing from the observation / the space is
    simply missing from the result (the trace spec names that)."""
    o, z, ok = {}, {}, True
    for f, path in name_map.items():
        so, ss = obs, space
        for k in path:
            so = so.get(k) if isinstance(so, dict) and k in so else _MISSING
            ss = ss.spaces.get(k) if ss is not _MISSING and hasattr(ss, "spaces") and k in ss.spaces else _MISSING
        if ss is not _MISSING and hasattr(ss, "n"):
            z[f] = int(ss.n)
        if so is not _MISSING and not isinstance(so, dict):
            o[f] = so
        if ss is _MISSING and so is _MISSING:
            continue
        if ss is _MISSING or so is _MISSING:
            ok = False
        else:
            try:
                ok = ok and bool(ss.contains(so))
            except Exception:  # noqa
                ok = False
    return o, z, ok


_MISSING = object()


def _sub(d, *keys):
    for k in keys:
        if isinstance(d, dict) and k in d:
            d = d[k]
        elif hasattr(d, "spaces") and k in d.spaces:
            d = d.spaces[k]
        else:
            return {}
    return d


def _nkeys(d) -> int:
    if isinstance(d, dict):
        return len(d)
    if hasattr(d, "spaces"):
        return len(d.spaces)
    return 0


def _bytes(mbits: float) -> int:
    return min(CLIP, int(round(float(mbits) * UNIT)))


def _ratio(load_mbit: float, cap_mbit: float) -> Tuple[int, int]:
    """load / capacity as an exact ratio of two integers below 2**27.  Loads are whole bytes; a capacity that is not
    a whole number of bytes (e.g. a 0.06 Mbit link = 7864.32 bytes) is scaled by the smallest power of ten that
    makes it whole, so that the band boundaries are where the simulator's own division puts them."""
    n = float(load_mbit) * UNIT
    d = float(cap_mbit) * UNIT
    for k in (1, 10, 100, 1000, 10**4, 10**5, 10**6):
        dk, nk = d * k, n * k
        if abs(dk - round(dk)) < 1e-6 and abs(nk - round(nk)) < 1e-6 and round(dk) < CLIP:
            return min(CLIP, int(round(nk))), max(1, int(round(dk)))
    return min(CLIP, int(round(n))), max(1, min(CLIP, int(round(d))))


# ---------------------------------------------------------------------------------------
# declared observation tree (from the scenario's options)
# ---------------------------------------------------------------------------------------


def _thr(thresholds: Optional[Dict], key: str) -> Tuple[int, int, int]:
    t = (thresholds or {}).get(key)
    if not t:
        return 0, 5, 10
    return int(t["low"]), int(t["medium"]), int(t["high"])


def _inh(own, parent):
    return parent if own is None else own


def declare(obs_type: str, options: Any) -> Dict[str, Any]:
    """The declared observation tree of one agent: plain dicts, inheritance of the `nodes` level options
    resolved as the option documentation says (a host / router / firewall value overrides the nodes-level one)."""
    from primaite.game.agent.observations.observations import AbstractObservation

    cls = AbstractObservation._registry[obs_type]
    if isinstance(options, dict):
        o = cls.ConfigSchema(**options)
    else:
        o = cls.ConfigSchema(**options.model_dump())
    if obs_type == "custom":
        return {"type": "custom", "components": [(c.label, declare(c.type, dict(c.options))) for c in o.components]}
    if obs_type == "none":
        return {"type": "none"}
    if obs_type == "nodes":
        hosts = []
        for h in o.hosts:
            hosts.append(_declare_host(h, o))
        routers = [_declare_router(r, o) for r in o.routers]
        firewalls = [_declare_firewall(f, o) for f in o.firewalls]
        return {"type": "nodes", "hosts": hosts, "routers": routers, "firewalls": firewalls}
    if obs_type == "host":
        return _declare_host(o, None)
    if obs_type == "router":
        return _declare_router(o, None)
    if obs_type == "firewall":
        return _declare_firewall(o, None)
    if obs_type == "links":
        return {"type": "links", "refs": list(o.link_references)}
    if obs_type == "link":
        return {"type": "link", "ref": o.link_reference}
    return {"type": "unsupported", "what": obs_type}


def _declare_host(h, p) -> Dict[str, Any]:
    g = lambda name: _inh(getattr(h, name), getattr(p, name) if p is not None else None)  # noqa
    return {
        "type": "host", "hostname": h.hostname,
        "services": [s.service_name for s in h.services],
        "applications": [a.application_name for a in h.applications],
        "folders": [{"name": f.folder_name, "files": [x.file_name for x in f.files]} for f in h.folders],
        "nics_explicit": [n.nic_num for n in h.network_interfaces],
        "num_services": g("num_services") or 0, "num_applications": g("num_applications") or 0,
        "num_folders": g("num_folders") or 0, "num_files": g("num_files") or 0, "num_nics": g("num_nics") or 0,
        "include_nmne": bool(g("include_nmne")), "monitored_traffic": g("monitored_traffic"),
        "include_num_access": bool(g("include_num_access")),
        "fs_scan": bool(g("file_system_requires_scan")), "svc_scan": bool(g("services_requires_scan")),
        "app_scan": bool(g("applications_requires_scan")), "include_users": bool(g("include_users")),
    }


def _declare_acl_lists(x, p) -> Dict[str, Any]:
    g = lambda name: _inh(getattr(x, name), getattr(p, name) if p is not None else None)  # noqa
    return {"ip_list": [str(i) for i in (g("ip_list") or [])], "wildcard_list": [str(i) for i in (g("wildcard_list") or [])],
            "port_list": list(g("port_list") or []), "protocol_list": [str(i) for i in (g("protocol_list") or [])],
            "num_rules": g("num_rules") or 0, "include_users": bool(g("include_users"))}


def _declare_router(r, p) -> Dict[str, Any]:
    d = {"type": "router", "hostname": r.hostname}
    d.update(_declare_acl_lists(r, p))
    if r.acl is not None:
        for k in ("ip_list", "wildcard_list", "port_list", "protocol_list", "num_rules"):
            v = getattr(r.acl, k)
            if v is not None:
                d[k] = [str(i) for i in v] if k in ("ip_list", "wildcard_list", "protocol_list") else v
    num_ports = _inh(r.num_ports, p.num_ports if p is not None else None) or 0
    d["num_ports"] = num_ports
    d["ports"] = [c.port_id for c in r.ports] if r.ports is not None else list(range(1, num_ports + 1))
    return d


def _declare_firewall(f, p) -> Dict[str, Any]:
    d = {"type": "firewall", "hostname": f.hostname}
    d.update(_declare_acl_lists(f, p))
    return d


# ---------------------------------------------------------------------------------------
# environment level: truth from the simulator objects
# ---------------------------------------------------------------------------------------


class ObsWalker:
    """Walks the declared tree of ONE agent in ONE episode; keeps the previous NMNE totals per NIC."""

    def __init__(self, game, agent_ref: str, scenario_cfg: Dict[str, Any]):
        self.game = game
        self.ref = agent_ref
        self.agent = game.agents[agent_ref]
        oc = self.agent.config.observation_space
        self.decl = declare(oc.type, oc.options)
        self.thresholds = dict(getattr(game.options, "thresholds", None) or {})
        nm = ((scenario_cfg.get("simulation") or {}).get("network") or {}).get("nmne_config") or {}
        self.capture_nmne = bool(nm.get("capture_nmne", False))
        self.prev_nmne: Dict[Tuple, Tuple[int, int]] = {}
        self.folder_last: Dict[str, int] = {}
        self.notes: Dict[str, int] = {}
        self.drift: Dict[str, int] = {}

    def note(self, what: str):
        self.notes[what] = self.notes.get(what, 0) + 1

    # -- simulator lookups (objects, never describe_state)
    def node(self, hostname: str):
        for n in self.game.simulation.network.nodes.values():
            if n.config.hostname == hostname:
                return n
        return None

    @staticmethod
    def node_on(node) -> bool:
        from primaite.simulator.network.hardware.node_operating_state import NodeOperatingState

        return node is not None and node.operating_state == NodeOperatingState.ON

    def walk(self) -> List[Tuple[str, Dict]]:
        """[(path, leaf event)] for the agent's current observation."""
        om = self.agent.observation_manager
        out: List[Tuple[str, Dict]] = []
        self._walk(self.decl, om.current_observation, om.space, self.ref, out)
        return out

    def _walk(self, d, obs, space, path, out):
        t = d["type"]
        if t == "custom":
            for label, sub in d["components"]:
                self._walk(sub, _sub(obs, label), _sub(space, label), f"{path}/{label}", out)
        elif t == "nodes":
            for i, h in enumerate(d["hosts"]):
                self._host(h, _sub(obs, f"HOST{i}"), _sub(space, f"HOST{i}"), f"{path}/HOST{i}", out)
            for i, r in enumerate(d["routers"]):
                self._router(r, _sub(obs, f"ROUTER{i}"), _sub(space, f"ROUTER{i}"), f"{path}/ROUTER{i}", out)
            for i, f in enumerate(d["firewalls"]):
                self._firewall(f, _sub(obs, f"FIREWALL{i}"), _sub(space, f"FIREWALL{i}"), f"{path}/FIREWALL{i}", out)
        elif t == "host":
            self._host(d, obs, space, path, out)
        elif t == "router":
            self._router(d, obs, space, path, out)
        elif t == "firewall":
            self._firewall(d, obs, space, path, out)
        elif t == "links":
            for i, ref in enumerate(d["refs"]):
                self._link(ref, _sub(obs, i + 1), _sub(space, i + 1), f"{path}/{i + 1}", out)
        elif t == "link":
            self._link(d["ref"], obs, space, path, out)
        elif t == "none":
            pass
        else:
            self.note(f"unsupported observation type {d.get('what')}")

    # -- host and below
    def _host(self, h, obs, space, path, out):
        node = self.node(h["hostname"])
        on = self.node_on(node)
        fs = node.file_system if node is not None else None
        cfg = cfg_rec(incAccess=h["include_num_access"], incUsers=h["include_users"], nSvc=h["num_services"],
                      nApp=h["num_applications"], nFold=h["num_folders"], nNic=h["num_nics"])
        truth = truth_rec(exists=node is not None, nodeOn=on, op=node.operating_state.value if node is not None else 0,
                          count=_int(fs.num_file_creations) if fs is not None else 0,
                          count2=_int(fs.num_file_deletions) if fs is not None else 0)
        names = {"operating_status": ("operating_status",)}
        if h["include_num_access"] or "num_file_creations" in obs or "num_file_creations" in getattr(space, "spaces", {}):
            names["num_file_creations"] = ("num_file_creations",)
            names["num_file_deletions"] = ("num_file_deletions",)
        o, z, ok = _scalar(space, obs, names)
        for f, key in (("n_services", "SERVICES"), ("n_applications", "APPLICATIONS"), ("n_folders", "FOLDERS"), ("n_nics", "NICS")):
            o[f] = _nkeys(_sub(obs, key))
            z[f] = _nkeys(_sub(space, key)) + 1
        o["has_users"] = 1 if "users" in obs else 0
        z["has_users"] = 2
        out.append((path, leaf_event("host", cfg, truth, o, z, ok)))
        if h["include_users"] or "users" in obs:
            self._users(node, on, _sub(obs, "users"), _sub(space, "users"), f"{path}/users", out)
        # services: slot k+1 = k-th configured service, padded / truncated to num_services
        for k in range(h["num_services"]):
            name = h["services"][k] if k < len(h["services"]) else None
            self._software("service", node, on, name, h["svc_scan"], _sub(obs, "SERVICES", k + 1),
                           _sub(space, "SERVICES", k + 1), f"{path}/SERVICES/{k + 1}", out)
        for k in range(h["num_applications"]):
            name = h["applications"][k] if k < len(h["applications"]) else None
            self._software("application", node, on, name, h["app_scan"], _sub(obs, "APPLICATIONS", k + 1),
                           _sub(space, "APPLICATIONS", k + 1), f"{path}/APPLICATIONS/{k + 1}", out)
        for k in range(h["num_folders"]):
            fd = h["folders"][k] if k < len(h["folders"]) else None
            self._folder(node, on, fd, h, _sub(obs, "FOLDERS", k + 1), _sub(space, "FOLDERS", k + 1),
                         f"{path}/FOLDERS/{k + 1}", out)
        if h["nics_explicit"]:
            self.note("host with an explicit network_interfaces list: NIC slots not examined (slot rule undocumented)")
        else:
            for k in range(h["num_nics"]):
                self._nic(node, on, k + 1, h, _sub(obs, "NICS", k + 1), _sub(space, "NICS", k + 1),
                          f"{path}/NICS/{k + 1}", out)

    def _users(self, node, on, obs, space, path, out):
        usm = node.software_manager.software.get("user-session-manager") if node is not None else None
        truth = truth_rec(exists=usm is not None, nodeOn=on,
                          local=bool(usm is not None and usm.local_session is not None),
                          remote=_int(len(usm.remote_sessions)) if usm is not None else 0)
        o, z, ok = _scalar(space, obs, {"local_login": ("local_login",), "remote_sessions": ("remote_sessions",)})
        out.append((path, leaf_event("users", cfg_rec(incUsers=True), truth, o, z, ok)))

    def _software(self, kind, node, on, name, scan, obs, space, path, out):
        inst = None
        if node is not None and name is not None:
            pool = node.services if kind == "service" else node.applications
            cands = [s for s in pool.values() if s.name == name]
            if cands:
                eff = node.software_manager.software.get(name)
                inst = eff if any(eff is c for c in cands) else cands[-1]
                sig = {(c.operating_state.value, c.health_state_actual.value, c.health_state_visible.value) for c in cands}
                if len(sig) > 1:
                    self.note(f"{kind} `{name}` has several instances in different states on one node: not examined")
                    return
        lo, med, hi = _thr(self.thresholds, "app_executions") if kind == "application" else (0, 5, 10)
        cfg = cfg_rec(scan=bool(scan), lo=lo, med=med, hi=hi)
        if inst is None:
            truth = truth_rec(exists=False, nodeOn=on)
        else:
            op = inst.operating_state.value
            if kind == "service" and hasattr(inst, "_active") and op == 1 and not inst._active:
                # FTP services (FTPServiceABC._active docstring: "Flag that is True on timesteps where service transmits
                # data and False when idle. Used for describe_state"; "the service is shown as running only if actively
                # transmitting data this timestep"): an idle running FTP client / server reports STOPPED
                op = 2
                self.note("idle running FTP service read as STOPPED (documented in FTPServiceABC)")
            truth = truth_rec(exists=True, nodeOn=on, op=op, actual=inst.health_state_actual.value,
                              visible=inst.health_state_visible.value,
                              count=_int(inst.num_executions) if kind == "application" else 0)
        names = {"operating_status": ("operating_status",), "health_status": ("health_status",)}
        if kind == "application":
            names["num_executions"] = ("num_executions",)
        o, z, ok = _scalar(space, obs, names)
        out.append((path, leaf_event(kind, cfg, truth, o, z, ok)))

    def _folder(self, node, on, fd, h, obs, space, path, out):
        folder = None
        if node is not None and fd is not None:
            for f in node.file_system.folders.values():
                if f.name == fd["name"] and not f.deleted:
                    folder = f
        cfg = cfg_rec(scan=h["fs_scan"], nFiles=h["num_files"])
        # memory of the leaf (ObsEncoding!FolderEnc): the visible status at the last observation at which the folder's
        # scanned-this-step flag was set while the folder existed on a node that was ON; 0 before
        last = self.folder_last.get(path, 0)
        if folder is None:
            truth = truth_rec(exists=False, nodeOn=on, last=last)
        else:
            scanned = bool(folder._scanned_this_step)
            vis = folder.visible_health_status.value
            truth = truth_rec(exists=True, nodeOn=on, actual=folder.health_status.value, visible=vis, scanned=scanned, last=last)
            if scanned and on:
                self.folder_last[path] = vis
            elif scanned:
                self.note("folder scan completed while its node was not ON (memory of the leaf left unchanged)")
            if h["fs_scan"] and on and self.folder_last.get(path, 0) != vis:
                self.drift[DRIFT_FOLDER] = self.drift.get(DRIFT_FOLDER, 0) + 1
                if last != 0 and not scanned:
                    self.drift[DRIFT_FOLDER_OS] = self.drift.get(DRIFT_FOLDER_OS, 0) + 1
        o, z, ok = _scalar(space, obs, {"health_status": ("health_status",)})
        o["n_files"] = _nkeys(_sub(obs, "FILES"))
        z["n_files"] = _nkeys(_sub(space, "FILES")) + 1
        out.append((path, leaf_event("folder", cfg, truth, o, z, ok)))
        lo, med, hi = _thr(self.thresholds, "file_access")
        for k in range(h["num_files"]):
            fname = fd["files"][k] if fd is not None and k < len(fd["files"]) else None
            file = None
            if folder is not None and fname is not None:
                for x in folder.files.values():
                    if x.name == fname and not x.deleted:
                        file = x
            fcfg = cfg_rec(scan=h["fs_scan"], incAccess=h["include_num_access"], lo=lo, med=med, hi=hi)
            if file is None:
                ft = truth_rec(exists=False, nodeOn=on)
            else:
                ft = truth_rec(exists=True, nodeOn=on, actual=file.health_status.value,
                               visible=file.visible_health_status.value, count=_int(file.num_access))
            fo, fsp = _sub(obs, "FILES", k + 1), _sub(space, "FILES", k + 1)
            names = {"health_status": ("health_status",)}
            if h["include_num_access"] or "num_access" in fo or "num_access" in getattr(fsp, "spaces", {}):
                names["num_access"] = ("num_access",)
            o2, z2, ok2 = _scalar(fsp, fo, names)
            out.append((f"{path}/FILES/{k + 1}", leaf_event("file", fcfg, ft, o2, z2, ok2)))

    @staticmethod
    def nmne_totals(nic) -> Tuple[int, int]:
        d = (nic.nmne or {}).get("direction", {})
        return (_int(d.get("inbound", {}).get("keywords", {}).get("*", 0)),
                _int(d.get("outbound", {}).get("keywords", {}).get("*", 0)))

    def _nic(self, node, on, num, h, obs, space, path, out):
        nic = node.network_interface.get(num) if node is not None else None
        lo, med, hi = _thr(self.thresholds, "nmne")
        cfg = cfg_rec(incNmne=h["include_nmne"], capNmne=self.capture_nmne, lo=lo, med=med, hi=hi)
        key = (path,)
        pin, pout = self.prev_nmne.get(key, (0, 0))
        if nic is None:
            truth = truth_rec(exists=False, nodeOn=on)
            tin = tout = 0
        else:
            tin, tout = self.nmne_totals(nic)
            truth = truth_rec(exists=True, nodeOn=on, enabled=bool(nic.enabled), nmIn=tin, nmInPrev=pin, nmOut=tout,
                              nmOutPrev=pout)
        self.prev_nmne[key] = (tin, tout)
        names = {"nic_status": ("nic_status",)}
        if h["include_nmne"] or "NMNE" in obs or "NMNE" in getattr(space, "spaces", {}):
            names["nmne_inbound"] = ("NMNE", "inbound")
            names["nmne_outbound"] = ("NMNE", "outbound")
        o, z, ok = _scalar(space, obs, names)
        out.append((path, leaf_event("nic", cfg, truth, o, z, ok)))
        mt = h["monitored_traffic"] or {}
        for proto, ports in mt.items():
            proto = str(proto).lower()
            if proto == "icmp":
                groups = [((), None)]
            else:
                groups = [((p,), p) for p in ports]
            for sub, port in groups:
                tr = {"inbound": 0.0, "outbound": 0.0}
                if nic is not None:
                    src = nic.traffic.get(proto)
                    if src is None:
                        for k2, v2 in nic.traffic.items():
                            if str(getattr(k2, "value", k2)).lower() == proto:
                                src = v2
                    if src:
                        src = src if port is None else src.get(port)
                        if src:
                            tr = src
                i_n, i_d = _ratio(tr.get("inbound", 0.0), nic.speed) if nic is not None else (0, 1)
                o_n, o_d = _ratio(tr.get("outbound", 0.0), nic.speed) if nic is not None else (0, 1)
                t2 = truth_rec(exists=nic is not None, nodeOn=on, enabled=bool(nic.enabled) if nic is not None else False,
                               inN=i_n, inD=i_d, outN=o_n, outD=o_d)
                so = _sub(obs, "TRAFFIC", proto, *sub)
                ss = _sub(space, "TRAFFIC", proto, *sub)
                o2, z2, ok2 = _scalar(ss, so, {"inbound": ("inbound",), "outbound": ("outbound",)})
                tail = "" if port is None else f"/{port}"
                out.append((f"{path}/TRAFFIC/{proto}{tail}", leaf_event("traffic", cfg_rec(), t2, o2, z2, ok2)))

    # -- routers / firewalls / links
    @staticmethod
    def _index(value, lst, conv=str) -> int:
        if not value:  # None / unspecified (a falsy port or protocol is the simulator's "unspecified")
            return 0
        v = conv(value)
        for i, x in enumerate(lst):
            if conv(x) == v:
                return i + 1
        return OUT

    def _acl(self, acl, node, on, d, obs, space, path, out):
        for i in range(d["num_rules"]):
            cfg = cfg_rec(nRules=d["num_rules"], slot=i, nIp=len(d["ip_list"]), nWc=len(d["wildcard_list"]),
                          nPort=len(d["port_list"]), nProto=len(d["protocol_list"]))
            rule = None
            if acl is not None and i < len(acl._acl):
                rule = acl._acl[i]
            if rule is None:
                truth = truth_rec(exists=acl is not None, nodeOn=on, rule=False)
            else:
                truth = truth_rec(
                    exists=True, nodeOn=on, rule=True, action=rule.action.value,
                    sIp=self._index(rule.src_ip_address, d["ip_list"]), dIp=self._index(rule.dst_ip_address, d["ip_list"]),
                    sWc=self._index(rule.src_wildcard_mask, d["wildcard_list"]),
                    dWc=self._index(rule.dst_wildcard_mask, d["wildcard_list"]),
                    sPort=self._index(rule.src_port, d["port_list"], int), dPort=self._index(rule.dst_port, d["port_list"], int),
                    proto=self._index(rule.protocol, d["protocol_list"], lambda x: str(x).lower()))
            names = {f: (f,) for f in ("position", "permission", "source_ip_id", "source_wildcard_id", "source_port_id",
                                       "dest_ip_id", "dest_wildcard_id", "dest_port_id", "protocol_id")}
            o, z, ok = _scalar(_sub(space, i), _sub(obs, i), names)
            out.append((f"{path}/{i}", leaf_event("acl", cfg, truth, o, z, ok)))

    def _port(self, node, on, num, obs, space, path, out):
        nic = node.network_interface.get(num) if node is not None else None
        truth = truth_rec(exists=nic is not None, nodeOn=on, enabled=bool(nic.enabled) if nic is not None else False)
        o, z, ok = _scalar(space, obs, {"operating_status": ("operating_status",)})
        out.append((path, leaf_event("port", cfg_rec(), truth, o, z, ok)))

    def _router(self, r, obs, space, path, out):
        node = self.node(r["hostname"])
        on = self.node_on(node)
        cfg = cfg_rec(nRules=r["num_rules"], nPorts=r["num_ports"], incUsers=r["include_users"], nIp=len(r["ip_list"]),
                      nWc=len(r["wildcard_list"]), nPort=len(r["port_list"]), nProto=len(r["protocol_list"]))
        o = {"n_rules": _nkeys(_sub(obs, "ACL")), "n_ports": _nkeys(_sub(obs, "PORTS")), "has_users": 1 if "users" in obs else 0}
        z = {"n_rules": _nkeys(_sub(space, "ACL")) + 1, "n_ports": _nkeys(_sub(space, "PORTS")) + 1, "has_users": 2}
        out.append((path, leaf_event("router", cfg, truth_rec(exists=node is not None, nodeOn=on), o, z, True)))
        self._acl(getattr(node, "acl", None) if node is not None else None, node, on, r, _sub(obs, "ACL"), _sub(space, "ACL"),
                  f"{path}/ACL", out)
        for k in range(r["num_ports"]):
            pid = r["ports"][k] if k < len(r["ports"]) else None
            if pid is None:
                self._port(None, on, 0, _sub(obs, "PORTS", k + 1), _sub(space, "PORTS", k + 1), f"{path}/PORTS/{k + 1}", out)
            else:
                self._port(node, on, pid, _sub(obs, "PORTS", k + 1), _sub(space, "PORTS", k + 1), f"{path}/PORTS/{k + 1}", out)
        if r["include_users"] or "users" in obs:
            self._users(node, on, _sub(obs, "users"), _sub(space, "users"), f"{path}/users", out)

    def _firewall(self, f, obs, space, path, out):
        node = self.node(f["hostname"])
        on = self.node_on(node)
        cfg = cfg_rec(nRules=f["num_rules"], incUsers=f["include_users"], nIp=len(f["ip_list"]), nWc=len(f["wildcard_list"]),
                      nPort=len(f["port_list"]), nProto=len(f["protocol_list"]))
        zones = [("INTERNAL", "internal"), ("DMZ", "dmz"), ("EXTERNAL", "external")]
        counts, n_acls = [], 0
        for Z, _z in zones:
            for D in ("INBOUND", "OUTBOUND"):
                sub = _sub(obs, "ACL", Z, D)
                if isinstance(sub, dict) and (Z in _sub(obs, "ACL")) and (D in _sub(obs, "ACL", Z)):
                    n_acls += 1
                    counts.append(len(sub))
        o = {"n_acls": n_acls, "n_rules_min": min(counts) if counts else 0, "n_rules_max": max(counts) if counts else 0,
             "n_ports": _nkeys(_sub(obs, "PORTS")), "has_users": 1 if "users" in obs else 0}
        z = {"n_acls": 7, "n_rules_min": f["num_rules"] + 1, "n_rules_max": f["num_rules"] + 1, "n_ports": 65, "has_users": 2}
        out.append((path, leaf_event("firewall", cfg, truth_rec(exists=node is not None, nodeOn=on), o, z, True)))
        for Z, z_ in zones:
            for D in ("INBOUND", "OUTBOUND"):
                acl = getattr(node, f"{z_}_{D.lower()}_acl", None) if node is not None else None
                self._acl(acl, node, on, f, _sub(obs, "ACL", Z, D), _sub(space, "ACL", Z, D), f"{path}/ACL/{Z}/{D}", out)
        for k in range(_nkeys(_sub(space, "PORTS"))):
            self._port(node, on, k + 1, _sub(obs, "PORTS", k + 1), _sub(space, "PORTS", k + 1), f"{path}/PORTS/{k + 1}", out)
        if f["include_users"] or "users" in obs:
            self._users(node, on, _sub(obs, "users"), _sub(space, "users"), f"{path}/users", out)

    def _link(self, ref, obs, space, path, out):
        link = None
        m = re.match(r"^(.*):eth-(\d+)<->(.*):eth-(\d+)$", str(ref))
        if m:
            want = {(m.group(1), int(m.group(2))), (m.group(3), int(m.group(4)))}
            for l in self.game.simulation.network.links.values():
                ends = set()
                for ep in (l.endpoint_a, l.endpoint_b):
                    n = getattr(ep, "_connected_node", None)
                    ends.add((n.config.hostname if n is not None else None, ep.port_num))
                if ends == want:
                    link = l
        if link is None:
            truth = truth_rec(exists=False, nodeOn=True)
        else:
            ln, ld = _ratio(link.current_load, link.bandwidth)
            truth = truth_rec(exists=True, nodeOn=True, inN=ln, inD=ld)
        o, z, ok = _scalar(space, obs, {"load": ("PROTOCOLS", "ALL")})
        out.append((path, leaf_event("link", cfg_rec(), truth, o, z, ok)))


# ---------------------------------------------------------------------------------------
# component level: real observation classes on synthetic describe_state() dictionaries
# ---------------------------------------------------------------------------------------


class ComponentBench:
    """Feeds generator states of MC_ObsEncoding to the real observation classes.

    The synthetic state dictionaries are shallow patched copies of REAL ``describe_state()`` output taken once
    from three tiny simulations (two hosts on a wire with a folder and a file; a routed network; a firewalled
    network), so every key the observation code reads is spelt as the simulator spells it; the patched keys are
    asserted to exist in the templates (a rename is a machinery failure, not a verdict)."""

    IPS, IP_OUT = ["10.0.0.1", "10.0.0.2"], "10.9.9.9"
    WCS, WC_OUT = ["0.0.0.1", "0.0.0.3", "0.0.255.255"], "0.0.0.255"
    PORTS, PORT_NAMES, PORT_OUT = [80, 21, 22], ["HTTP", "FTP", "SSH"], 53
    PROTOS, PROTO_OUT = ["tcp", "udp"], "icmp"
    NODES = ["network", "nodes"]

    def __init__(self, thorough: bool = False):
        from . import scenarios

        self.thorough = thorough
        self.n = 0
        self.cache: Dict[Any, Any] = {}
        g = scenarios.build(scenarios.p2p())
        a = g.simulation.network.get_node_by_hostname("a")
        a.file_system.create_folder("fold")
        a.file_system.create_file("f.txt", folder_name="fold")
        st = g.get_sim_state()
        self.node_t = st["network"]["nodes"]["a"]
        self.svc_t = self.node_t["services"]["dns-client"]
        self.app_t = self.node_t["applications"]["web-browser"]
        self.usm_t = self.node_t["services"]["user-session-manager"]
        self.nic_t = self.node_t["NICs"][1]
        self.fs_t = self.node_t["file_system"]
        self.folder_t = self.fs_t["folders"]["fold"]
        self.file_t = self.folder_t["files"]["f.txt"]
        self.link_ref, self.link_t = next(iter(st["network"]["links"].items()))
        g2 = scenarios.build(scenarios.routed())
        self.router_t = g2.get_sim_state()["network"]["nodes"]["r"]
        self.acl_t = self.router_t["acl"]
        self.rule_t = next(r for r in self.acl_t["acl"].values() if r is not None)
        g3 = scenarios.build(scenarios.firewalled(dmz=True))
        self.fw_t = g3.get_sim_state()["network"]["nodes"]["fw"]
        need = [(self.node_t, ["operating_state", "NICs", "file_system", "applications", "services"]),
                (self.svc_t, ["operating_state", "health_state_actual", "health_state_visible"]),
                (self.app_t, ["operating_state", "health_state_actual", "health_state_visible", "num_executions"]),
                (self.usm_t, ["current_local_user", "active_remote_sessions"]),
                (self.nic_t, ["enabled", "speed", "traffic"]),
                (self.fs_t, ["folders", "deleted_folders", "num_file_creations", "num_file_deletions"]),
                (self.folder_t, ["health_status", "visible_status", "files", "deleted_files", "scanned_this_step"]),
                (self.file_t, ["health_status", "visible_status", "num_access"]),
                (self.link_t, ["bandwidth", "current_load"]),
                (self.router_t, ["operating_state", "acl", "NICs", "services"]),
                (self.acl_t, ["acl"]),
                (self.rule_t, ["action", "protocol", "src_ip_address", "src_wildcard_mask", "src_port", "dst_ip_address",
                               "dst_wildcard_mask", "dst_port"]),
                (self.fw_t, ["operating_state", "NICs", "services", "internal_inbound_acl", "internal_outbound_acl",
                             "dmz_inbound_acl", "dmz_outbound_acl", "external_inbound_acl", "external_outbound_acl"])]
        for tmpl, keys in need:
            for k in keys:
                if k not in tmpl:
                    raise RuntimeError(f"describe_state() template lacks key {k!r}: the component bench is out of date")

    # -- state builders
    def _off(self) -> int:
        return 2 + self.n % 3

    def host_state(self, on=True, exists=True, op=None, services=None, applications=None, folders=None,
                   deleted_folders=None, nics=None, creations=0, deletions=0, local=None, remote=0) -> Dict:
        usm = {**self.usm_t, "current_local_user": local, "active_remote_sessions": [f"s{i}" for i in range(remote)]}
        node = {**self.node_t, "hostname": "n", "operating_state": op if op is not None else (1 if on else self._off()),
                "NICs": nics or {},
                "file_system": {**self.fs_t, "folders": folders or {}, "deleted_folders": deleted_folders or {},
                                "num_file_creations": creations, "num_file_deletions": deletions},
                "applications": applications or {},
                "services": {**(services or {}), "user-session-manager": usm}}
        return {"network": {"nodes": ({"n": node} if exists else {}), "links": {}}}

    def router_state(self, on=True, exists=True, rules=None, nics=None, local=None, remote=0, fw=False) -> Dict:
        usm = {**self.usm_t, "current_local_user": local, "active_remote_sessions": [f"s{i}" for i in range(remote)]}
        acl = {**self.acl_t, "acl": {i: (rules or {}).get(i) for i in range(len(self.acl_t["acl"]))}}
        base = self.fw_t if fw else self.router_t
        node = {**base, "hostname": "n", "operating_state": 1 if on else self._off(),
                "services": {**base["services"], "user-session-manager": usm}}
        if nics is not None:
            node["NICs"] = nics
        if fw:
            for k in ("internal_inbound_acl", "internal_outbound_acl", "dmz_inbound_acl", "dmz_outbound_acl",
                      "external_inbound_acl", "external_outbound_acl"):
                node[k] = acl
        else:
            node["acl"] = acl
        return {"network": {"nodes": ({"n": node} if exists else {}), "links": {}}}

    # -- observation objects (cached unless they have memory)
    def _host_obs(self, fresh=False, **opts):
        from primaite.game.agent.observations.host_observations import HostObservation

        key = ("host", json.dumps(opts, sort_keys=True, default=str))
        if not fresh and key in self.cache:
            return self.cache[key]
        base = dict(hostname="n", num_services=0, num_applications=0, num_folders=0, num_files=0, num_nics=0,
                    include_nmne=False, include_num_access=False, file_system_requires_scan=False,
                    services_requires_scan=False, applications_requires_scan=False, include_users=False)
        base.update(opts)
        o = HostObservation.from_config(HostObservation.ConfigSchema(**base), parent_where=list(self.NODES))
        if not fresh:
            self.cache[key] = o
        return o

    def _lists(self, c) -> Dict[str, Any]:
        return dict(ip_list=self.IPS[: c["nIp"]], wildcard_list=self.WCS[: c["nWc"]], port_list=self.PORT_NAMES[: c["nPort"]],
                    protocol_list=self.PROTOS[: c["nProto"]])

    def _router_obs(self, c, num_rules, num_ports, users):
        from primaite.game.agent.observations.router_observation import RouterObservation

        key = ("router", c["nIp"], c["nWc"], c["nPort"], c["nProto"], num_rules, num_ports, users)
        if key not in self.cache:
            self.cache[key] = RouterObservation.from_config(
                RouterObservation.ConfigSchema(hostname="n", num_ports=num_ports, num_rules=num_rules, include_users=users,
                                               **self._lists(c)), parent_where=list(self.NODES))
        return self.cache[key]

    def _fw_obs(self, c, num_rules, users):
        from primaite.game.agent.observations.firewall_observation import FirewallObservation

        key = ("fw", c["nIp"], c["nWc"], c["nPort"], c["nProto"], num_rules, users)
        if key not in self.cache:
            self.cache[key] = FirewallObservation.from_config(
                FirewallObservation.ConfigSchema(hostname="n", num_rules=num_rules, include_users=users, **self._lists(c)),
                parent_where=list(self.NODES))
        return self.cache[key]

    # -- running one generator state
    def run(self, kind: str, c: Dict, t: Dict) -> List[Tuple[str, Dict]]:
        """[(variant label, event)] - Leaf events, or a Raised event when the repository code raised."""
        self.n += 1
        out: List[Tuple[str, Dict]] = []
        fn = getattr(self, "_k_" + kind)
        for label, thunk in fn(c, t):
            if self.skip(label, t):
                continue
            truth = t
            if isinstance(thunk, tuple):  # a later step of a sequence: (thunk, the truth of that step)
                thunk, truth = thunk
            try:
                obs, space, names, extra_o, extra_z = thunk()
            except Exception as exc:  # noqa - repository code raised: an event, not a crash
                out.append((label, raised_event("observe_" + kind, exc)))
                continue
            o, z, ok = _scalar(space, obs, names)
            o.update(extra_o)
            z.update(extra_z)
            out.append((label, leaf_event(kind, c, truth, o, z, ok)))
        return out

    def skip(self, label: str, t: Dict) -> bool:
        """quick tier: a component that is present on a node that is ON goes through its own class every time and
        through the parent observation every fourth time (thorough: both, always)."""
        if self.thorough or not label.startswith("via-") or "-seq-" in label:  # sequences are never thinned
            return False
        return bool(t["exists"] and t["nodeOn"]) and self.n % 4 != 0

    @staticmethod
    def _thr(key, c):
        return {key: {"low": c["lo"], "medium": c["med"], "high": c["hi"]}}

    def _k_service(self, c, t):
        from primaite.game.agent.observations.software_observation import ServiceObservation

        svc = {**self.svc_t, "operating_state": t["op"], "health_state_actual": t["actual"], "health_state_visible": t["visible"]}
        st = self.host_state(on=t["nodeOn"], services={"svc": svc} if t["exists"] else {})
        names = {"operating_status": ("operating_status",), "health_status": ("health_status",)}
        where = self.NODES + ["n", "services", "svc"]
        if t["nodeOn"]:
            ob = self.cache.setdefault(("svc", c["scan"]), ServiceObservation(where=where, services_requires_scan=c["scan"]))
            yield "direct", lambda: (ob.observe(st), ob.space, names, {}, {})
        padded = (not t["exists"]) and self.n % 2 == 0
        ho = self._host_obs(services=[] if padded else [{"service_name": "svc"}], num_services=1, services_requires_scan=c["scan"])
        yield "via-host" + ("-padding-slot" if padded else ""), lambda: (_sub(ho.observe(st), "SERVICES", 1), _sub(ho.space, "SERVICES", 1), names, {}, {})

    def _k_application(self, c, t):
        from primaite.game.agent.observations.software_observation import ApplicationObservation

        app = {**self.app_t, "operating_state": t["op"], "health_state_actual": t["actual"], "health_state_visible": t["visible"],
               "num_executions": t["count"]}
        st = self.host_state(on=t["nodeOn"], applications={"app": app} if t["exists"] else {})
        names = {"operating_status": ("operating_status",), "health_status": ("health_status",), "num_executions": ("num_executions",)}
        thr = self._thr("app_executions", c)
        if t["nodeOn"]:
            ob = self.cache.setdefault(("app", c["scan"], c["hi"]), ApplicationObservation(
                where=self.NODES + ["n", "applications", "app"], applications_requires_scan=c["scan"], thresholds=thr))
            yield "direct", lambda: (ob.observe(st), ob.space, names, {}, {})
        padded = (not t["exists"]) and self.n % 2 == 0
        ho = self._host_obs(applications=[] if padded else [{"application_name": "app"}], num_applications=1,
                            applications_requires_scan=c["scan"], thresholds=thr)
        yield "via-host" + ("-padding-slot" if padded else ""), lambda: (_sub(ho.observe(st), "APPLICATIONS", 1), _sub(ho.space, "APPLICATIONS", 1), names, {}, {})

    def _fs(self, folder_exists=True, folder=None, file=None, file_state="present"):
        fo = {**self.folder_t, **(folder or {})}
        f = {**self.file_t, **(file or {})}
        fo["files"] = {"f.txt": f} if file_state == "present" else {}
        fo["deleted_files"] = {"f.txt": f} if file_state == "deleted" else {}
        return ({"fold": fo}, {}) if folder_exists else ({}, {"fold": fo})

    def _k_file(self, c, t):
        from primaite.game.agent.observations.file_system_observations import FileObservation

        how = "present" if t["exists"] else ("deleted", "missing", "folder-deleted")[self.n % 3]
        folders, deleted = self._fs(folder_exists=how != "folder-deleted", folder={"health_status": 1, "visible_status": 1},
                                    file={"health_status": t["actual"], "visible_status": t["visible"], "num_access": t["count"]},
                                    file_state="present" if how in ("present", "folder-deleted") else how)
        st = self.host_state(on=t["nodeOn"], folders=folders, deleted_folders=deleted)
        names = {"health_status": ("health_status",), "num_access": ("num_access",)}
        thr = self._thr("file_access", c)
        if t["nodeOn"]:
            ob = self.cache.setdefault(("file", c["scan"], c["incAccess"], c["hi"]), FileObservation(
                where=self.NODES + ["n", "file_system", "folders", "fold", "files", "f.txt"], include_num_access=c["incAccess"],
                file_system_requires_scan=c["scan"], thresholds=thr))
            yield f"direct-{how}", lambda: (ob.observe(st), ob.space, names, {}, {})
        ho = self._host_obs(folders=[{"folder_name": "fold", "files": [{"file_name": "f.txt"}]}], num_folders=1, num_files=1,
                            include_num_access=c["incAccess"], file_system_requires_scan=c["scan"], thresholds=thr)
        yield f"via-host-{how}", lambda: (_sub(ho.observe(st), "FOLDERS", 1, "FILES", 1), _sub(ho.space, "FOLDERS", 1, "FILES", 1), names, {}, {})

    def _k_folder(self, c, t):
        """The folder leaf has memory under file_system_requires_scan (ObsEncoding!FolderEnc): a FRESH observation
        object is first driven into the memory state `t.last` through real observe() calls - a scan-completing state
        whose visible status is `last` (or nothing at all: the one-shot case, memory 0) and, every third time, a
        non-scanning state in which the visible status has changed without a folder scan - then it is given the
        generator state (event 1) and finally a non-scanning state with yet another visible status (event 2: shows
        the memory left by event 1)."""
        from primaite.game.agent.observations.file_system_observations import FolderObservation

        names = {"health_status": ("health_status",)}
        how = "present" if t["exists"] else ("deleted", "missing")[self.n % 2]

        def fstate(exists_how, on, actual, visible, scanned):
            folders, deleted = self._fs(folder_exists=exists_how == "present",
                                        folder={"health_status": actual, "visible_status": visible, "scanned_this_step": scanned})
            if exists_how == "missing":
                deleted = {}
            return self.host_state(on=on, folders=folders, deleted_folders=deleted)

        seq, plan = [], "one-shot"
        if c["scan"]:
            if t["last"] != 0 or self.n % 2 == 0:
                seq.append(fstate("present", True, 1, t["last"], True))
                plan = "after-scan"
            if self.n % 3 == 0:
                seq.append(fstate("present", True, 1, (t["last"] + 1) % 6, False))
                plan += "+visible-changed-without-scan"
        cur = fstate(how, t["nodeOn"], t["actual"], t["visible"], t["scanned"])
        v2, a2 = (t["visible"] + 2) % 6, (t["actual"] + 1) % 6
        after = fstate("present", True, a2, v2, False)
        nxt = t["visible"] if (t["exists"] and t["nodeOn"] and t["scanned"]) else t["last"]  # ObsEncoding!FolderNext
        t2 = truth_rec(exists=True, nodeOn=True, actual=a2, visible=v2, scanned=False, last=nxt if c["scan"] else 0)

        def cnt(o, s):
            return {"n_files": _nkeys(_sub(o, "FILES"))}, {"n_files": _nkeys(_sub(s, "FILES")) + 1}

        def make(direct):
            if direct:
                ob = FolderObservation(where=self.NODES + ["n", "file_system", "folders", "fold"], files=[], num_files=c["nFiles"],
                                       include_num_access=False, file_system_requires_scan=c["scan"])
                return ob, (lambda o: o), (lambda: ob.space)
            ho = self._host_obs(fresh=True, folders=[{"folder_name": "fold"}], num_folders=1, num_files=c["nFiles"],
                                file_system_requires_scan=c["scan"])
            return ho, (lambda o: _sub(o, "FOLDERS", 1)), (lambda: _sub(ho.space, "FOLDERS", 1))

        for direct in ((True, False) if t["nodeOn"] else (False,)):
            tag = ("direct" if direct else "via-host") + f"-seq-{how}-{plan}"
            box = {}

            def first(direct=direct, box=box):
                ob, pick, space = make(direct)
                box["ob"], box["pick"], box["space"] = ob, pick, space
                for st in seq:
                    ob.observe(st)
                o, sp = pick(ob.observe(cur)), space()
                return (o, sp, names) + cnt(o, sp)
            yield tag, first

            def second(box=box):
                if "ob" not in box:
                    raise RuntimeError("previous observe() of this sequence raised")
                o, sp = box["pick"](box["ob"].observe(after)), box["space"]()
                return (o, sp, names) + cnt(o, sp)
            yield tag + "-then-no-scan", (second, t2)

    @staticmethod
    def _nmne(tin, tout):
        if tin == 0 and tout == 0:
            return {}
        return {"direction": {"inbound": {"keywords": {"*": tin}}, "outbound": {"keywords": {"*": tout}}}}

    def _nic_state(self, t, tin, tout, cap, traffic=None, speed=None):
        nic = {**self.nic_t, "enabled": t["enabled"], "traffic": traffic or {}}
        nic.pop("nmne", None)
        if cap:
            nic["nmne"] = self._nmne(tin, tout)
        if speed is not None:
            nic["speed"] = speed
        return nic

    def _k_nic(self, c, t):
        from primaite.game.agent.observations.nic_observations import NICObservation

        names = {"nic_status": ("nic_status",), "nmne_inbound": ("NMNE", "inbound"), "nmne_outbound": ("NMNE", "outbound")}
        thr = self._thr("nmne", c)
        prev_on = self.host_state(on=True, nics={1: self._nic_state({**t, "enabled": True}, t["nmInPrev"], t["nmOutPrev"], c["capNmne"])})
        cur = self.host_state(on=t["nodeOn"], nics={1: self._nic_state(t, t["nmIn"], t["nmOut"], c["capNmne"])} if t["exists"] else {})

        def with_capture(fn):
            def run():
                old = NICObservation.capture_nmne
                NICObservation.capture_nmne = c["capNmne"]
                try:
                    return fn()
                finally:
                    NICObservation.capture_nmne = old
            return run

        if t["nodeOn"]:
            def direct():
                ob = NICObservation(where=self.NODES + ["n", "NICs", 1], include_nmne=c["incNmne"], monitored_traffic=None, thresholds=thr)
                if t["exists"]:
                    ob.observe(prev_on)  # the previous step's observation (memory of the NMNE totals)
                return ob.observe(cur), ob.space, names, {}, {}
            yield "direct", with_capture(direct)

        def via():
            ho = self._host_obs(fresh=True, num_nics=1, include_nmne=c["incNmne"], thresholds=thr)
            if t["exists"]:
                ho.observe(prev_on)
            return _sub(ho.observe(cur), "NICS", 1), _sub(ho.space, "NICS", 1), names, {}, {}
        yield "via-host", with_capture(via)

    def _k_traffic(self, c, t):
        from primaite.game.agent.observations.nic_observations import NICObservation

        names = {"inbound": ("inbound",), "outbound": ("outbound",)}
        speed = t["inD"] / UNIT
        val = {"inbound": t["inN"] / UNIT, "outbound": t["outN"] / UNIT}
        for proto in ("tcp", "icmp"):
            traffic = {"tcp": {80: val}} if proto == "tcp" else {"icmp": val}
            if t["inN"] == 0 and t["outN"] == 0 and self.n % 2 == 0:
                traffic = {}
            nic = self._nic_state(t, 0, 0, False, traffic=traffic, speed=speed)
            st = self.host_state(on=t["nodeOn"], nics={1: nic} if t["exists"] else {})
            sub = ("TRAFFIC", "tcp", 80) if proto == "tcp" else ("TRAFFIC", "icmp")
            if t["nodeOn"]:
                mt = {"tcp": [80]} if proto == "tcp" else {"icmp": [0]}
                ob = self.cache.setdefault(("traffic", proto), NICObservation(where=self.NODES + ["n", "NICs", 1], include_nmne=False, monitored_traffic=mt))
                yield f"direct-{proto}", lambda ob=ob, st=st, sub=sub: (_sub(ob.observe(st), *sub), _sub(ob.space, *sub), names, {}, {})
            mtc = {"tcp": ["HTTP"]} if proto == "tcp" else {"icmp": ["NONE"]}
            ho = self._host_obs(num_nics=1, monitored_traffic=mtc)
            yield f"via-host-{proto}", lambda ho=ho, st=st, sub=sub: (_sub(ho.observe(st), "NICS", 1, *sub), _sub(ho.space, "NICS", 1, *sub), names, {}, {})

    def _k_port(self, c, t):
        from primaite.game.agent.observations.nic_observations import PortObservation

        names = {"operating_status": ("operating_status",)}
        nic = self._nic_state(t, 0, 0, False)
        st = self.router_state(on=t["nodeOn"], nics={1: nic} if t["exists"] else {})
        if t["nodeOn"]:
            ob = self.cache.setdefault(("port",), PortObservation(where=self.NODES + ["n", "NICs", 1]))
            yield "direct", lambda: (ob.observe(st), ob.space, names, {}, {})
        ro = self._router_obs(cfg_rec(), 1, 1, False)
        yield "via-router", lambda: (_sub(ro.observe(st), "PORTS", 1), _sub(ro.space, "PORTS", 1), names, {}, {})
        stf = self.router_state(on=t["nodeOn"], nics={1: nic, 2: nic, 3: nic} if t["exists"] else {}, fw=True)
        fo = self._fw_obs(cfg_rec(), 1, False)
        yield "via-firewall", lambda: (_sub(fo.observe(stf), "PORTS", 2), _sub(fo.space, "PORTS", 2), names, {}, {})

    def _k_host(self, c, t):
        names = {"operating_status": ("operating_status",), "num_file_creations": ("num_file_creations",),
                 "num_file_deletions": ("num_file_deletions",)}
        svc = {**self.svc_t}
        app = {**self.app_t}
        folders, _ = self._fs()
        st = self.host_state(exists=t["exists"], op=t["op"], services={"svc": svc}, applications={"app": app}, folders=folders,
                             nics={1: self._nic_state({"enabled": True}, 0, 0, False)}, creations=t["count"], deletions=t["count2"])
        ho = self._host_obs(services=[{"service_name": "svc"}] if c["nSvc"] else [], num_services=c["nSvc"],
                            applications=[{"application_name": "app"}] if c["nApp"] else [], num_applications=c["nApp"],
                            folders=[{"folder_name": "fold"}] if c["nFold"] else [], num_folders=c["nFold"], num_files=1,
                            num_nics=c["nNic"], include_num_access=c["incAccess"], include_users=c["incUsers"])

        def run():
            o, s = ho.observe(st), ho.space
            eo, ez = {}, {}
            for f, key in (("n_services", "SERVICES"), ("n_applications", "APPLICATIONS"), ("n_folders", "FOLDERS"), ("n_nics", "NICS")):
                eo[f] = _nkeys(_sub(o, key))
                ez[f] = _nkeys(_sub(s, key)) + 1
            eo["has_users"] = 1 if "users" in o else 0
            ez["has_users"] = 2
            return o, s, names, eo, ez
        yield "host", run

    def _k_users(self, c, t):
        names = {"local_login": ("local_login",), "remote_sessions": ("remote_sessions",)}
        loc = "admin" if t["local"] else None
        st = self.host_state(on=t["nodeOn"], exists=t["exists"], local=loc, remote=t["remote"])
        ho = self._host_obs(include_users=True)
        yield "via-host", lambda: (_sub(ho.observe(st), "users"), _sub(ho.space, "users"), names, {}, {})
        sr = self.router_state(on=t["nodeOn"], exists=t["exists"], local=loc, remote=t["remote"])
        ro = self._router_obs(cfg_rec(), 1, 0, True)
        yield "via-router", lambda: (_sub(ro.observe(sr), "users"), _sub(ro.space, "users"), names, {}, {})
        sf = self.router_state(on=t["nodeOn"], exists=t["exists"], local=loc, remote=t["remote"], fw=True)
        fo = self._fw_obs(cfg_rec(), 1, True)
        yield "via-firewall", lambda: (_sub(fo.observe(sf), "users"), _sub(fo.space, "users"), names, {}, {})

    def _k_link(self, c, t):
        from primaite.game.agent.observations.link_observation import LinkObservation, LinksObservation

        names = {"load": ("PROTOCOLS", "ALL")}
        ref = "x:eth-1<->y:eth-2"
        link = {**self.link_t, "bandwidth": t["inD"] / UNIT, "current_load": t["inN"] / UNIT}
        st = {"network": {"nodes": {}, "links": {ref: link} if t["exists"] else {}}}

        def direct(r):
            def run():
                ob = LinkObservation(where=["network", "links", r])
                return ob.observe(st), ob.space, names, {}, {}
            return run
        yield "direct", direct(ref)
        yield "direct-endpoints-swapped", direct("y:eth-2<->x:eth-1")

        def via():
            lo = LinksObservation.from_config(LinksObservation.ConfigSchema(link_references=[ref]))
            return _sub(lo.observe(st), 1), _sub(lo.space, 1), names, {}, {}
        yield "via-links", via

    def _rule(self, c, t):
        def pick(i, lst, out):
            return None if i == 0 else (lst[i - 1] if i <= len(lst) else out)
        return {**self.rule_t, "action": t["action"], "protocol": pick(t["proto"], self.PROTOS[: c["nProto"]], self.PROTO_OUT),
                "src_ip_address": pick(t["sIp"], self.IPS[: c["nIp"]], self.IP_OUT),
                "dst_ip_address": pick(t["dIp"], self.IPS[: c["nIp"]], self.IP_OUT),
                "src_wildcard_mask": pick(t["sWc"], self.WCS[: c["nWc"]], self.WC_OUT),
                "dst_wildcard_mask": pick(t["dWc"], self.WCS[: c["nWc"]], self.WC_OUT),
                "src_port": pick(t["sPort"], self.PORTS[: c["nPort"]], self.PORT_OUT),
                "dst_port": pick(t["dPort"], self.PORTS[: c["nPort"]], self.PORT_OUT)}

    def _k_acl(self, c, t):
        from primaite.game.agent.observations.acl_observation import ACLObservation

        names = {f: (f,) for f in ("position", "permission", "source_ip_id", "source_wildcard_id", "source_port_id", "dest_ip_id",
                                   "dest_wildcard_id", "dest_port_id", "protocol_id")}
        rules = {}
        if t["rule"]:
            rules[c["slot"]] = self._rule(c, t)
        if c["nRules"] > 1:  # a decoy in another slot: a slot mix-up shows
            rules[(c["slot"] + 1) % c["nRules"]] = {**self.rule_t, "action": 3 - max(1, t["action"]), "protocol": None,
                                                    "src_ip_address": None, "dst_ip_address": None, "src_wildcard_mask": None,
                                                    "dst_wildcard_mask": None, "src_port": None, "dst_port": None}
        st = self.router_state(on=t["nodeOn"], exists=t["exists"], rules=rules)
        sl = c["slot"]
        if t["nodeOn"]:
            key = ("acl", c["nRules"], c["nIp"], c["nWc"], c["nPort"], c["nProto"])
            ob = self.cache.setdefault(key, ACLObservation(where=self.NODES + ["n", "acl", "acl"], num_rules=c["nRules"],
                                                           ip_list=self.IPS[: c["nIp"]], wildcard_list=self.WCS[: c["nWc"]],
                                                           port_list=self.PORTS[: c["nPort"]], protocol_list=self.PROTOS[: c["nProto"]]))
            yield "direct", lambda: (_sub(ob.observe(st), sl), _sub(ob.space, sl), names, {}, {})
        ro = self._router_obs(c, c["nRules"], 0, False)
        yield "via-router", lambda: (_sub(ro.observe(st), "ACL", sl), _sub(ro.space, "ACL", sl), names, {}, {})
        if self.thorough or self.n % 8 == 0 or not (t["nodeOn"] and t["exists"] and t["rule"]):
            zone = (("INTERNAL", "INBOUND"), ("INTERNAL", "OUTBOUND"), ("DMZ", "INBOUND"), ("DMZ", "OUTBOUND"),
                    ("EXTERNAL", "INBOUND"), ("EXTERNAL", "OUTBOUND"))[self.n % 6]
            sf = self.router_state(on=t["nodeOn"], exists=t["exists"], rules=rules, fw=True)
            fo = self._fw_obs(c, c["nRules"], False)
            yield f"via-firewall-{zone[0]}-{zone[1]}", lambda: (_sub(fo.observe(sf), "ACL", zone[0], zone[1], sl),
                                                               _sub(fo.space, "ACL", zone[0], zone[1], sl), names, {}, {})

    def _k_router(self, c, t):
        st = self.router_state(on=t["nodeOn"], exists=t["exists"], nics={i: self._nic_state({"enabled": True}, 0, 0, False) for i in (1, 2, 3)})
        ro = self._router_obs(c, c["nRules"], c["nPorts"], c["incUsers"])

        def run():
            o, s = ro.observe(st), ro.space
            eo = {"n_rules": _nkeys(_sub(o, "ACL")), "n_ports": _nkeys(_sub(o, "PORTS")), "has_users": 1 if "users" in o else 0}
            ez = {"n_rules": _nkeys(_sub(s, "ACL")) + 1, "n_ports": _nkeys(_sub(s, "PORTS")) + 1, "has_users": 2}
            return o, s, {}, eo, ez
        yield "router", run

    def _k_firewall(self, c, t):
        st = self.router_state(on=t["nodeOn"], exists=t["exists"], fw=True)
        fo = self._fw_obs(c, c["nRules"], c["incUsers"])

        def run():
            o, s = fo.observe(st), fo.space
            counts = [len(_sub(o, "ACL", Z, D)) for Z in ("INTERNAL", "DMZ", "EXTERNAL") for D in ("INBOUND", "OUTBOUND")
                      if Z in _sub(o, "ACL") and D in _sub(o, "ACL", Z)]
            eo = {"n_acls": len(counts), "n_rules_min": min(counts) if counts else 0, "n_rules_max": max(counts) if counts else 0,
                  "n_ports": _nkeys(_sub(o, "PORTS")), "has_users": 1 if "users" in o else 0}
            ez = {"n_acls": 7, "n_rules_min": c["nRules"] + 1, "n_rules_max": c["nRules"] + 1, "n_ports": 65, "has_users": 2}
            return o, s, {}, eo, ez
        yield "firewall", run


# ---------------------------------------------------------------------------------------
# environment level: scenario variants, drivers, recording
# ---------------------------------------------------------------------------------------

DB_IP, C1_IP, C2_IP = "192.168.1.14", "192.168.10.21", "192.168.10.22"


def _proxy(cfg: Dict) -> Dict:
    return next(a for a in cfg["agents"] if a["type"] == "proxy-agent")


def _nodes_opts(cfg: Dict) -> Dict:
    return next(c for c in _proxy(cfg)["observation_space"]["options"]["components"] if c["type"] == "nodes")["options"]


def _add_actions(cfg: Dict, acts: List[Tuple[str, Dict]]) -> List[int]:
    am = _proxy(cfg)["action_space"]["action_map"]
    idx = []
    for name, opts in acts:
        k = max(am) + 1
        am[k] = {"action": name, "options": copy.deepcopy(opts)}
        idx.append(k)
    return idx


def _acl_rule(pos, perm="DENY", src="ALL", dst="ALL", sp="ALL", dp="ALL", proto="ALL", sw="NONE", dw="NONE"):
    return ("router-acl-add-rule", dict(target_router="router_1", position=pos, permission=perm, src_ip=src, dst_ip=dst,
                                        src_port=sp, dst_port=dp, protocol_name=proto, src_wildcard=sw, dst_wildcard=dw))


def adversarial_actions() -> List[Tuple[str, Dict]]:
    """Blue actions added to the shipped action map so that a random driver reaches stopped / paused / disabled
    services, closed / uninstalled applications, created / deleted / corrupted / restored files, scanned folders,
    disabled interfaces, switched-off nodes, remote sessions and ACL rules of every shape that stays INSIDE the
    configured lists (rules outside them are a separate variant)."""
    a: List[Tuple[str, Dict]] = []
    for verb in ("scan", "stop", "start", "pause", "resume", "restart", "disable", "enable", "fix"):
        a.append((f"node-service-{verb}", dict(node_name="database_server", service_name="database-service")))
        a.append((f"node-service-{verb}", dict(node_name="web_server", service_name="web-server")))
    for host, app in (("client_1", "web-browser"), ("client_1", "data-manipulation-bot"), ("client_2", "database-client"),
                      ("client_2", "web-browser")):
        for verb in ("execute", "scan", "close", "fix", "remove", "install"):
            if app == "web-browser" and verb == "install":
                continue  # a freshly installed browser has no target_url; see the variant of its own below
            a.append((f"node-application-{verb}", dict(node_name=host, application_name=app)))
    for fname in ("database.db", "extra.txt"):
        for verb in ("create", "scan", "delete", "restore", "corrupt", "access", "repair"):
            a.append((f"node-file-{verb}", dict(node_name="database_server", folder_name="database", file_name=fname)))
    for verb in ("scan", "repair", "restore"):
        a.append((f"node-folder-{verb}", dict(node_name="database_server", folder_name="database")))
    a.append(("node-folder-create", dict(node_name="client_1", folder_name="downloads")))
    a.append(("node-file-create", dict(node_name="client_1", folder_name="downloads", file_name="cat.png")))
    for src in ("client_1", "client_2", "web_server", "backup_server", "security_suite"):
        a.append(("node-session-remote-login", dict(node_name=src, username="admin", password="admin", remote_ip=DB_IP)))
    a.append(("node-session-remote-logoff", dict(node_name="client_1", remote_ip=DB_IP, verb="remote_logoff")))
    a.append(("node-session-remote-login", dict(node_name="client_1", username="admin", password="admin", remote_ip="192.168.1.1")))
    a.append(_acl_rule(1, "DENY", C1_IP, DB_IP, "POSTGRES_SERVER", "POSTGRES_SERVER", "TCP"))
    a.append(_acl_rule(2, "PERMIT", C2_IP, "192.168.1.12", "HTTP", "HTTP", "TCP", "0.0.0.1", "0.0.0.1"))
    a.append(_acl_rule(0, "DENY", "ALL", "ALL", "ALL", "ALL", "ICMP"))
    a.append(_acl_rule(9, "PERMIT", "192.168.10.110", "192.168.1.110", "ALL", "HTTP", "UDP"))
    for h in ("database_server", "client_1"):
        a.append(("host-nic-disable", dict(node_name=h, nic_num=1)))
        a.append(("host-nic-enable", dict(node_name=h, nic_num=1)))
        a.append(("node-shutdown", dict(node_name=h)))
        a.append(("node-startup", dict(node_name=h)))
    return a


def flood_agents(k: int) -> List[Dict[str, Any]]:
    """k scripted (probabilistic) agents that create / delete their own file in database_server:/database, access
    database.db and run client_1's web browser: several of them act in the same tick, which is how per-tick counts
    (file creations / deletions, accesses, executions) get above 1 through agents' actions only."""
    out = []
    for i in range(k):
        f = dict(node_name="database_server", folder_name="database", file_name=f"flood_{i}.txt")
        acts = [("node-file-create", f), ("node-file-delete", f),
                ("node-file-access", dict(node_name="database_server", folder_name="database", file_name="database.db")),
                ("node-application-execute", dict(node_name="client_1", application_name="web-browser"))]
        out.append({"ref": f"flood_{i}", "team": "GREEN", "type": "probabilistic-agent",
                    "agent_settings": {"action_probabilities": {0: 0.35, 1: 0.35, 2: 0.15, 3: 0.15}},
                    "action_space": {"action_map": {j: {"action": n, "options": dict(o)} for j, (n, o) in enumerate(acts)}}})
    return out


def rich_observation(cfg: Dict, scan: Tuple[bool, bool, bool] = (True, True, True), num_access=True, nmne=True, users=True,
                     traffic: Optional[Dict] = "rich") -> None:
    """Widen the shipped blue observation: services, applications, two files, traffic of several ports."""
    o = _nodes_opts(cfg)
    for h in o["hosts"]:
        n = h["hostname"]
        if n == "database_server":
            h["services"] = [{"service_name": "database-service"}, {"service_name": "ftp-client"}]
            h["folders"] = [{"folder_name": "database", "files": [{"file_name": "database.db"}, {"file_name": "extra.txt"}]},
                            {"folder_name": "no_such_folder"}]
        elif n == "web_server":
            h["services"] = [{"service_name": "web-server"}, {"service_name": "no-such-service"}, {"service_name": "dns-client"}]
            h["applications"] = [{"application_name": "database-client"}]
        elif n == "client_1":
            h["applications"] = [{"application_name": "web-browser"}, {"application_name": "data-manipulation-bot"},
                                 {"application_name": "database-client"}]
            h["folders"] = [{"folder_name": "downloads", "files": [{"file_name": "cat.png"}]}]
        elif n == "client_2":
            h["applications"] = [{"application_name": "database-client"}, {"application_name": "web-browser"}]
    o["hosts"].append({"hostname": "no_such_host"})
    o.update(num_services=2, num_applications=2, num_folders=2, num_files=2, include_num_access=num_access, include_nmne=nmne,
             include_users=users, file_system_requires_scan=scan[0], services_requires_scan=scan[1],
             applications_requires_scan=scan[2])
    if traffic == "rich":
        o["monitored_traffic"] = {"icmp": ["NONE"], "tcp": ["HTTP", "POSTGRES_SERVER"], "udp": ["DNS"]}
    elif traffic is None:
        o.pop("monitored_traffic", None)


def variants(tier: str) -> List[Dict[str, Any]]:
    """The environment-level corpus: shipped scenarios and edited copies of data_manipulation.yaml."""
    from . import scenarios

    quick = tier == "quick"
    V: List[Dict[str, Any]] = []

    def dm():
        return scenarios.shipped("data_manipulation.yaml")

    def add(label, cfg, episodes, steps, extras=(), constant=True, p_extra=0.5, note="", script=()):
        # `script`: indices into `extras` played first in every episode (then the seeded random driver takes over)
        V.append(dict(label=label, cfg=cfg, episodes=episodes, steps=steps, extras=list(extras), constant=constant,
                      p_extra=p_extra, note=note, script=[None if i is None else list(extras)[i] for i in script]))

    add("data_manipulation(flattened, as shipped)", dm(), 2 if quick else 3, 30 if quick else 128)
    c = dm()
    _proxy(c)["agent_settings"]["flatten_obs"] = False
    add("data_manipulation(nested)", c, 2, 30 if quick else 128)
    # rich observation x requires_scan toggles, adversarial blue actions, flood agents
    scans = [(True, True, True), (False, False, False)] + ([] if quick else [(True, False, True), (False, True, False)])
    for i, sc in enumerate(scans):
        for flat in ((False,) if quick else (False, True)):
            c = dm()
            rich_observation(c, scan=sc)
            ex = _add_actions(c, adversarial_actions())
            c["agents"] += flood_agents(6)
            _proxy(c)["agent_settings"]["flatten_obs"] = flat
            if i % 2 == 1:
                c["game"]["thresholds"] = {"nmne": {"low": 0, "medium": 1, "high": 2}, "file_access": {"low": 0, "medium": 1, "high": 2},
                                           "app_executions": {"low": 0, "medium": 1, "high": 3}}
            add(f"data_manipulation(rich obs, requires_scan fs/svc/app={sc}, flatten={flat}, adversarial+flood6)", c,
                2, 40 if quick else 120, ex)
    # many agents in one tick: counts past the top threshold
    c = dm()
    rich_observation(c, scan=(False, False, False))
    c["agents"] += flood_agents(14 if quick else 48)
    _proxy(c)["agent_settings"]["flatten_obs"] = False
    add(f"data_manipulation(rich obs, flood{14 if quick else 48})", c, 1, 25 if quick else 40)
    # option toggles
    c = dm()
    rich_observation(c, num_access=False, nmne=False, users=False, traffic=None)
    ex = _add_actions(c, adversarial_actions())
    _proxy(c)["agent_settings"]["flatten_obs"] = False
    add("data_manipulation(include_nmne/num_access/users off, no monitored_traffic)", c, 1, 40 if quick else 100, ex)
    # thin links: the load bands of the links are all reached
    c = dm()
    _proxy(c)["agent_settings"]["flatten_obs"] = False
    for l in c["simulation"]["network"]["links"]:
        l["bandwidth"] = 0.06
    add("data_manipulation(nested, link bandwidth 0.06 Mbit)", c, 1, 60 if quick else 128)
    # known-risk stimuli, each in a variant of its own so that it cannot hide anything else
    c = dm()
    _proxy(c)["agent_settings"]["flatten_obs"] = False
    ex = _add_actions(c, [_acl_rule(3, "DENY", "10.9.9.9", "ALL"), _acl_rule(4, "DENY", "ALL", "ALL", "FTP", "FTP", "TCP"),
                          _acl_rule(5, "PERMIT", C1_IP, DB_IP, "ALL", "ALL", "ALL", "0.0.0.255", "0.0.0.255")])
    add("data_manipulation(nested, ACL rules naming values outside ip_list/port_list/wildcard_list)", c, 2, 12, ex, p_extra=0.34,
        script=(1, 2, None, 0))
    for flat in (False, True):
        c = dm()
        c["simulation"]["network"]["nmne_config"]["capture_nmne"] = False
        _proxy(c)["agent_settings"]["flatten_obs"] = flat
        add(f"data_manipulation(include_nmne true, capture_nmne false, flatten={flat})", c, 1, 6)
    c = dm()
    rich_observation(c)
    _proxy(c)["agent_settings"]["flatten_obs"] = False
    ex = _add_actions(c, [(f"node-application-{verb}", dict(node_name="client_2", application_name="web-browser"))
                          for verb in ("remove", "install", "execute", "execute")])
    add("data_manipulation(rich obs, web-browser removed, installed again and executed)", c, 1, 30, ex, p_extra=0.6,
        script=(0, None, 1, None, None, None, 2))
    # reward sharing in the other direction: an agent declared BEFORE the defender shares the defender's reward (the
    # order in which agents are updated follows the sharing graph; every agent's observation is updated whatever it is)
    for flat in (False, True):
        c = dm()
        for ag in c["agents"]:
            comps = ag.get("reward_function", {}).get("reward_components", [])
            if ag["ref"] == "defender":
                ag["reward_function"]["reward_components"] = [x for x in comps if not (x["type"] == "shared-reward"
                                                                                         and x["options"]["agent_name"] == "client_2_green_user")]
            if ag["ref"] == "client_2_green_user":
                comps.append({"type": "shared-reward", "weight": 0.5, "options": {"agent_name": "defender"}})
        _proxy(c)["agent_settings"]["flatten_obs"] = flat
        add(f"data_manipulation(an earlier agent shares the defender's reward, flatten={flat})", c, 2, 10 if quick else 40)
    # per-host overrides of the nodes-level options: a host that says `false` where the nodes level says `true` (and the
    # reverse) - the host's own value is the one that counts
    for nodes_level in ((True, True, True), (False, False, False)):
        c = dm()
        rich_observation(c, scan=nodes_level)
        for h in _nodes_opts(c)["hosts"]:
            if h["hostname"] in ("database_server", "client_1", "web_server"):
                h["file_system_requires_scan"] = not nodes_level[0]
                h["services_requires_scan"] = not nodes_level[1]
                h["applications_requires_scan"] = not nodes_level[2]
        ex = _add_actions(c, adversarial_actions())
        _proxy(c)["agent_settings"]["flatten_obs"] = False
        add(f"data_manipulation(rich obs, nodes-level requires_scan={nodes_level[0]}, three hosts say the opposite, adversarial)", c,
            1, 40 if quick else 100, ex)
    # degenerate dimensions: every configurable count at its lower end (0 slots), hosts switched off and on again so
    # that the default observations of the empty shapes are produced as well
    def zero(c, keys):
        o = _nodes_opts(c)
        for k in keys:
            o[k] = 0
        for h in o["hosts"]:
            if "num_services" in keys:
                h.pop("services", None)
            if "num_applications" in keys:
                h.pop("applications", None)
            if "num_folders" in keys:
                h.pop("folders", None)
            if "num_files" in keys:
                for fo in h.get("folders", []):
                    fo.pop("files", None)

    zsets = [("num_files",), ("num_folders",), ("num_services", "num_applications"), ("num_files", "num_folders", "num_services", "num_applications")]
    for zi, keys in enumerate(zsets if not quick else zsets[:1] + zsets[3:]):
        for flat in ((False,) if quick else (False, True)):
            c = dm()
            rich_observation(c, scan=(bool(zi % 2), True, False))
            zero(c, keys)
            ex = _add_actions(c, adversarial_actions())
            _proxy(c)["agent_settings"]["flatten_obs"] = flat
            pw = [i for i, (a, o) in enumerate(adversarial_actions()) if a in ("node-shutdown", "node-startup")]
            add(f"data_manipulation(rich obs, {'/'.join(keys)} = 0, flatten={flat}, adversarial)", c, 1, 30 if quick else 80, ex,
                p_extra=0.6, script=(None, pw[0], None, None, None, pw[1]) if len(pw) > 1 else ())
    # an observation component with NO slot at all under flatten_obs (a router observed with num_rules 0, no link, no
    # component): the nested space then holds an empty Dict
    def _nodes_comp(c):
        return next(x for x in _proxy(c)["observation_space"]["options"]["components"] if x["type"] == "nodes")["options"]

    for what in ("num_rules=0", "link_references=[]", "components=[]"):
        c = dm()
        if what == "num_rules=0":
            _nodes_comp(c)["num_rules"] = 0
        elif what == "link_references=[]":
            next(x for x in _proxy(c)["observation_space"]["options"]["components"] if x["type"] == "links")["options"]["link_references"] = []
        else:
            _proxy(c)["observation_space"]["options"]["components"] = []
        _proxy(c)["agent_settings"]["flatten_obs"] = True
        add(f"data_manipulation(flattened, {what})", c, 1, 2)
        V[-1]["tag"] = "empty-component-flattened"
    # transition tours of spec/Lifecycle.tla: every agent operation at every reachable power x component state; the
    # observation is recorded at the first visits of every abstract state (and at every reset)
    import random as _random

    from . import tour as _tour

    for facet in ("svc", "app", "fs"):
        g = _tour.graph(facet)
        eps, st = _tour.tour(g, _random.Random(7), episode_len=300, level="coarse" if quick else "timers")
        tcfg, idx = _tour.scenario(facet, flatten=(facet == "app"))
        seen: Dict[Any, int] = {}
        scripts, record_at, hooks = [], set(), {}
        for ei, ep in enumerate(eps):
            scripts.append([idx[a] for a in ep])
            for si, (a, state) in enumerate(zip(ep, _tour.states_along(g, ep))):
                seen[state] = seen.get(state, 0) + 1
                if seen[state] <= (1 if quick else 3):
                    record_at.add((ei, si + 1))
                if a == "red-compromise":
                    hooks[(ei, si + 1)] = facet
        add(f"tour:{facet}(Lifecycle.tla, {st['edges']} edges, {len(seen)} states)", tcfg, len(eps), 0)
        V[-1].update(scripts=scripts, record_at=record_at, hooks=hooks)
    add("uc7_config", scenarios.shipped("uc7_config.yaml"), 2, 30 if quick else 128)
    # an episode schedule whose episodes give the defender differently sized views (a curriculum): every observation
    # must be in the space the environment declares in THAT episode
    import shutil as _shutil

    from . import common as _common

    for flat in (False, True):
        root = _common.tmpdir("verif_obs_sched_")
        src = scenarios.TEST_CFG / "scenario_with_placeholders"
        for f in src.iterdir():
            _shutil.copy(f, root / f.name)
        base = (root / "scenario.yaml").read_text()
        if "              num_services: 1\n" in base and "              num_nics: 1\n" in base and "flatten_obs: false" in base:
            base = base.replace("              num_services: 1\n", "              num_services: *view_num_services\n", 1)
            base = base.replace("              num_nics: 1\n", "              num_nics: *view_num_nics\n", 1)
            base = base.replace("save_agent_actions: true", "save_agent_actions: false")
            if flat:
                base = base.replace("flatten_obs: false", "flatten_obs: true")
            (root / "scenario.yaml").write_text(base)
            for name, (ns, nn) in {"view_small.yaml": (1, 1), "view_large.yaml": (2, 2)}.items():
                (root / name).write_text(f"view:\n  num_services: &view_num_services {ns}\n  num_nics: &view_num_nics {nn}\n")
            import yaml as _yaml

            sched = {0: ["greens_0.yaml", "reds_0.yaml", "view_small.yaml"], 1: ["greens_0.yaml", "reds_0.yaml", "view_large.yaml"],
                     2: ["greens_1.yaml", "reds_1.yaml", "view_small.yaml"]}
            (root / "schedule.yaml").write_text(_yaml.safe_dump({"base_scenario": "scenario.yaml", "schedule": sched}))
            add(f"scenario_with_placeholders(views of different size per episode, flatten={flat})", str(root), 4, 8 if quick else 30,
                constant=False, note="episode-scheduled directory with per-episode observation options")
        else:
            raise RuntimeError("harness: tests/assets/configs/scenario_with_placeholders/scenario.yaml changed shape")
    add("scenario_with_placeholders(episode schedule)", str(scenarios.PKG / "scenario_with_placeholders"), 5, 20 if quick else 60,
        constant=False, note="episode-scheduled directory: not a constant scenario; digests logged, constancy not demanded")
    if not quick:
        add("uc7_config_tap003", scenarios.shipped("uc7_config_tap003.yaml"), 1, 128)
        add("uc7_multiple_attack_variants(episode schedule)", str(scenarios.PKG / "uc7_multiple_attack_variants"), 4, 60, constant=False)
    # a router observed through an explicit port list of another length than num_ports (padded / truncated to num_ports slots),
    # seen while it is ON, shutting down, OFF and booting
    for flat in (False, True):
        for listed, nports in (([1, 2], 4), ([1, 2, 3], 2)):
            c = dm()
            nodes_opts = _proxy(c)["observation_space"]["options"]["components"][0]["options"]
            nodes_opts["routers"] = [{"hostname": "router_1", "ports": [{"port_id": k} for k in listed]}]
            nodes_opts["num_ports"] = nports
            _proxy(c)["agent_settings"]["flatten_obs"] = flat
            ex = _add_actions(c, [("node-shutdown", dict(node_name="router_1")), ("node-startup", dict(node_name="router_1"))])
            add(f"data_manipulation(router ports {listed} with num_ports {nports}, router power-cycled, flatten={flat})", c, 1, 14, ex,
                p_extra=0.0, script=(None, 0, None, None, None, None, 1, None, None, None, None, None))
    return V


_distinct: Dict[str, set] = {}


def run_variant(prop: str, v: Dict[str, Any], seed: int, stats: Dict[str, Any]) -> List[Dict[str, Any]]:
    """Run one variant through PrimaiteGymEnv under a seeded random driver; one trace per leaf group per
    observation (+ for C02 one Step trace per observation and one digest trace per environment)."""
    import random

    from primaite.session.environment import PrimaiteGymEnv

    rng = random.Random(seed)
    label = v["label"]
    traces: List[Dict[str, Any]] = []
    # one shared stimulus record per variant (every trace of the variant points at it): the driver's seed, the reset
    # seeds and the blue actions in order ("reset" marks an env.reset); meta.episode / meta.step say how far to replay
    stim = {"scenario": label, "driver_seed": seed, "reset_seeds": [], "actions": [],
            "how": "PrimaiteGymEnv(variant of rec_obs.variants(tier) with this label); for each episode env.reset(seed=reset_seed) "
                   "then env.step(action) for the listed actions"}

    def raised(where, exc, ep, st):
        stats["raised"] = stats.get("raised", 0) + 1
        traces.append(trace(prop, [raised_event(where, exc)], {"scenario": label, "episode": ep, "step": st, "exc": repr(exc)[:300],
                                                               **({"tag": v["tag"]} if v.get("tag") else {})},
                            v["constant"], stim))

    try:
        env = PrimaiteGymEnv(env_config=copy.deepcopy(v["cfg"]) if isinstance(v["cfg"], dict) else v["cfg"])
    except Exception as exc:  # noqa
        raised("construct", exc, 0, 0)
        return traces
    digests: List[Dict] = []
    if prop == "C02":  # the spaces an RL library reads right after construction, before the first reset
        try:
            digests.append(episode_event(space_digest(env.observation_space), space_digest(env.action_space)))
        except Exception as exc:  # noqa
            raised("construct", exc, 0, 0)

    def record(obs, ep, st, walker):
        stats["observations"] = stats.get("observations", 0) + 1
        agent = env.agent
        om = agent.observation_manager
        if prop == "C02":
            try:
                nested = bool(om.space.contains(om.current_observation))
                if not agent.flatten_obs:
                    # the space the ENVIRONMENT declares at this moment, and the observation it returned
                    nested = nested and bool(env.observation_space.contains(obs))
            except Exception:  # noqa
                nested = False
            flat_ok = True
            if agent.flatten_obs:
                try:
                    flat_ok = bool(env.observation_space.contains(obs))
                except Exception:  # noqa
                    flat_ok = False
            bad = count_bad_leaves(om.space, om.current_observation)
            traces.append(trace(prop, [step_event(nested, bool(agent.flatten_obs), flat_ok, bad)],
                                {"scenario": label, "episode": ep, "step": st, "agent": env._agent_name}, v["constant"], stim))
        for w in walker:
            for path, e in w.walk():
                stats.setdefault("leaf_kinds", {})
                stats["leaf_kinds"][e["kind"]] = stats["leaf_kinds"].get(e["kind"], 0) + 1
                _distinct.setdefault(e["kind"], set()).add((tuple(e["cfg"].values()), tuple(e["truth"].values())))
                traces.append(trace(prop, [e], {"scenario": label, "episode": ep, "step": st, "path": path}, v["constant"], stim))

    for ep in range(v["episodes"]):
        stim["actions"].append("reset")
        rs = rng.randrange(10**6)
        stim["reset_seeds"].append(rs)
        try:
            obs, _ = env.reset(seed=rs)
        except Exception as exc:  # noqa
            raised("reset", exc, ep, 0)
            continue
        ep_cfg = env.episode_scheduler(env.episode_counter)
        walkers = []
        for ref, ag in env.game.agents.items():
            if ag.config.observation_space.type != "none":
                walkers.append(ObsWalker(env.game, ref, ep_cfg))
        if prop == "C02":
            digests.append(episode_event(space_digest(env.observation_space), space_digest(env.action_space)))
        record(obs, ep, 0, walkers)
        n = env.action_space.n
        ep_script = (v.get("scripts") or [None] * (ep + 1))[ep]
        for st in range(1, (len(ep_script) if ep_script is not None else v["steps"]) + 1):
            if ep_script is not None:
                a = ep_script[st - 1]
                if (ep, st) in (v.get("hooks") or {}):
                    from . import tour as _tour

                    _tour.compromise(env.game, v["hooks"][(ep, st)])
            elif st <= len(v.get("script") or []):
                a = v["script"][st - 1]
                a = 0 if a is None else a
            else:
                a = rng.choice(v["extras"]) if v["extras"] and rng.random() < v["p_extra"] else rng.randrange(n)
            stim["actions"].append(a)
            try:
                obs, *_ = env.step(a)
            except Exception as exc:  # noqa - the observation could not even be produced
                raised("step", exc, ep, st)
                break  # the environment is reset (next episode) and the run continues
            if v.get("record_at") is None or (ep, st) in v["record_at"]:
                record(obs, ep, st, walkers)
            else:
                # the walkers carry memory (e.g. the value a folder showed at its last scan): they see every step,
                # only the traces of this step are not kept
                for w in walkers:
                    for _ in w.walk():
                        pass
        for w in walkers:
            for k, n_ in w.notes.items():
                stats.setdefault("notes", {})
                stats["notes"][k] = stats["notes"].get(k, 0) + n_
            for k, n_ in w.drift.items():
                stats.setdefault("drift", {})
                stats["drift"][k] = stats["drift"].get(k, 0) + n_
    if prop == "C02" and digests:
        traces.append(trace(prop, digests, {"scenario": label, "what": "space digests per episode", "note": v.get("note", "")},
                            v["constant"], {"scenario": label}))
    try:
        env.close()
    except Exception:  # noqa
        pass
    return traces


# ---------------------------------------------------------------------------------------
# the two checks share this body
# ---------------------------------------------------------------------------------------


def sig_fn(tr, event, stuck):
    fail = sorted((stuck or {}).get("fail") or [])
    prim = [c for c in fail if not c.startswith("Contains_")] or fail
    sig = {"module": "ObsEncoding", "kind": event.get("kind") or event.get("where") or event.get("ev"),
           "level": (tr.get("meta") or {}).get("level", "environment")}
    if prim:
        sig["clause"] = prim[0]
    if event.get("ev") == "Raised":
        sig["exception"] = str(event.get("exc", "")).split(":")[0]
    if (tr.get("meta") or {}).get("tag"):
        sig["variant"] = tr["meta"]["tag"]
    return sig


def component_level(prop: str, chk, tier: str) -> Dict[str, Any]:
    """MC_ObsEncoding (exhaustive) + every generator state fed to the real observation classes."""
    import os
    import shutil
    import tempfile

    from . import common, tlc

    work = tempfile.mkdtemp(prefix="verif_obsdump_")
    try:
        r = tlc.mc("MC_ObsEncoding", extra=["-dump", os.path.join(work, "gen")])
        if not r["ok"]:
            chk.violation({"module": "MC_ObsEncoding", "clause": str(r["violation"])}, {"tlc": r["output_tail"]})
        chk.add_mc("MC_ObsEncoding(all enumerations; counts 0..high+2; 31 utilisations; sessions 0..5)", r)
        if r["coverage"].get("Check", (0, 0))[1] == 0:
            raise tlc.TLCError("vacuous model: action Check never taken")
        states = read_dump(os.path.join(work, "gen.dump"))
    finally:
        shutil.rmtree(work, ignore_errors=True)
    if len(states) != r["distinct"]:
        raise tlc.TLCError(f"state dump has {len(states)} generator states, TLC reports {r['distinct']} distinct states")
    per_kind: Dict[str, int] = {}
    for k, _, _ in states:
        per_kind[k] = per_kind.get(k, 0) + 1
    missing = [k for k in ("service", "application", "file", "folder", "nic", "traffic", "port", "host", "users", "link", "acl",
                           "router", "firewall") if not per_kind.get(k)]
    if missing:
        raise tlc.TLCError(f"vacuous model: no generator state of kind {missing}")
    common.boot()
    bench = ComponentBench(thorough=tier == "thorough")
    traces = []
    calls = 0
    for kind, c, t in states:
        evs = bench.run(kind, c, t)
        calls += len(evs)
        for label, e in evs:
            traces.append(trace(prop, [e], {"level": "component", "variant": label}))
        chk.add_case((kind, c, t), nontrivial=bool(t.get("exists") and t.get("nodeOn")))
    res = tlc.validate("ObsEncodingTrace", traces, chunk=5000, parallel=16, heap="2g")
    common.judge_traces(chk, "ObsEncoding", traces, res, sig_fn, label="component level")
    binding_selftest(prop, traces, res)
    return {"generator_states": len(states), "generator_states_per_kind": per_kind, "real_observe_calls": calls,
            "tlc_validate_wall_s": round(res["wall_s"], 1)}


def binding_selftest(prop: str, traces: List[Dict[str, Any]], res: Dict[str, Any]) -> None:
    """The trace spec must reject an accepted record once one logged value is changed (machinery check)."""
    from . import tlc

    base = None
    for tr, (r, n) in zip(traces, res["results"]):
        e = tr["ev"][0]
        if r == n + 1 and e["ev"] == "Leaf" and e["kind"] == "service" and e["truth"]["exists"] and e["truth"]["nodeOn"]:
            base = tr
            break
    if base is None:
        raise tlc.TLCError("binding self-test: no accepted service record to mutate")
    e = base["ev"][0]
    muts = []
    if prop == "C09":
        muts.append(dict(e, obs=dict(e["obs"], health_status=(e["obs"]["health_status"] + 1) % 5)))
        muts.append(dict(e, truth=dict(e["truth"], op=e["truth"]["op"] % 6 + 1)))
        muts.append(dict(e, cfg=dict(e["cfg"], scan=not e["cfg"]["scan"]),
                         truth=dict(e["truth"], actual=1, visible=3), obs=dict(e["obs"], health_status=3 if e["cfg"]["scan"] else 1)))
    else:
        muts.append(dict(e, obs=dict(e["obs"], operating_status=e["size"]["operating_status"])))
        muts.append(dict(e, size=dict(e["size"], health_status=4)))
        muts.append(dict(e, contains=False))
    mt = [trace(prop, [m], {"selftest": i}) for i, m in enumerate(muts)]
    r2 = tlc.validate("ObsEncodingTrace", [base] + mt)
    got = [r == n + 1 for (r, n) in r2["results"]]
    if got != [True] + [False] * len(mt):
        raise tlc.TLCError(f"binding self-test failed: accepted flags {got} (expected the original only)")


def drift_report(traces: List[Dict[str, Any]]) -> List[str]:
    """Real Discrete sizes larger than the documented number of values (accepted; reported)."""
    seen = {}
    doc = {("application", "operating_status"): 4}
    for tr in traces:
        for e in tr["ev"]:
            if e["ev"] == "Leaf":
                for f, n in e["size"].items():
                    d = doc.get((e["kind"], f))
                    if d is not None and n > d:
                        seen[(e["kind"], f)] = (d, n)
    return [f"{k}.{f}: documented values 0..{d - 1}, declared Discrete({n})" for (k, f), (d, n) in seen.items()]


def environment_level(prop: str, chk, tier: str, seed: int) -> Dict[str, Any]:
    """Variants are run one after the other; their traces are validated by TLC and judged in batches of at most
    ~60 000 traces (bounded memory: a batch is dropped once judged)."""
    import time as _t

    from . import common, tlc

    common.boot()
    stats: Dict[str, Any] = {"drift": {DRIFT_FOLDER: 0, DRIFT_FOLDER_OS: 0}}
    per_variant: List[Dict[str, Any]] = []
    drift: List[str] = []
    tlc_wall = [0.0]
    batch: List[Dict[str, Any]] = []
    owners: List[int] = []

    def flush():
        if not batch:
            return
        res = tlc.validate("ObsEncodingTrace", batch, chunk=5000, parallel=16, heap="2g")
        common.judge_traces(chk, "ObsEncoding", batch, res, sig_fn, label="environment level")
        for own, (r, n) in zip(owners, res["results"]):
            if r != n + 1:
                per_variant[own]["rejected"] += 1
        tlc_wall[0] += res["wall_s"]
        for d in drift_report(batch):
            if d not in drift:
                drift.append(d)
        if len(chk.cov["samples"]) < 2:
            tr = batch[len(batch) // 2]
            chk.sample({"cfg": tr["cfg"], "meta": tr.get("meta"), "event": tr["ev"][0]})
        del batch[:]
        del owners[:]

    for i, v in enumerate(variants(tier)):
        t0 = _t.time()
        if v.get("tag") == "empty-component-flattened" and prop != "C02":
            # (no observation is ever returned by these: nothing to compare with ground truth; C02 reports the raise)
            per_variant.append({"scenario": v["label"], "episodes": 0, "steps_per_episode": 0, "traces": 0, "rejected": 0, "run_s": 0.0})
            continue
        traces = run_variant(prop, v, seed * 1009 + i, stats)
        per_variant.append({"scenario": v["label"], "episodes": v["episodes"], "steps_per_episode": v["steps"],
                            "traces": len(traces), "rejected": 0, "run_s": round(_t.time() - t0, 1)})
        batch.extend(traces)
        owners.extend([i] * len(traces))
        chk.add_case(v["label"])
        if len(batch) >= 60000:
            flush()
    flush()
    stats["variants"] = per_variant
    stats["distinct_cfg_truth_per_kind"] = {k: len(v) for k, v in _distinct.items()}
    stats["tlc_validate_wall_s"] = round(tlc_wall[0], 1)
    stats["space_size_drift"] = drift
    return stats
