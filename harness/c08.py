"""C08 - packets reach exactly their addressee via best routes, and forwarding ends.

Models: spec/Routes.tla (pure, declarative BestRoutes; MC_Routes enumerates the table domain and checks
lemmas), spec/Forwarding.tla (one frame walking an internetwork; MC_Forwarding: four topologies incl. a
routing loop, safety + termination + reachability).

Binding
 (1) Routes: the (table, default, dst) domain of MC_Routes is MIRRORED in Python (same constants); the
     mirror is cross-checked against TLC (its number of distinct states is recomputed from the mirror
     with an independent Python oracle, and every initial table/dst seen in TLC -simulate behaviours
     must be a member); every member is replayed on a real RouteTable built from real IPv4 networks
     (two prefix-preserving embeddings) and RoutesTrace.tla judges what find_best_route returned.
 (2) Forwarding: the topologies are read from TLC behaviours of MC_Forwarding, built as real networks
     (permissive ACLs, full software on every host), and (a) every frame (emitter, dst, ttl) of the
     model is emitted as a hand-made ICMP echo frame, (b) all ordered host pairs x {ping, DNS, web, database,
     FTP, NTP} run under cold and warm ARP caches, (c) thorough: the shipped multi-router scenario.  Every
     unicast Frame object's walk and every exchange outcome is validated by ForwardingTrace.tla.
Every stimulus runs under the default recursion limit and a wall-clock alarm: an exception is a `Raised`
event, no return in time a `Hang` event.
"""
from __future__ import annotations

import itertools
import random
import signal
import sys
import time
from ipaddress import IPv4Address
from typing import Any, Callable, Dict, List, Optional, Tuple

from . import common, scenarios, tlc
from . import rec_fwd as rf

PROP = "C08"

# ---------------------------------------------------------------------------------------
# Routes: mirror of MC_Routes' domain
# ---------------------------------------------------------------------------------------
PREFIXES = [(0, 0), (128, 2), (160, 4), (164, 6), (165, 8), (176, 4), (167, 4)]
METRICS = [0, 1]
HOPS = [1, 2]
DEFAULTS = [0, 2]
DSTS = [165, 164, 161, 177, 130, 70]
ROUTE_DOM = [(net, plen, hop, m) for (net, plen) in PREFIXES for hop in HOPS for m in METRICS]


def tables(max_routes: int):
    for n in range(max_routes + 1):
        yield from itertools.product(ROUTE_DOM, repeat=n)


def oracle_best(table, dflt: int, dst: int) -> List[int]:
    """Independent Python oracle (only used to recompute TLC's state count): indices (1-based) of the
    best routes, [0] for the default route, [] for none."""
    match = [i for i, (net, plen, _h, _m) in enumerate(table) if (dst >> (8 - plen)) == (net >> (8 - plen))]
    if match:
        top = max(table[i][1] for i in match)
        cand = [i for i in match if table[i][1] == top]
        low = min(table[i][3] for i in cand)
        return [i + 1 for i in cand if table[i][3] == low]
    return [0] if dflt else []


# two prefix-preserving embeddings of the 8-bit addresses: "mixed" (/0 /8 /24 /30 /32, rec_fwd.embed) and
# "octet" (/0 /8 /16 /24 /32: every pair of bits is one octet)
OCT = [10, 77, 172, 203]
OCT_PLEN = {0: 0, 2: 8, 4: 16, 6: 24, 8: 32}


def oct_int(a: int) -> int:
    return (OCT[(a >> 6) & 3] << 24) | (OCT[(a >> 4) & 3] << 16) | (OCT[(a >> 2) & 3] << 8) | OCT[a & 3]


def real_route(enc: str, net: int, plen: int) -> Tuple[str, str]:
    if enc == "mixed":
        return rf.embed_net(net, plen)
    rp = OCT_PLEN[plen]
    v = oct_int(net)
    if net % (1 << (8 - plen)) == 0:
        v &= ((0xFFFFFFFF << (32 - rp)) & 0xFFFFFFFF) if rp else 0
    return str(IPv4Address(v)), rf.mask_of(rp)


def real_addr(enc: str, a: int) -> str:
    return rf.embed(a) if enc == "mixed" else str(IPv4Address(oct_int(a)))


HOP_IP = {1: "10.99.0.1", 2: "10.99.0.2"}


def replay_routes(cases: List[Tuple[Tuple, int, str]], chk: common.Check) -> List[Dict[str, Any]]:
    """cases: (table, dflt, encoding).  One trace per (table, dflt, dst) so that no divergence masks another."""
    from primaite.simulator.network.hardware.nodes.network.router import RouteTable
    from primaite.simulator.system.core.sys_log import SysLog

    log = SysLog("c08")
    traces = []
    for table, dflt, enc in cases:
        cfg = {"routes": [{"net": n, "plen": p, "hop": h, "metric": m} for (n, p, h, m) in table], "dflt": dflt}
        stim = {"encoding": enc, "table": [list(r) for r in table], "default": dflt}
        rt = None
        err = None
        try:
            rt = RouteTable(sys_log=log)
            for (n, p, h, m) in table:
                addr, mask = real_route(enc, n, p)
                rt.add_route(address=addr, subnet_mask=mask, next_hop_ip_address=HOP_IP[h], metric=float(m))
            if dflt:
                rt.set_default_route_next_hop_ip_address(IPv4Address(HOP_IP[dflt]))
        except Exception as e:  # noqa - an exception out of repository code is an event no module allows
            err = f"{type(e).__name__}: {e}"[:200]
        for i, dst in enumerate(DSTS):
            ev = {"ev": "Lookup", "dst": dst, "chosen": 0, "usedDefault": False, "hop": 0}
            meta = {"real_dst": real_addr(enc, dst)}
            if err is not None:
                ev["ev"] = "Raised"
                meta["exception"] = err
            else:
                try:
                    # alternate the two accepted argument types
                    arg = meta["real_dst"] if i % 2 else IPv4Address(meta["real_dst"])
                    got = rt.find_best_route(arg)
                    if got is not None:
                        if got is rt.default_route:
                            ev["usedDefault"] = True
                        else:
                            for k, r in enumerate(rt.routes):
                                if r is got:
                                    ev["chosen"] = k + 1
                                    break
                        hop = str(got.next_hop_ip_address)
                        ev["hop"] = {v: k for k, v in HOP_IP.items()}.get(hop, 99)
                        meta["returned"] = f"{got.address}/{got.subnet_mask} via {hop} metric {got.metric}"
                except Exception as e:  # noqa
                    ev["ev"] = "Raised"
                    meta["exception"] = f"{type(e).__name__}: {e}"[:200]
            traces.append({"cfg": cfg, "ev": [ev], "meta": meta, "stimulus": dict(stim, dst=dst)})
            chk.add_case(("route", table, dflt, dst, enc), nontrivial=len(table) > 0)
    return traces


def routes_sig(tr, event, stuck):
    rts = tr["cfg"]["routes"]
    ch = event.get("chosen", 0)
    return {
        "n_routes": len(rts),
        "default": bool(tr["cfg"]["dflt"]),
        "used_default": bool(event.get("usedDefault")),
        "chosen_plen": rts[ch - 1]["plen"] if 0 < ch <= len(rts) else -1,
        "exception": tr["meta"].get("exception", "")[:60],
    }


# ---------------------------------------------------------------------------------------
# guarded execution: exceptions and hangs become events
# ---------------------------------------------------------------------------------------
class _Alarm(BaseException):
    pass


def guarded(fn: Callable[[], Any], seconds: int = 20) -> Tuple[str, Any]:
    """('ok', result) | ('Raised', 'Type: msg') | ('Hang', seconds)."""

    def on_alarm(signum, frame):
        raise _Alarm()

    old = signal.signal(signal.SIGALRM, on_alarm)
    signal.alarm(seconds)
    try:
        return "ok", fn()
    except _Alarm:
        return "Hang", seconds
    except RecursionError as e:
        return "Raised", f"RecursionError: {e}"[:160]
    except Exception as e:  # noqa - repository code raised
        return "Raised", f"{type(e).__name__}: {e}"[:160]
    finally:
        signal.alarm(0)
        signal.signal(signal.SIGALRM, old)


# ---------------------------------------------------------------------------------------
# Forwarding: real networks
# ---------------------------------------------------------------------------------------
def tick(game):
    game.pre_timestep()
    game.advance_timestep()


def clear_caches(scene: rf.Scene):
    """Cold start: no ARP entries, no learned MAC addresses."""
    from primaite.simulator.network.hardware.nodes.network.switch import Switch

    for n in scene.keep:
        if isinstance(n, Switch):
            n.mac_address_table.clear()
        else:
            arp = n.software_manager.arp
            if arp is not None:
                arp.clear()


def craft_echo(node, dst_ip: str, ttl: int):
    """Send one hand-made ICMP echo request with the given ttl from `node` (resolution of the outbound
    interface and the next hop's MAC by the node's own session manager). Returns True if a frame left."""
    from primaite.simulator.network.protocols.icmp import ICMPPacket
    from primaite.simulator.network.transmission.data_link_layer import EthernetHeader, Frame
    from primaite.simulator.network.transmission.network_layer import IPPacket
    from primaite.utils.validation.ip_protocol import PROTOCOL_LOOKUP

    sm = node.software_manager.session_manager
    dst = IPv4Address(dst_ip)
    vals = sm.resolve_outbound_transmission_details(dst_ip_address=dst, protocol=PROTOCOL_LOOKUP["ICMP"])
    nic, mac = vals[0], vals[1]
    if not nic or not mac:
        return False
    frame = Frame(
        ethernet=EthernetHeader(src_mac_addr=nic.mac_address, dst_mac_addr=mac),
        ip=IPPacket(src_ip_address=nic.ip_address, dst_ip_address=dst, protocol=PROTOCOL_LOOKUP["ICMP"], ttl=ttl),
        icmp=ICMPPacket(sequence=1),
        payload="c08-crafted-echo-request",
    )
    return bool(nic.send_frame(frame))


N_TOPOS = 10
DOMAIN = "c08.example"
KINDS = ["ping", "dns", "web", "db", "ftp", "ntp"]
SERVER_SW = {"dns": ["dns-server"], "web": ["dns-server", "web-server"], "db": ["database-service"], "ftp": ["ftp-server"],
             "ntp": ["ntp-server"], "ping": []}
CLIENT_SW = {"dns": ["dns-client"], "web": ["dns-client", "web-browser"], "db": ["database-client"], "ftp": ["ftp-client"],
             "ntp": ["ntp-client"], "ping": []}


def software_up(node, names: List[str]) -> bool:
    for nm in names:
        sw = node.software_manager.software.get(nm)
        if sw is None or getattr(sw.operating_state, "name", "") != "RUNNING":
            return False
    return node.operating_state.name == "ON"


def exchange(kind: str, src, dst, dst_ip: str, uniq: str) -> bool:
    """One request/reply exchange from node src to the server software on node dst; True = it succeeded."""
    sws = src.software_manager.software
    ip = IPv4Address(dst_ip)
    if kind == "ping":
        return bool(src.ping(dst_ip, pings=1))
    if kind == "dns":
        dst.software_manager.software["dns-server"].dns_register(DOMAIN, ip)
        c = sws["dns-client"]
        c.dns_server = ip
        c.dns_cache.clear()
        return bool(c.check_domain_exists(DOMAIN)) and c.dns_cache.get(DOMAIN) == ip
    if kind == "web":
        dst.software_manager.software["dns-server"].dns_register(DOMAIN, ip)
        c = sws["dns-client"]
        c.dns_server = ip
        c.dns_cache.clear()
        return bool(sws["web-browser"].get_webpage(f"http://{DOMAIN}/"))
    if kind == "db":
        c = sws["database-client"]
        c.configure(server_ip_address=ip)
        if c.operating_state.name != "RUNNING":
            c.run()
        try:
            ok = bool(c.connect()) and bool(c.query("SELECT"))
        finally:
            try:
                c.disconnect()
            except Exception:  # noqa - tidy-up only
                pass
        return ok
    if kind == "ftp":
        name = f"f{uniq}.txt"
        src.file_system.create_file(file_name=name, folder_name="root", force=True)
        ok = bool(sws["ftp-client"].send_file(dest_ip_address=ip, src_folder_name="root", src_file_name=name,
                                              dest_folder_name="root", dest_file_name=name))
        return ok and dst.file_system.get_file(folder_name="root", file_name=name) is not None
    if kind == "ntp":
        c = sws["ntp-client"]
        c.configure(ip)
        c.time = None
        c.request_time()
        return c.time is not None
    raise ValueError(kind)


COLD_ATTEMPTS = 3


def run_exchanges(rec: rf.FwdRecorder, build: Callable[[str, str], Tuple[Any, rf.Scene]], hosts: List[str], kinds: List[str],
                  label: str, chk: common.Check, perm_all: bool = True) -> List[Dict[str, Any]]:
    """All ordered host pairs x kinds, cold (<= COLD_ATTEMPTS attempts, one tick between them) then warm.
    ``build(src, dst)`` returns the (game, scene) to use for the pair (client software on src, servers on dst)."""
    out: List[Dict[str, Any]] = []
    uid = [0]
    drift = chk.cov.setdefault("cold_attempts_needed", {})
    for s in hosts:
        for d in hosts:
            if s == d:
                continue
            game, scene = build(s, d)
            src, dst = scene.obj[s], scene.obj[d]
            dst_ip = scene.real_ip(d)
            for kind in kinds:
                perm = perm_all and software_up(src, CLIENT_SW[kind]) and software_up(dst, SERVER_SW[kind])
                for warm in (False, True):
                    if not warm:
                        clear_caches(scene)
                    stim = {"scenario": label, "kind": kind, "src": s, "dst": d, "dst_ip": dst_ip, "warm": warm}
                    rec.start(scene)
                    evs = []
                    ok, n = False, 0
                    for attempt in range(1 if warm else COLD_ATTEMPTS):
                        n += 1
                        uid[0] += 1
                        st, val = guarded(lambda: exchange(kind, src, dst, dst_ip, str(uid[0])))
                        if st != "ok":
                            evs.append(rf.blank(st, kind=kind, src=scene.by_name[s], node=scene.by_name[d]))
                            stim["exception"] = str(val)
                            break
                        ok = bool(val)
                        if ok:
                            break
                        st, val = guarded(lambda: tick(game))
                        if st != "ok":
                            evs.append(rf.blank(st, kind="tick"))
                            stim["exception"] = str(val)
                            break
                    rec.stop()
                    if not evs:
                        evs.append(rf.blank("Exchange", kind=kind, src=scene.by_name[s], node=scene.by_name[d],
                                            dst=scene.addr_of_node(d), saddr=scene.addr_of_node(s), ok=ok, perm=bool(perm), n=n,
                                            acc=warm))
                        if not warm and ok:
                            drift[str(n)] = drift.get(str(n), 0) + 1
                    out.append({"cfg": scene.cfg("exchange"), "ev": evs, "meta": {"kind": kind, "warm": warm, "scenario": label},
                                "stimulus": stim})
                    out += rec.take(stimulus=stim)
                    chk.add_case(("exchange", label, s, d, kind, warm))
    return out


def run_chains(rec: rf.FwdRecorder, build: Callable[[str, str], Tuple[Any, rf.Scene]], hosts: List[str], label: str,
               chk: common.Check) -> List[Dict[str, Any]]:
    """Histories of TWO exchanges after one cold start (what a node has learnt from the first exchange - from frames that
    merely passed through it - must not spoil the second): every ordered pair of distinct host pairs, pings."""
    out: List[Dict[str, Any]] = []
    pairs = [(s, d) for s in hosts for d in hosts if s != d]
    uid = [10**6]
    for p1 in pairs:
        for p2 in pairs:
            if p1 == p2:
                continue
            game, scene = build(p2[0], p2[1])
            clear_caches(scene)
            first_ok = False
            for _ in range(COLD_ATTEMPTS):
                uid[0] += 1
                st, val = guarded(lambda: exchange("ping", scene.obj[p1[0]], scene.obj[p1[1]], scene.real_ip(p1[1]), str(uid[0])))
                if st != "ok" or val:
                    first_ok = st == "ok"
                    break
                guarded(lambda: tick(game))
            s, d = p2
            stim = {"scenario": label, "kind": "ping", "src": s, "dst": d, "dst_ip": scene.real_ip(d), "warm": False,
                    "after": list(p1), "first_ok": first_ok}
            rec.start(scene)
            evs, ok, n = [], False, 0
            for _ in range(COLD_ATTEMPTS):
                n += 1
                uid[0] += 1
                st, val = guarded(lambda: exchange("ping", scene.obj[s], scene.obj[d], scene.real_ip(d), str(uid[0])))
                if st != "ok":
                    evs.append(rf.blank(st, kind="ping", src=scene.by_name[s], node=scene.by_name[d]))
                    stim["exception"] = str(val)
                    break
                ok = bool(val)
                if ok:
                    break
                guarded(lambda: tick(game))
            rec.stop()
            if not evs:
                evs.append(rf.blank("Exchange", kind="ping", src=scene.by_name[s], node=scene.by_name[d], dst=scene.addr_of_node(d),
                                    saddr=scene.addr_of_node(s), ok=ok, perm=True, n=n, acc=False))
            out.append({"cfg": scene.cfg("exchange"), "ev": evs, "meta": {"kind": "ping", "warm": False, "scenario": label + "+chain"},
                        "stimulus": stim})
            out += rec.take(stimulus=stim)
            chk.add_case(("chain", label, p1, p2))
    return out


def pair_builder(topo: List[Dict[str, Any]]) -> Callable[[str, str], Tuple[Any, rf.Scene]]:
    """A fresh real network per ordered pair: client software on src, server software on dst (a host that carried both
    would answer its own protocol's replies: client and server share the port)."""

    def build(s: str, d: str):
        game = scenarios.build(rf.cfg_from_topo(topo, clients=[s], servers=[d]))
        scene = rf.Scene(game.simulation.network, order=[n["name"] for n in topo])
        check_scene(scene, topo)
        tick(game)
        return game, scene

    return build


def run_frames(rec: rf.FwdRecorder, game, scene: rf.Scene, topo: List[Dict[str, Any]], label: str, ttls: List[int], dsts: List[int],
               chk: common.Check) -> List[Dict[str, Any]]:
    """Every frame (emitter, dst, ttl) of the model on the real network, cold and warm."""
    out: List[Dict[str, Any]] = []
    for n in topo:
        if n["kind"] == "switch":
            continue
        node = scene.obj[n["name"]]
        own = {f["addr"] for f in n["ifs"]}
        for d in dsts:
            if d in own:
                continue
            dip = rf.embed(d)
            for t in ttls:
                for warm in (False, True):
                    if not warm:
                        clear_caches(scene)
                    stim = {"scenario": label, "kind": "crafted-echo", "src": n["name"], "dst_ip": dip, "model_dst": d, "ttl": t,
                            "warm": warm}
                    rec.start(scene)
                    st, val = guarded(lambda: craft_echo(node, dip, t))
                    rec.stop()
                    guarded(lambda: tick(game))  # link loads return to zero (an aborted delivery leaves its load behind)
                    if st != "ok":
                        stim["exception"] = str(val)
                        out.append({"cfg": scene.cfg("exchange"),
                                    "ev": [rf.blank(st, kind="crafted-echo", src=scene.by_name[n["name"]])],
                                    "meta": {"kind": "crafted-echo", "scenario": label}, "stimulus": stim})
                    out += rec.take(stimulus=stim)
                    chk.add_case(("frame", label, n["name"], d, t, warm), nontrivial=t > 1)
    return out


def run_faults(topo: List[Dict[str, Any]], label: str, chk: common.Check, rng: random.Random, budget: int = 10) -> Tuple[List[Dict[str, Any]], int]:
    """Termination under faults: some nodes are powered off BEFORE any traffic (cold caches everywhere: nothing has been
    heard from them), then every host that is still on sends an echo to every other host's address.  Whatever the
    delivery, handling the packet must end without an exception (only that is judged here; delivery with all nodes up is
    judged by the frames and exchanges above).  Returns (traces of the sends that did not end, number of sends)."""
    names = [n["name"] for n in topo if n["kind"] != "switch"]
    hosts = [n for n in topo if n["kind"] == "host"]
    routers = [n["name"] for n in topo if n["kind"] == "router"]
    sets = [[x] for x in names] + [[h["name"], r] for h in hosts for r in routers]
    rng.shuffle(sets)
    out, sends = [], 0
    for off in sets[:budget]:
        game = scenarios.build(rf.cfg_from_topo(topo))
        scene = rf.Scene(game.simulation.network, order=[n["name"] for n in topo])
        for x in off:
            game.simulation.apply_request(["network", "node", x, "shutdown"])
        for _ in range(6):
            tick(game)
        clear_caches(scene)
        for h in hosts:
            if h["name"] in off:
                continue
            for g in hosts:
                if g["name"] == h["name"]:
                    continue
                dip = rf.embed(g["ifs"][0]["addr"])
                sends += 1
                st, val = guarded(lambda: craft_echo(scene.obj[h["name"]], dip, 64))
                guarded(lambda: tick(game))
                if st != "ok":
                    stim = {"scenario": label + "+faults", "kind": "crafted-echo", "src": h["name"], "dst_ip": dip, "ttl": 64, "off": off,
                            "exception": str(val)}
                    out.append({"cfg": scene.cfg("exchange"), "ev": [rf.blank(st, kind="crafted-echo", src=scene.by_name[h["name"]])],
                                "meta": {"kind": "crafted-echo", "scenario": label + "+faults"}, "stimulus": stim})
        chk.add_case(("faults", label, tuple(off)))
    return out, sends


def fwd_sig(tr, event, stuck):
    """module / event / clause are added by judge_traces; here: what kind of node, what kind of frame, which family."""
    nodes = tr["cfg"]["nodes"]

    def kind_of(i):
        return nodes[i - 1]["kind"] if isinstance(i, int) and 0 < i <= len(nodes) else ""

    scen = (tr.get("stimulus") or {}).get("scenario", "")
    sig = {
        "mode": tr["cfg"]["mode"],
        "frame_kind": (tr.get("meta") or {}).get("kind", "").split("/")[0],
        "node_kind": kind_of(event.get("node", 0)),
        "family": "model" if "#" in scen else scen[:24],
    }
    if event.get("ev") == "Exchange":
        sig["warm"] = bool(event.get("acc"))
    if (tr.get("stimulus") or {}).get("after"):
        sig["second_of_a_chain"] = True
    if event.get("ev") in ("Raised", "Hang"):
        sig["exception"] = str((tr.get("stimulus") or {}).get("exception", ""))[:70]
    return sig


def routes_selftest(chk: common.Check):
    """Every kind of wrong answer of a look-up must be rejected by RoutesTrace with the right clause (vacuity / binding)."""
    import copy

    good = {"cfg": {"routes": [{"net": 128, "plen": 2, "hop": 1, "metric": 0}, {"net": 160, "plen": 4, "hop": 2, "metric": 1},
                               {"net": 167, "plen": 4, "hop": 1, "metric": 0}], "dflt": 2},
            "ev": [{"ev": "Lookup", "dst": 165, "chosen": 3, "usedDefault": False, "hop": 1}]}

    def mut(**kw):
        m = copy.deepcopy(good)
        m["ev"][0].update(kw)
        return m

    cases = [
        (good, None),
        (mut(chosen=2, hop=2), "ChosenIsBest"),  # the higher-metric twin
        (mut(chosen=1), "ChosenIsBest"),  # a shorter prefix
        (mut(chosen=0, usedDefault=True, hop=2), "ChosenIsBest"),  # the default although a route matches
        (mut(dst=70, chosen=0, usedDefault=True, hop=2), None),  # nothing matches: the default route is right
        (mut(dst=70, chosen=0, usedDefault=False, hop=0), "ChosenIsBest"),  # ... and "no route" is wrong
        (mut(hop=2), "HopIsRoutes"),
    ]
    res = tlc.validate("RoutesTrace", [c for c, _ in cases])
    for (c, want), (reached, length), stuck in zip(cases, res["results"], res["stuck"]):
        got = None if reached == length + 1 else ",".join((stuck or {}).get("fail") or ["?"])
        if got != want:
            raise RuntimeError(f"RoutesTrace self-test: {c['ev']} gave {got}, expected {want}")
    chk.cov.setdefault("clause_selftest", {})["RoutesTrace"] = f"{len(cases)} hand-made look-ups judged as expected"


def forwarding_selftest(chk: common.Check, traces: List[Dict[str, Any]], res: Dict[str, Any]):
    """Corrupt one accepted routed frame walk / exchange per clause; each corruption must be rejected by that clause."""
    import copy

    walk = exch = None
    for t, (reached, length) in zip(traces, res["results"]):
        if reached != length + 1:
            continue
        names = [e["ev"] for e in t["ev"]]
        nodes = t["cfg"]["nodes"]
        if (walk is None and t["cfg"]["mode"] == "frame" and names[:3] == ["Emit", "IfaceRecv", "Forward"] and names[-1] == "Deliver"
                and nodes[t["ev"][0]["node"] - 1]["kind"] == "host" and t["ev"][0]["nh"] == nodes[t["ev"][0]["node"] - 1]["gw"]
                and nodes[t["ev"][1]["node"] - 1]["kind"] == "router"):
            walk = t
        if exch is None and t["cfg"]["mode"] == "exchange" and t["ev"][0]["ev"] == "Exchange" and t["ev"][0]["perm"] and t["ev"][0]["ok"]:
            exch = t
    if walk is None or exch is None:
        raise RuntimeError("forwarding self-test: no accepted routed frame walk / permitted exchange to corrupt")

    def mut(base, i, **kw):
        m = {"cfg": base["cfg"], "ev": copy.deepcopy(base["ev"])}
        m["ev"][i].update(kw)
        return m

    e = walk["ev"]
    last = len(e) - 1
    other = next(i + 1 for i, n in enumerate(walk["cfg"]["nodes"]) if n["kind"] == "host" and i + 1 != e[last]["node"])
    cases = [
        (mut(walk, 0, nh=e[0]["nh"] + 1), "HostsUseDefaultGatewayOffLink"),
        (mut(walk, 1, ta=e[1]["tb"]), "TtlLowersAtEveryHop"),
        (mut(walk, 1, ta=0), "ExhaustedIsDropped"),
        (mut(walk, 1, ta=e[1]["tb"] + 1), "TtlNeverRises"),
        (mut(walk, 2, nh=e[2]["nh"] + 1), "ForwardedViaBestRoute"),
        (mut(walk, 2, node=e[0]["node"]), "OnlyRoutersForward"),
        (mut(walk, last, node=other), "DeliveredOnlyAtOwner"),
        (mut(exch, 0, ok=False), "PermittedExchangeSucceeds"),
        (mut(exch, 0, ev="Hang"), "NoException"),
    ]
    r = tlc.validate("ForwardingTrace", [c for c, _ in cases])
    for (c, want), (reached, length), stuck in zip(cases, r["results"], r["stuck"]):
        fail = (stuck or {}).get("fail") or []
        if reached == length + 1 or want not in fail:
            raise RuntimeError(f"ForwardingTrace self-test: corruption for {want} gave reached={reached}/{length} fail={fail}")
    chk.cov.setdefault("clause_selftest", {})["ForwardingTrace"] = f"{len(cases)} corrupted traces each rejected by the intended clause"


def check_scene(scene: rf.Scene, topo: List[Dict[str, Any]]):
    """The built network is the model's topology (machinery self-check of builder + embedding)."""
    exp = rf.expected_nodes(topo)
    got = {n["name"]: n for n in scene.nodes}
    for e in exp:
        g = got.get(e["name"])
        if g is None or g["kind"] != e["kind"]:
            raise RuntimeError(f"scene mismatch for {e['name']}: {g} / {e}")
        if e["kind"] == "switch":
            continue
        if g["ifs"] != e["ifs"] or g["gw"] != e["gw"] or g["routes"] != e["routes"] or g["dflt"] != e["dflt"]:
            raise RuntimeError(f"scene mismatch for {e['name']}:\n built {g}\n model {e}")


def extra_builder(cfg: Dict[str, Any]) -> Callable[[str, str], Tuple[Any, rf.Scene]]:
    def build(s: str, d: str):
        game = scenarios.build(rf.with_roles(cfg, clients=[s], servers=[d]))
        scene = rf.Scene(game.simulation.network)
        tick(game)
        return game, scene

    return build


def extra_scenes() -> List[Tuple[str, Dict[str, Any], List[str]]]:
    """Hand-written small networks beyond the model's topologies (all devices permit everything)."""
    return [
        ("firewalled-dmz", scenarios.firewalled(dmz=True), ["ext", "int", "dmz"]),
        ("wireless-wan", scenarios.test_asset("wireless_wan_network_config.yaml"), ["pc_a", "pc_b"]),
    ]


def topo_label(topo) -> str:
    import json
    import zlib

    return "-".join(n["name"] for n in topo) + "#" + str(zlib.crc32(json.dumps(topo, sort_keys=True).encode()) % 10000)


# ---------------------------------------------------------------------------------------
def run_l2_ring(chk: common.Check) -> None:
    """Forwarding.tla's BoundedHops (a frame is handled at most ttl0 + 1 times: every interface that sees it lowers its ttl,
    an exhausted frame goes nowhere) checked where the model's switches are NOT transparent: two switches joined by two
    parallel links (a layer-2 ring; the simulator has no spanning tree), cold caches, one ping - the broadcast ARP request
    circles the ring and only its ttl ends that.  Judged: nothing raises out of the exchange and no Frame object is taken
    in by switches more often than the ttl it was first seen with allows."""
    import sys

    from primaite.simulator.network.container import Network
    from primaite.simulator.network.hardware.nodes.host.computer import Computer
    from primaite.simulator.network.hardware.nodes.network.switch import Switch

    for n_links in (2, 3):
        net = Network()
        sws = []
        for name in ("sw1", "sw2"):
            sw = Switch.from_config({"type": "switch", "hostname": name, "num_ports": 5, "start_up_duration": 0})
            sw.power_on()
            net.add_node(sw)
            sws.append(sw)
        hs = []
        for name, ip in (("host_a", "192.168.7.10"), ("host_b", "192.168.7.20")):
            h = Computer.from_config({"type": "computer", "hostname": name, "ip_address": ip, "subnet_mask": "255.255.255.0",
                                      "default_gateway": "192.168.7.1", "start_up_duration": 0})
            h.power_on()
            net.add_node(h)
            hs.append(h)
        net.connect(sws[0].network_interface[1], hs[0].network_interface[1])
        net.connect(sws[1].network_interface[1], hs[1].network_interface[1])
        for k in range(n_links):
            net.connect(sws[0].network_interface[2 + k], sws[1].network_interface[2 + k])
        for h in hs:
            h.software_manager.arp.clear()
        seen: Dict[int, List[int]] = {}
        keep: List[Any] = []
        original = Switch.receive_frame

        def counting(self, frame, from_network_interface, _seen=seen, _keep=keep, _orig=original):
            _keep.append(frame)
            ent = _seen.setdefault(id(frame), [int(frame.ip.ttl) if frame.ip else 0, 0])
            ent[1] += 1
            return _orig(self, frame, from_network_interface)

        limit = sys.getrecursionlimit()
        sys.setrecursionlimit(max(limit, 6000))
        Switch.receive_frame = counting
        error = None
        try:
            hs[0].ping("192.168.7.20", pings=1)
        except BaseException as e:  # noqa - RecursionError (or a wrapper of it): the handling did not end by itself
            error = e
        finally:
            Switch.receive_frame = original
            sys.setrecursionlimit(limit)
        worst = max(((c - (t0 + 1), t0, c) for t0, c in seen.values()), default=(0, 0, 0))
        chk.add_case({"s": "l2_ring", "parallel_links": n_links, "frames": len(seen), "most_receptions": worst[2]}, nontrivial=True)
        if not seen:
            raise tlc.TLCError("vacuous: no frame reached a switch in the layer-2 ring")
        if error is not None or worst[0] > 0:
            chk.violation({"module": "Forwarding", "clause": "BoundedHops", "topo": "two switches, parallel links",
                           "how": "raised" if error is not None else "more receptions than ttl"},
                          {"parallel_links": n_links, "exception": repr(error)[:300] if error is not None else None,
                           "first_seen_ttl": worst[1], "receptions_of_one_frame": worst[2]})
    chk.notes.append("layer-2 ring (two switches, parallel links): handling of a broadcast ends by ttl alone - BoundedHops checked "
                     "on the real switches by counting receptions per Frame object")


def main(tier: str, seed: int) -> int:
    chk = common.Check(PROP, "model_checking", tier, seed)
    rng = random.Random(seed)
    deep = tier == "thorough"

    # 1. the models
    rmod = "MC_RoutesDeep.cfg" if deep else "MC_Routes.cfg"
    max_routes = 3 if deep else 2
    r = tlc.mc("MC_Routes", cfg=rmod, timeout=2400)
    if not r["ok"]:
        chk.violation({"module": "MC_Routes", "clause": str(r["violation"])}, {"tlc": r["output_tail"]})
    chk.add_mc(f"MC_Routes({rmod}: tables of <= {max_routes} routes over 7 prefixes x 2 metrics x 2 hops, default yes/no, 6 dsts)", r)
    for act in ("AddRoute", "Pick", "Lookup"):
        if r["coverage"].get(act, (0, 0))[1] == 0:
            raise tlc.TLCError(f"vacuous model: action {act} never taken")
    f = tlc.mc("MC_Forwarding", timeout=1200)
    if not f["ok"]:
        chk.violation({"module": "MC_Forwarding", "clause": str(f["violation"])}, {"tlc": f["output_tail"]})
    chk.add_mc("MC_Forwarding(8 topologies incl. 2- and 3-router routing loops and an asymmetric triangle, ttl in {1,2,3,4,64}, safety + liveness)", f)
    for act in ("MEmit", "MSwitch", "MRecv", "MLost", "MLocal", "MDeliver", "MForward", "MDrop"):
        if f["coverage"].get(act, (0, 0))[1] == 0:
            raise tlc.TLCError(f"vacuous model: action {act} never taken")

    # 2. Routes: the mirror of the domain, cross-checked against TLC
    all_tables = list(tables(max_routes))
    expect = len(all_tables) * len(DEFAULTS) * (1 + len(DSTS))
    for t in all_tables:
        for d in DEFAULTS:
            for dst in DSTS:
                expect += max(1, len(oracle_best(t, d, dst)))
    if r["ok"] and expect != r["distinct"]:
        raise tlc.TLCError(f"the Python mirror of MC_Routes' domain has {expect} states, TLC found {r['distinct']}")
    chk.cov["routes_domain"] = {"tables": len(all_tables), "defaults": len(DEFAULTS), "dsts": len(DSTS),
                                "lookups": len(all_tables) * len(DEFAULTS) * len(DSTS), "tlc_distinct_states": r["distinct"],
                                "mirror_states": expect}
    behs, info = tlc.simulate("MC_Routes", cfg=rmod, num=40, depth=8, seed=seed + 3)
    chk.cov["transitions"] += info["states"]
    dom = set(ROUTE_DOM)
    for b in behs:
        for stp in b:
            s = stp["state"]
            tb = tuple((x["net"], x["plen"], x["hop"], x["metric"]) for x in (s["table"] if isinstance(s["table"], list) else []))
            if any(x not in dom for x in tb) or s["dflt"] not in DEFAULTS or (s["dst"] != 999 and s["dst"] not in DSTS):
                raise tlc.TLCError(f"MC_Routes behaviour outside the Python mirror: {s}")

    common.boot()
    cases: List[Tuple[Tuple, int, str]] = []
    if deep:
        for i, t in enumerate(all_tables):
            for d in DEFAULTS:
                cases.append((t, d, "mixed" if (i + d) % 2 else "octet"))
    else:
        for i, t in enumerate(all_tables):  # every table of <= 2 routes, both embeddings
            for d in DEFAULTS:
                cases.append((t, d, "mixed"))
                cases.append((t, d, "octet"))
        three = list(itertools.product(ROUTE_DOM, repeat=3))
        for t in rng.sample(three, 1500):  # a sample of the 3-route tables (exhaustive in the thorough tier)
            cases.append((t, rng.choice(DEFAULTS), rng.choice(["mixed", "octet"])))
    t0 = time.time()
    rtraces = replay_routes(cases, chk)
    chk.cov["routes_replay_s"] = round(time.time() - t0, 1)
    res = tlc.validate("RoutesTrace", rtraces, chunk=4000, parallel=8, timeout=2400)
    routes_selftest(chk)
    common.judge_traces(chk, "Routes", rtraces, res, routes_sig)
    for tr in rtraces[200:202]:
        chk.sample({"cfg": tr["cfg"], "events": tr["ev"], "meta": tr["meta"]})

    # 3. Forwarding: the model's topologies as real networks
    fbehs, finfo = tlc.simulate("MC_Forwarding", num=80 if not deep else 400, depth=140, seed=seed + 5)
    chk.cov["transitions"] += finfo["states"]
    topos: Dict[str, List[Dict[str, Any]]] = {}
    model_frames = set()
    for b in fbehs:
        tp = b[0]["state"]["topo"]
        for n in tp:
            for k in ("ifs", "routes"):
                if not isinstance(n[k], list):
                    n[k] = []
        topos.setdefault(topo_label(tp), tp)
        if len(b) > 1:
            s1 = b[1]["state"]
            model_frames.add((topo_label(tp), s1["origin"], s1["dst"], s1["ttl0"]))
    if len(topos) < N_TOPOS:
        raise tlc.TLCError(f"TLC -simulate visited only {len(topos)} of the {N_TOPOS} topologies of MC_Forwarding")
    rec = rf.FwdRecorder()
    rec.install()
    ftraces: List[Dict[str, Any]] = []
    ttls = [1, 2, 3, 4, 5, 64]
    emitted = set()
    for label in sorted(topos):
        topo = topos[label]
        game = scenarios.build(rf.cfg_from_topo(topo))
        scene = rf.Scene(game.simulation.network, order=[n["name"] for n in topo])
        check_scene(scene, topo)
        owned = sorted({f["addr"] for n in topo if n["kind"] != "switch" for f in n["ifs"]})
        dsts = owned + [30, 45, 78, 133, 200]
        tick(game)
        ftraces += run_frames(rec, game, scene, topo, label, ttls, dsts, chk)
        for i, n in enumerate(topo):
            if n["kind"] != "switch":
                for d in dsts:
                    for t in ttls:
                        emitted.add((label, i + 1, d, t))
        hosts = [n["name"] for n in topo if n["kind"] == "host"]
        ftraces += run_exchanges(rec, pair_builder(topo), hosts, KINDS, label, chk)
        if len(hosts) >= 3:
            ftraces += run_chains(rec, pair_builder(topo), hosts, label, chk)
        ft, ns = run_faults(topo, label, chk, rng, budget=8 if not deep else 40)
        ftraces += ft
        chk.cov["sends_with_nodes_powered_off"] = chk.cov.get("sends_with_nodes_powered_off", 0) + ns
    for label, cfg, hosts in extra_scenes():
        ftraces += run_exchanges(rec, extra_builder(cfg), hosts, KINDS, label, chk)
    missing = [m for m in model_frames if m not in emitted]
    if missing:
        raise tlc.TLCError(f"frames of MC_Forwarding behaviours that the harness did not emit: {missing[:5]}")
    chk.cov["model_frames_seen_in_behaviours"] = len(model_frames)

    if deep:
        ftraces += run_shipped(rec, chk, "multi_lan_internet_network_example")
        ftraces += run_shipped(rec, chk, "data_manipulation", via_env=True)

    run_l2_ring(chk)
    res = tlc.validate("ForwardingTrace", ftraces, chunk=1500, parallel=8, timeout=2400)
    forwarding_selftest(chk, ftraces, res)
    common.judge_traces(chk, "Forwarding", ftraces, res, fwd_sig, selftest="ForwardingTrace")
    shown = 0
    for tr in ftraces:
        if tr["cfg"]["mode"] == "frame" and len(tr["ev"]) >= 8 and shown < 2:
            chk.sample({"meta": tr["meta"], "stimulus": tr.get("stimulus"), "events": tr["ev"][:12]})
            shown += 1
    chk.cov["frame_walks"] = sum(1 for t in ftraces if t["cfg"]["mode"] == "frame")
    chk.cov["exchanges"] = sum(1 for t in ftraces if t["cfg"]["mode"] == "exchange")
    chk.assumptions += [
        "TLC 1.8.0 and the CommunityModules; the tracer wrappers on NIC/RouterInterface send_frame+receive_frame, "
        "SwitchPort.receive_frame, HostNode/Router/Firewall/Switch.receive_frame, SessionManager.receive_frame and "
        "SoftwareManager.receive_payload_from_session_manager; Frame object identity = packet identity",
        "the layer-2 next hop of a sent frame is identified by its destination MAC (MAC -> owning interface address)",
        "addresses are compared mod 2^30 (prefix lengths - 2); the harness refuses scenarios where that is not injective",
        "the Python mirror of MC_Routes' domain (same constants) is cross-checked by recomputing TLC's distinct-state count "
        "and by membership of TLC -simulate behaviours",
        f"cold ARP caches: an exchange must succeed within {COLD_ATTEMPTS} attempts (one tick between attempts); warm: at once",
        "'permitted' = PERMIT-all ACLs on every router, all nodes ON, client and server software RUNNING (own-built networks); "
        "the shipped scenario (own ACLs) is validated for the safety clauses only",
        "a host sending to an address on its own subnet is left free; switches are transparent but lower the ttl",
    ]
    return chk.finish()


def run_shipped(rec: rf.FwdRecorder, chk: common.Check, label: str, via_env: bool = False) -> List[Dict[str, Any]]:
    """A shipped scenario: game steps (PrimaiteGame.step(), or PrimaiteGymEnv.step(0) when the scenario has a proxy
    agent) and pings between all its hosts (safety clauses only: the scenario's own ACLs are not modelled)."""
    import copy

    from primaite.simulator.network.hardware.nodes.host.host_node import HostNode

    out: List[Dict[str, Any]] = []
    cfg = scenarios.shipped(label + ".yaml")
    if via_env:
        from primaite.session.environment import PrimaiteGymEnv

        env = PrimaiteGymEnv(env_config=copy.deepcopy(cfg))
        env.reset(seed=chk.seed)
        game = env.game
        step = lambda: env.step(0)  # noqa: E731
    else:
        game = scenarios.build(cfg)
        step = game.step
    scene = rf.Scene(game.simulation.network)
    hosts = [n.config.hostname for n in scene.keep if isinstance(n, HostNode)]

    def steps(tag):
        rec.start(scene)
        for _ in range(3):
            st, val = guarded(step, 60)
            if st != "ok":
                out.append({"cfg": scene.cfg("exchange"), "ev": [rf.blank(st, kind="step")],
                            "meta": {"kind": "step", "scenario": label}, "stimulus": {"scenario": label, "exception": str(val)}})
                break
        rec.stop()
        out.extend(rec.take(stimulus={"scenario": label, "kind": tag}))

    steps("3 steps")
    out.extend(run_exchanges(rec, lambda s, d: (game, scene), hosts, ["ping"], label, chk, perm_all=False))
    steps("3 steps after the pings")
    if via_env:
        env.close()
    return out
