"""C10 - reward = weighted sum of components; shared rewards use same-step values; cyclic sharing is
rejected at load; sticky components keep their value, non-sticky ones return to zero; totals add up.

Model: spec/RewardGraph.tla (+ MC_RewardGraph exhaustive: every digraph on 3 (quick) / 4 (thorough)
agents x every declaration order).  Binding:
 (i)  every (graph, declaration order) of the model's Init domain - enumerated in Python, mirroring
      ``Perms \\X SUBSET (V \\X V)`` of MC_RewardGraph (the count is cross-checked against TLC's own
      number of initial states) - becomes a real scenario (one proxy agent per vertex, integer
      action-penalty component, one shared-reward component per edge) given to
      PrimaiteGame.from_config / PrimaiteGymEnv and, when accepted, stepped;
 (ii) behaviours of the generator configurations Gen_RewardGraph*.cfg (tlc -simulate: declaration
      order, acyclic graph, weights, own-reward vector per step) are replayed on real agents;
 (iii) the shipped data_manipulation scenario in sticky / non-sticky variants under seeded random
      defender actions, every component's ``calculate`` wrapped.
Every episode is one trace judged by TLC against spec/RewardTrace.tla.
"""
from __future__ import annotations

import copy
import itertools
import random
from typing import Any, Dict, List, Optional, Tuple

from . import common, scenarios, tlc
from .rec_reward import STICKY_TYPES, RewardRecorder

PROP = "C10"


# ---------------------------------------------------------------------------------------
# generated scenarios: one proxy agent per vertex
# ---------------------------------------------------------------------------------------


def _agent(name: str, comps: List[Dict[str, Any]]) -> Dict[str, Any]:
    return {
        "ref": name,
        "team": "BLUE",
        "type": "proxy-agent",
        "observation_space": {"type": "none", "options": {}},
        "action_space": {
            "action_map": {
                0: {"action": "do-nothing", "options": {}},
                1: {"action": "node-service-scan", "options": {"node_name": "h", "service_name": "dns-client"}},
            }
        },
        "reward_function": {"reward_components": comps},
        "agent_settings": {"flatten_obs": False},
    }


def _scripted(name: str, comps: List[Dict[str, Any]]) -> Dict[str, Any]:
    """A scripted (probabilistic) agent over the same two actions: it draws its own action every step."""
    d = _agent(name, comps)
    d.update({"team": "GREEN", "type": "probabilistic-agent", "agent_settings": {"action_probabilities": {0: 0.5, 1: 0.5}}})
    d.pop("observation_space")
    return d


def _penalty(w: int, p_act: int, p_idle: int) -> Dict[str, Any]:
    return {"type": "action-penalty", "weight": w, "options": {"action_penalty": p_act, "do_nothing_penalty": p_idle}}


def _shared(w: int, other: str) -> Dict[str, Any]:
    return {"type": "shared-reward", "weight": w, "options": {"agent_name": other}}


def graph_scenario(decl: List[int], edges: List[Tuple[int, int, int]], own: Dict[int, Tuple[int, int, int]],
                   own_first: Dict[int, bool], scripted: Tuple[int, ...] = ()) -> Dict[str, Any]:
    """decl: vertices in declaration order; edges: (sharer, sharee, weight); own[v] = (weight,
    action_penalty, do_nothing_penalty) - all integers, so every sum is exact in floating point."""
    agents = []
    for v in decl:
        sh = [_shared(w, f"ag{b}") for (a, b, w) in edges if a == v]
        me = [_penalty(*own[v])]
        # (the vertices in `scripted` are scripted agents: sharing is between agents of any kind, in either direction)
        agents.append((_scripted if v in scripted else _agent)(f"ag{v}", me + sh if own_first.get(v, True) else sh + me))
    return scenarios.base_cfg([scenarios.host("h", "192.168.1.2", "computer")], [], agents=agents)


def _pairs(n: int) -> List[Tuple[int, int]]:
    return [(a, b) for a in range(1, n + 1) for b in range(1, n + 1)]


def _graph_of_mask(n: int, mask: int) -> List[Tuple[int, int]]:
    return [p for i, p in enumerate(_pairs(n)) if mask >> i & 1]


def _acyclic(n: int, g: List[Tuple[int, int]]) -> bool:
    """Selection helper only (which graphs to enumerate exhaustively) - never part of a verdict."""
    indeg = {v: 0 for v in range(1, n + 1)}
    for a, b in g:
        if a == b:
            return False
        indeg[b] += 1
    todo = [v for v in indeg if indeg[v] == 0]
    seen = 0
    while todo:
        v = todo.pop()
        seen += 1
        for a, b in g:
            if a == v:
                indeg[b] -= 1
                if indeg[b] == 0:
                    todo.append(b)
    return seen == n


def _rand_own(rng: random.Random, decl) -> Dict[int, Tuple[int, int, int]]:
    out = {}
    for v in decl:
        p_act, p_idle = rng.sample([-2, -1, 0, 1, 2], 2)
        out[v] = (rng.choice([1, 2]), p_act, p_idle)
    return out


def run_graph_case(rec: RewardRecorder, cfg: Dict[str, Any], actions: List[List[int]], use_env: bool,
                   meta: Dict[str, Any], params: Dict[str, Any]) -> Dict[str, Any]:
    """Load the scenario on the real code; if accepted, step it with the given action choices
    (actions[s][i] = action-map index of the i-th declared agent at step s)."""
    from primaite.game.game import PrimaiteGame
    from primaite.session.environment import PrimaiteGymEnv

    kinds = [a["type"] for a in cfg["agents"]]
    env_idx = kinds.index("proxy-agent") if use_env else -1   # (the environment serves the first learning agent declared)
    tr = rec.begin(cfg, proxy=env_idx + 1, meta=meta, stimulus={"graph_scenario": params, "actions": actions, "env": use_env})
    env = None
    game = None
    try:
        if use_env:
            env = PrimaiteGymEnv(env_config=copy.deepcopy(cfg))
            env.reset(seed=1)
            game = env.game
        else:
            game = PrimaiteGame.from_config(copy.deepcopy(cfg))
    except Exception as e:  # noqa
        rec.load(tr, None, e)
        return tr
    rec.load(tr, game, None)
    for acts in actions:
        agents = list(game.agents.values())
        for ag, a in zip(agents, acts):
            if hasattr(ag, "store_action"):
                ag.store_action(a)
        try:
            if use_env:
                _, reward, _, _, _ = env.step(acts[env_idx])
            else:
                reward = None
                game.step()
        except Exception as e:  # noqa
            rec.raised(tr, "step", e)
            break
        rec.step(tr, game, reward)
    if env is not None:
        env.close()
    return tr


# ---------------------------------------------------------------------------------------
# sticky components on the shipped scenario
# ---------------------------------------------------------------------------------------

STICKY_VARIANTS = [
    ("all-sticky", {t: True for t in STICKY_TYPES}),
    ("none-sticky", {t: False for t in STICKY_TYPES}),
    ("only-webpage-nonsticky", {**{t: True for t in STICKY_TYPES}, "webpage-unavailable-penalty": False}),
    ("only-dbadmin-nonsticky", {**{t: True for t in STICKY_TYPES}, "green-admin-database-unreachable-penalty": False}),
    ("only-404-nonsticky", {**{t: True for t in STICKY_TYPES}, "web-server-404-penalty": False}),
    # one of the two browsing clients asks for a page that does not exist: steps in which both browse give the web
    # server mixed answers (200 and 404: a qualifying event whose value is 0), steps with one of them give +1 / -1
    ("all-sticky+mixed-answers", {**{t: True for t in STICKY_TYPES}, "_mixed": True}),
    # boundary weights: components switched off with weight 0 / 0.0, a negative and a large weight
    ("none-sticky+boundary-weights", {**{t: False for t in STICKY_TYPES}, "_weights": True}),
    # the browser of one browsing client is uninstalled right after every reset: its user's requests are then unreachable
    # (a failed request of the agent's own: the page penalty applies)
    ("all-sticky+browser-removed", {**{t: True for t in STICKY_TYPES}, "_mixed": True, "_remove_browser": "client_2"}),
]


def sticky_variant(base: Dict[str, Any], flags: Dict[str, bool]) -> Dict[str, Any]:
    """data_manipulation with a web-server-404-penalty added to the defender and the sticky flag of
    every sticky-capable component set explicitly (one variant per component kind, so that a
    divergence of one kind cannot shadow the others)."""
    cfg = copy.deepcopy(base)
    for a in cfg["agents"]:
        rf = a.setdefault("reward_function", {"reward_components": []})
        if a["type"] == "proxy-agent":
            rf["reward_components"].append(
                {"type": "web-server-404-penalty", "weight": 0.3,
                 "options": {"node_hostname": "web_server", "service_name": "web-server"}})
        for c in rf["reward_components"]:
            if c["type"] in STICKY_TYPES:
                c.setdefault("options", {})["sticky"] = flags[c["type"]]
    if flags.get("_weights"):
        for a in cfg["agents"]:
            comps = a.get("reward_function", {}).get("reward_components", [])
            for k, c in enumerate(comps):
                if c.get("type") != "shared-reward":
                    c["weight"] = [0, 0.0, -0.5, 3][k % 4] if a["type"] == "proxy-agent" else [0.0, 1.0][k % 2]
    if flags.get("_mixed"):
        for n in cfg["simulation"]["network"]["nodes"]:
            if n.get("hostname") == "client_2":
                for app in n.get("applications", []):
                    if app.get("type") == "web-browser":
                        app.setdefault("options", {})["target_url"] = "http://arcd.com/no_such_page"
        for a in cfg["agents"]:
            # both green agents browse in most steps
            if a.get("type") == "probabilistic-agent":
                am = a["action_space"]["action_map"]
                k = next((i for i, e in am.items() if e["action"] == "node-application-execute" and e["options"].get("application_name") == "web-browser"), None)
                if k is not None:
                    a["agent_settings"]["action_probabilities"] = {i: (0.7 if i == k else 0.3 / max(1, len(am) - 1)) for i in am}
    return cfg


def run_env_episodes(rec: RewardRecorder, cfg: Dict[str, Any], label: str, episodes: int, steps: int,
                     rng: random.Random, replay: Optional[Dict[str, Any]] = None, after_reset=None) -> List[Dict[str, Any]]:
    """Seeded random defender on a scenario with exactly one proxy agent; one trace per episode.
    (``replay`` = a recorded stimulus: its seeds and actions are used instead of fresh ones.)"""
    from primaite.session.environment import PrimaiteGymEnv

    names = [a["ref"] for a in cfg["agents"]]
    proxy = 1 + next(i for i, a in enumerate(cfg["agents"]) if a["type"] == "proxy-agent")
    out = []
    seeds = list(replay["seeds"]) if replay else [rng.randrange(10**6) for _ in range(episodes)]
    episodes = len(seeds)
    stim = {"scenario": label, "seeds": seeds, "steps": steps, "actions": []}
    env = None
    for ep in range(episodes):
        tr = rec.begin(cfg, proxy=proxy, meta={"scenario": label, "episode": ep, "agents": names}, stimulus=stim)
        out.append(tr)
        try:
            if env is None:
                env = PrimaiteGymEnv(env_config=copy.deepcopy(cfg))
            env.reset(seed=seeds[ep])
        except Exception as e:  # noqa
            rec.load(tr, None, e)
            break
        rec.load(tr, env.game, None)
        if after_reset is not None:
            after_reset(env)
        n_act = env.action_space.n
        acts = []
        stim["actions"].append(acts)
        given = replay["actions"][ep] if replay and ep < len(replay["actions"]) else None
        for i in range(len(given) if given is not None else steps):
            # mostly idle so that the green users' requests are answered, sometimes disruptive
            a = given[i] if given is not None else (0 if rng.random() < 0.55 else rng.randrange(n_act))
            acts.append(a)
            try:
                _, reward, _, _, _ = env.step(a)
            except Exception as e:  # noqa
                rec.raised(tr, "step", e)
                break
            rec.step(tr, env.game, reward)
    if env is not None:
        env.close()
    return out


# ---------------------------------------------------------------------------------------
# verdict plumbing
# ---------------------------------------------------------------------------------------


def sig_fn(tr, event, stuck):
    """Canonical key arguments of a failing event: for sticky clauses the component types at fault."""
    sig: Dict[str, Any] = {}
    fail = set((stuck or {}).get("fail") or [])
    cfg = tr["cfg"]
    if event.get("ev") == "Load":
        sig["accepted"] = bool(event.get("accepted"))
    if event.get("ev") == "Raised":
        sig["exc"] = event.get("exc", "").split(":")[1] if ":" in event.get("exc", "") else ""
    if event.get("ev") == "Step" and fail & {"NonStickyReturnsToZero", "StickyKeepsValue"}:
        pos = (stuck or {}).get("pos") or 0
        prev = tr["ev"][pos - 2] if pos >= 2 and tr["ev"][pos - 2]["ev"] == "Step" else None
        types = set()
        for a, comps in enumerate(cfg["comps"]):
            for k, c in enumerate(comps):
                if c["kind"] != "sticky" or event["qual"][a][k]:
                    continue
                v = event["vals"][a][k]
                if not c["sticky"] and v != 0 and "NonStickyReturnsToZero" in fail:
                    types.add(c["typ"])
                if c["sticky"] and prev is not None and v != prev["vals"][a][k] and "StickyKeepsValue" in fail:
                    types.add(c["typ"])
        sig["component"] = ",".join(sorted(types))
    return sig


def _mc(chk: common.Check, name: str, cfg: Optional[str], need: Tuple[str, ...], timeout: int = 900) -> Dict[str, Any]:
    r = tlc.mc("MC_RewardGraph", cfg=cfg, timeout=timeout)
    if not r["ok"]:
        chk.violation({"module": "MC_RewardGraph", "cfg": cfg or "MC_RewardGraph.cfg", "clause": str(r["violation"])},
                      {"tlc": r["output_tail"]})
    chk.add_mc(name, r)
    for act in need:
        if r["coverage"].get(act, (0, 0))[1] == 0:
            raise tlc.TLCError(f"vacuous model: action {act} never taken in {name}")
    return r


def _shipped_variant(label: str) -> Dict[str, Any]:
    fam, _, var = label.partition("/")
    if fam == "uc7":
        return scenarios.shipped("uc7_config.yaml")
    base = scenarios.shipped("data_manipulation.yaml")
    flags = dict(STICKY_VARIANTS).get(var)
    return sticky_variant(base, flags) if flags is not None else base


def replay(path: str) -> int:
    """Re-execute the stimulus of a replay file on the real code and let TLC judge it again."""
    import json

    rep = json.loads(open(path).read())
    stim = rep["detail"]["stimulus"]
    common.boot()
    rec = RewardRecorder()
    rec.install()
    if "graph_scenario" in stim:
        p = stim["graph_scenario"]
        cfg = graph_scenario(p["decl"], [tuple(e) for e in p["edges"]], {o[0]: tuple(o[1:]) for o in p["own"]},
                             {v: f for v, f in p["own_first"]})
        traces = [run_graph_case(rec, cfg, stim["actions"], stim["env"], rep["detail"].get("meta") or {}, p)]
    else:
        var = stim["scenario"].partition("/")[2]
        host = (dict(STICKY_VARIANTS).get(var) or {}).get("_remove_browser")
        hook = (lambda env: env.game.simulation.apply_request(  # noqa
            ["network", "node", host, "software_manager", "application", "uninstall", "web-browser"])) if host else None
        traces = run_env_episodes(rec, _shipped_variant(stim["scenario"]), stim["scenario"], 0, stim["steps"],
                                  random.Random(0), replay=stim, after_reset=hook)
    res = tlc.validate("RewardTrace", traces)
    rc = 0
    for tr, (reached, length), stuck in zip(traces, res["results"], res["stuck"]):
        if reached == length + 1:
            print(f"trace {tr['meta']}: accepted ({length} events)")
            continue
        rc = 1
        print(f"trace {tr['meta']}: first unexplained event at position {reached}/{length}")
        print(f"  failing clauses: {(stuck or {}).get('fail')}")
        print(f"  spec state before: {(stuck or {}).get('st')}")
        print(f"  event: {tr['ev'][reached - 1] if 0 < reached <= length else None}")
    return rc


def main(tier: str, seed: int) -> int:
    chk = common.Check(PROP, "model_checking", tier, seed)
    rng = random.Random(seed)
    thorough = tier == "thorough"

    # 1. the model ---------------------------------------------------------------------
    r3 = _mc(chk, "MC_RewardGraph(N=3, all neighbour orders, own in -1..1, 2 steps)", None, ("Init", "MCLoad", "MCStep"))
    n_init3 = 2 ** 9 * 6
    if r3["ok"] and r3["wall_s"] < 55 and r3["coverage"]["Init"][1] != n_init3 * 6:
        # (TLC prints the coverage table once a minute; the parser adds them up, hence the guard)
        raise tlc.TLCError(f"MC_RewardGraph: {r3['coverage']['Init'][1]} initial states, the Python enumeration "
                           f"mirrors {n_init3} (graph, declaration order) pairs x 6 neighbour orders")
    neg = tlc.mc("MC_RewardGraph", cfg="MC_RewardGraphDeclOrder.cfg", coverage=False)
    if neg["ok"] or neg["violation"] != ("invariant", "CurIsSolution"):
        raise tlc.TLCError("vacuous model: evaluating in declaration order does not violate CurIsSolution")
    chk.cov["negative_model"] = {"cfg": "MC_RewardGraphDeclOrder.cfg", "refuted": "CurIsSolution",
                                 "distinct_states": neg["distinct"]}
    if thorough:
        _mc(chk, "MC_RewardGraph4(N=4, own in 0..1, 2 steps)", "MC_RewardGraph4.cfg", ("Init", "MCLoad", "MCStep"), timeout=1500)

    # 2. every (graph, declaration order) on the real loader ------------------------------
    common.boot()
    rec = RewardRecorder()
    rec.install()
    traces: List[Dict[str, Any]] = []
    counts = {"loaded": 0, "accepted": 0, "rejected": 0, "stepped_env": 0}

    def do_case(n, g, decl, steps, label, edges=None, own=None, actions=None, env=None):
        edges = edges if edges is not None else [(a, b, rng.choice([1, 2, -1])) for (a, b) in g]
        own = own or _rand_own(rng, decl)
        first = {v: rng.random() < 0.5 for v in decl}
        use_env = env if env is not None else (counts["accepted"] % 4 == 3)
        scripted: Tuple[int, ...] = ()
        if not label.startswith("gen") and counts["loaded"] % 3 == 1:
            # a third of the cases mixes learning and scripted agents (at least one learning agent when the environment steps)
            scripted = tuple(v for v in decl if rng.random() < 0.5)
            if use_env and len(scripted) == len(decl):
                scripted = scripted[1:]
        counts["mixed_kinds"] = counts.get("mixed_kinds", 0) + (1 if scripted else 0)
        cfg = graph_scenario(list(decl), edges, own, first, scripted)
        if actions is None:
            actions = [[rng.randrange(2) for _ in decl] for _ in range(steps)]
            if steps >= 2:  # every agent both idles and acts at least once
                actions[0] = [0] * len(decl)
                actions[1] = [1] * len(decl)
                rng.shuffle(actions)
        params = {"decl": list(decl), "scripted": list(scripted), "edges": [list(e) for e in edges],
                  "own": [[v] + list(own[v]) for v in decl], "own_first": [[v, bool(first[v])] for v in decl]}
        tr = run_graph_case(rec, cfg, actions, use_env, {"family": label, "n": n}, params)
        traces.append(tr)
        counts["loaded"] += 1
        first_ev = tr["ev"][0] if tr["ev"] else {}
        acc = first_ev.get("ev") == "Load" and first_ev.get("accepted")
        counts["accepted" if acc else "rejected"] += 1
        if acc and use_env:
            counts["stepped_env"] += 1
        chk.add_case({"f": label, "g": sorted(g), "d": list(decl)}, nontrivial=True)
        return tr

    # (i) exhaustive: all digraphs on 3 vertices x all declaration orders
    for mask in range(2 ** 9):
        g = _graph_of_mask(3, mask)
        for decl in itertools.permutations((1, 2, 3)):
            do_case(3, g, decl, 5, "all3")
    if counts["loaded"] != n_init3:
        raise RuntimeError("harness: enumeration does not mirror the model's Init domain")
    if thorough:
        # all acyclic digraphs on 4 vertices x all 24 declaration orders, plus a sample of cyclic ones
        cyc = []
        for mask in range(2 ** 16):
            g = _graph_of_mask(4, mask)
            if _acyclic(4, g):
                for decl in itertools.permutations((1, 2, 3, 4)):
                    do_case(4, g, decl, 4, "dag4")
            else:
                cyc.append(mask)
        for mask in rng.sample(cyc, 3000):
            decl = list((1, 2, 3, 4))
            rng.shuffle(decl)
            do_case(4, _graph_of_mask(4, mask), decl, 2, "cyclic4")
    # multi-edges (two shared components naming the same agent) and a second own component
    for _ in range(40 if not thorough else 400):
        n = rng.choice([2, 3, 4])
        decl = list(range(1, n + 1))
        rng.shuffle(decl)
        topo = list(decl)
        rng.shuffle(topo)
        g = [(topo[i], topo[j]) for i in range(n) for j in range(i + 1, n) if rng.random() < 0.6]
        edges = [(a, b, rng.choice([1, 2, -1])) for (a, b) in g]
        edges += [(a, b, rng.choice([1, 2])) for (a, b) in g if rng.random() < 0.5]
        if rng.random() < 0.15 and g:
            a, b = rng.choice(g)
            edges.append((b, a, 1))  # closes a cycle
        do_case(n, sorted(set((a, b) for a, b, _ in edges)), decl, 6, "multi", edges=edges)

    # (ii) behaviours of the generator model replayed on real agents
    gens = [("Gen_RewardGraph.cfg", 3, 120 if not thorough else 400)]
    if thorough:
        gens.append(("Gen_RewardGraph4.cfg", 4, 400))
    for gcfg, n, num in gens:
        behs, info = tlc.simulate("MC_RewardGraph", cfg=gcfg, num=num, depth=8, seed=seed + n, timeout=900)
        chk.cov["transitions"] += info["states"]
        for beh in behs:
            st0 = beh[0]["state"]
            decl = st0["decl"]
            g = [tuple(e) for e in st0["g"]["__set__"]]
            edges = [(a, b, st0["wt"][str([a, b])]) for (a, b) in g]
            owns = [s["state"]["own"] for s in beh if s["action"] == "MCStep"]
            if not owns:
                continue
            # own component: weight 1, action_penalty 1, do_nothing_penalty 0  => own reward = the model's own[v]
            actions = [[o[v - 1] for v in decl] for o in owns]
            tr = do_case(n, g, decl, len(actions), f"gen{n}", edges=edges, own={v: (1, 1, 0) for v in decl}, actions=actions)
            tr["meta"]["model_cur_last"] = beh[-1]["state"]["cur"]
    chk.cov["graph_cases"] = dict(counts)

    # (iii) sticky / non-sticky components on the shipped scenario ---------------------------
    base = scenarios.shipped("data_manipulation.yaml")
    episodes, steps = (2, 60) if not thorough else (4, 160)
    n_sticky = 0
    for label, flags in STICKY_VARIANTS:
        hook = None
        if flags.get("_remove_browser"):
            host = flags["_remove_browser"]
            hook = lambda env, host=host: env.game.simulation.apply_request(  # noqa
                ["network", "node", host, "software_manager", "application", "uninstall", "web-browser"])
        trs = run_env_episodes(rec, sticky_variant(base, flags), f"data_manipulation/{label}", episodes, steps, rng, after_reset=hook)
        traces += trs
        n_sticky += len(trs)
        chk.add_case({"f": "sticky", "variant": label})
    # the shipped file as it is
    trs = run_env_episodes(rec, base, "data_manipulation/as-shipped", 1 if not thorough else 2, steps, rng)
    traces += trs
    chk.add_case({"f": "shipped", "variant": "data_manipulation"})
    if thorough:
        trs = run_env_episodes(rec, scenarios.shipped("uc7_config.yaml"), "uc7/as-shipped", 1, 100, rng)
        traces += trs
        chk.add_case({"f": "shipped", "variant": "uc7"})
    chk.cov["sticky_episodes"] = n_sticky
    # how often did the interesting situations occur, per component type (vacuity of the sticky clauses)
    occ: Dict[str, Dict[str, int]] = {t: {"sticky_no_event": 0, "sticky_no_event_nonzero": 0, "nonsticky_no_event": 0,
                                          "event": 0} for t in STICKY_TYPES}
    for tr in traces:
        for e in tr["ev"]:
            if e["ev"] != "Step":
                continue
            for a, comps in enumerate(tr["cfg"]["comps"]):
                for k, c in enumerate(comps):
                    if c["kind"] != "sticky":
                        continue
                    o = occ[c["typ"]]
                    if e["qual"][a][k]:
                        o["event"] += 1
                    elif c["sticky"]:
                        o["sticky_no_event"] += 1
                        o["sticky_no_event_nonzero"] += 1 if e["vals"][a][k] != 0 else 0
                    else:
                        o["nonsticky_no_event"] += 1
    chk.cov["sticky_situations"] = occ
    vacuous = [f"{t}: {o}" for t, o in occ.items() if min(o.values()) == 0]

    # 4. TLC judges every trace ----------------------------------------------------------
    res = tlc.validate("RewardTrace", traces, chunk=600)
    common.judge_traces(chk, "RewardGraph", traces, res, sig_fn)
    if vacuous:
        if not chk.violations:  # (with violations the missing situations may be their consequence)
            raise RuntimeError(f"vacuous stimulus: sticky situations {vacuous}")
        chk.notes.append(f"sticky situations not reached: {vacuous}")
    shown = 0
    for tr in traces:
        if tr["meta"].get("family") in ("gen3", "multi") and len(tr["ev"]) > 2 and shown < 2:
            chk.sample({"cfg": tr["cfg"], "meta": tr["meta"], "events": tr["ev"][:4]})
            shown += 1
    for tr in traces:
        if str(tr["meta"].get("scenario", "")).startswith("data_manipulation/none"):
            chk.sample({"cfg": tr["cfg"], "meta": tr["meta"], "events": tr["ev"][:6]})
            break
    chk.assumptions += [
        "TLC and the CommunityModules (Json); the tracer wrappers on the reward components' calculate",
        "values cross into TLC as integer milli-units: generated scenarios use integer weights and penalties "
        "(exact), shipped ones are compared with a slack of one unit per term",
        "a 'qualifying event' is computed by the recorder from the agent's own latest history item "
        "(browser / database-client execute request) or, for web-server-404-penalty, from the response codes "
        "in the state the component was shown",
        "the (graph, order) enumeration on the implementation side is done in Python and mirrors the Init "
        "domain of MC_RewardGraph (count cross-checked with TLC); 4-agent cyclic graphs are sampled",
    ]
    return chk.finish()
