"""Extension (beyond the listed properties): spec/Lifecycle.tla bound to the code.  The transition tours that several
property checks use as their history generator (harness/tour.py) assume that the abstract state the model is in IS
the state of the simulator.  Here that is checked: every tour (facets svc and app; the exact graph in the thorough
tier) is executed through PrimaiteGymEnv, after every step the node's power state and countdown and the component's
operating state, health and timers are read from the live objects, and TLC validates the sequence against
Lifecycle.tla's own Step (spec/LifecycleTrace.tla) - power, component and health separately.  Facet fs: the file t.txt
of folder tourf (no folder / absent / present / deleted, its health, the folder's restore countdown and the number of
deleted files of that name, which decides what a folder restore does).  The ssh facet is a history generator only.
Run: ./check EXT-lifecycle"""
from __future__ import annotations

import random
from typing import Any, Dict, List

from . import common, tlc, tour

PW = {"ON": "ON", "OFF": "OFF", "BOOTING": "BOOT", "SHUTTING_DOWN": "SD"}


def project_fs(node, pw: str) -> Dict[str, Any]:
    fs = node.file_system
    name = tour.TARGET["fs"][1]
    fo = next((f for f in fs.folders.values() if f.name == name), None)
    dfo = next((f for f in reversed(list(fs.deleted_folders.values())) if f.name == name), None)
    F = fo or dfo
    op, hs, oc, fc = ("NOFOLDER" if F is None else "ABSENT"), "GOOD", 0, 0
    if F is not None:
        lf = next((f for f in F.files.values() if f.name == "t.txt"), None)
        df = next((f for f in reversed(list(F.deleted_files.values())) if f.name == "t.txt"), None)
        if lf is not None and fo is not None:
            op, hs = "PRESENT", lf.health_status.name
        elif lf is not None or df is not None:
            op, hs = "DELETED", (lf or df).health_status.name
        oc = max(0, int(F.restore_countdown or 0))
        nd = sum(1 for f in F.deleted_files.values() if f.name == "t.txt")
        fc = min(1, nd) if op == "PRESENT" else min(2, nd)
    return {"pw": pw, "pc": int((node.config.start_up_countdown if pw == "BOOT" else node.config.shut_down_countdown if pw == "SD" else 0) or 0),
            "rs": bool(node.config.is_resetting), "op": op, "hs": hs, "fc": fc, "oc": oc}


def project(env, facet: str) -> Dict[str, Any]:
    node_name, comp = tour.TARGET[facet]
    node = env.game.simulation.network.get_node_by_hostname(node_name)
    pw = PW[node.operating_state.name]
    if facet == "fs":
        return project_fs(node, pw)
    sw = node.software_manager.software.get(comp)
    d = {"pw": pw,
         "pc": int((node.config.start_up_countdown if pw == "BOOT" else node.config.shut_down_countdown if pw == "SD" else 0) or 0),
         "rs": bool(node.config.is_resetting),
         "op": sw.operating_state.name if sw is not None else "ABSENT",
         "hs": sw.health_state_actual.name if sw is not None else "GOOD",
         "fc": int(max(0, getattr(sw, "_fixing_countdown", None) or 0)) if sw is not None else 0,
         "oc": int(max(0, getattr(sw, "restart_countdown", None) or getattr(sw, "install_countdown", None) or 0)) if sw is not None else 0}
    return d


def main(tier: str, seed: int) -> int:
    chk = common.Check("EXT-lifecycle", "model_checking", tier, seed)
    common.boot()
    run_facets(chk, ("svc", "app", "fs"), tier, seed)
    chk.assumptions += ["the component's timers are read as max(0, countdown) (the code lets a finished restart countdown run to -1)",
                        "target components: the dns-server service of host b, the web-browser application of host a and the file tourf/t.txt of host b of harness/tour.py's scenario"]
    return chk.finish()


def run_facets(chk: common.Check, facets, tier: str, seed: int) -> None:
    """Transition tours of the named facets of Lifecycle.tla through PrimaiteGymEnv, validated against LifecycleTrace.tla and
    judged with `chk` (also used by C13: timed transitions of software while its node is power-cycled with TIMED start-up
    and shut-down, which Software.tla's instantaneous power leaves out)."""
    from primaite.session.environment import PrimaiteGymEnv

    for facet in facets:
        g = tour.graph(facet)
        chk.add_mc(f"Lifecycle({facet})", g["tlc"])
        eps, st = tour.tour(g, random.Random(seed), episode_len=300, exact=(tier != "quick"))
        chk.cov[f"tour_{facet}"] = st
        cfg, idx = tour.scenario(facet)
        env = PrimaiteGymEnv(env_config=cfg)
        traces: List[Dict[str, Any]] = []
        for ei, ep in enumerate(eps):
            env.reset(seed=seed + ei)
            ev = []
            raised = None
            for a in ep:
                if a == "red-compromise":
                    tour.compromise(env.game, facet)
                try:
                    env.step(idx[a])
                except Exception as e:  # noqa
                    raised = repr(e)[:200]
                    break
                ev.append({"ev": "Step", "a": a, **project(env, facet)})
            traces.append({"cfg": {"facet": facet}, "ev": ev, "meta": {"facet": facet, "episode": ei, "raised": raised or ""},
                           "stimulus": {"facet": facet, "episode": ei, "actions": ep}})
            chk.add_case({"facet": facet, "episode": ei, "len": len(ep)}, nontrivial=True)
            if raised:
                chk.violation({"module": "Lifecycle", "facet": facet, "clause": "StepTotal", "exc": raised.split("(")[0]}, {"raised": raised})
        env.close()
        res = tlc.validate("LifecycleTrace", traces, cfg=f"LifecycleTrace_{facet}.cfg", chunk=8)
        common.judge_traces(chk, "Lifecycle", traces, res, lambda tr, e, stuck: {"facet": tr["meta"]["facet"], "action": e.get("a", "")},
                            selftest=None)
        # binding self-test: one logged field of an accepted trace flipped -> TLC must reject at that position
        import copy

        ok = [t for t, (r, n) in zip(traces, res["results"]) if r == n + 1 and n >= 10]
        muts = []
        for t, (field, val) in zip(ok[:3], (("op", "PAUSED" if facet != "fs" else "DELETED"), ("hs", "COMPROMISED" if facet != "fs" else "CORRUPT"), ("pw", "BOOT"))):
            m = copy.deepcopy(t)
            k = len(m["ev"]) // 2
            m["ev"][k][field] = val if m["ev"][k][field] != val else ("DISABLED" if field == "op" and facet != "fs" else "ABSENT" if field == "op" else "GOOD" if field == "hs" else "OFF")
            muts.append(m)
        if muts:
            mres = tlc.validate("LifecycleTrace", muts, cfg=f"LifecycleTrace_{facet}.cfg", chunk=8)
            rejected = sum(1 for (r, n) in mres["results"] if r != n + 1)
            chk.cov[f"selftest_{facet}"] = {"corrupted": len(muts), "rejected": rejected}
            if rejected != len(muts):
                raise tlc.TLCError(f"LifecycleTrace accepted a corrupted trace ({rejected}/{len(muts)} rejected)")
        chk.cov[f"events_{facet}"] = sum(len(t["ev"]) for t in traces)
        chk.sample({"facet": facet, "events": traces[0]["ev"][:5]})
