"""Trajectory worker: run one scenario with given seed / actions under an *ambient profile* and dump a
canonical, field-wise digest of every step.  Run as a subprocess (`python -m harness.traj spec.json out.json`)
so that the parent controls PYTHONHASHSEED and process identity (C03, C04, C20)."""
from __future__ import annotations

import copy
import hashlib
import json
import sys
from datetime import datetime
from typing import Any, Dict, List


def _h(x: Any) -> str:
    return hashlib.sha1(json.dumps(x, sort_keys=True, default=str).encode()).hexdigest()[:12]


def _plain(o: Any) -> Any:
    import numpy as np

    if isinstance(o, dict):
        return {str(k): _plain(v) for k, v in o.items()}
    if isinstance(o, (list, tuple)):
        return [_plain(v) for v in o]
    if isinstance(o, np.ndarray):
        return o.tolist()
    if isinstance(o, (np.integer,)):
        return int(o)
    if isinstance(o, (np.floating, float)):
        return round(float(o), 9)
    if isinstance(o, (set, frozenset)):
        return sorted(str(x) for x in o)
    if isinstance(o, (str, int, bool)) or o is None:
        return o
    return str(o)


def apply_profile(profile: Dict[str, Any]):
    """Install the ambient substitutes of this profile (deterministic stand-ins for wall clock and secrets)."""
    import secrets

    import primaite.simulator.network.transmission.data_link_layer as dll

    clock = profile.get("clock", "real")
    if clock != "real":
        us = 0 if clock == "us0" else 123456

        class _FixedClock(datetime):
            @classmethod
            def now(cls, tz=None):
                return datetime(2025, 1, 1, 12, 0, 0, us)

        dll.datetime = _FixedClock
    ids = profile.get("ids", "real")
    if ids != "real":
        orig = secrets.randbits
        val = 7 if ids == "short" else 60000
        secrets.randbits = lambda k: val if k in (15, 16) else orig(k)


def run(spec: Dict[str, Any]) -> Dict[str, Any]:
    from . import common, project, scenarios

    common.boot()
    apply_profile(spec.get("profile", {}))
    from primaite.session.environment import PrimaiteGymEnv
    from primaite.simulator import SIM_OUTPUT

    sc = spec["scenario"]
    if "shipped" in sc:
        cfg = scenarios.shipped(sc["shipped"])
    elif "dir" in sc:
        cfg = sc["dir"]
    else:
        cfg = sc["cfg"]
    logs_on = spec.get("profile", {}).get("logs", "off") == "on"
    if isinstance(cfg, dict):
        cfg = copy.deepcopy(cfg)
        io = cfg.setdefault("io_settings", {})
        for k in ("save_agent_actions", "save_step_metadata", "save_pcap_logs", "save_sys_logs", "save_agent_logs"):
            io[k] = logs_on
        if spec.get("max_len"):
            cfg.setdefault("game", {})["max_episode_length"] = spec["max_len"]
    pre = spec.get("profile", {}).get("prelude")
    if pre:
        # ambient history of the PROCESS: another scenario was built and run here before (the trajectory of a scenario
        # must not depend on what else its interpreter did earlier)
        pcfg = scenarios.shipped(pre) if isinstance(pre, str) else copy.deepcopy(pre)
        pio = pcfg.setdefault("io_settings", {})
        for k in ("save_agent_actions", "save_step_metadata", "save_pcap_logs", "save_sys_logs", "save_agent_logs"):
            pio[k] = False
        penv = PrimaiteGymEnv(env_config=pcfg)
        penv.reset(seed=5)
        for i in range(12):
            penv.step(i % penv.action_space.n)
        penv.close()
    env = PrimaiteGymEnv(env_config=cfg)
    if not logs_on:
        SIM_OUTPUT.save_pcap_logs = SIM_OUTPUT.save_sys_logs = SIM_OUTPUT.save_agent_logs = False
    canon = [project.Canon()]
    steps: List[Dict[str, Any]] = []
    raised = None

    def rec(kind, obs, reward=0.0, term=False, trunc=False):
        agents = {}
        for name, ag in env.game.agents.items():
            if ag.history:
                hi = ag.history[-1]
                agents[name] = {
                    "action": hi.action,
                    "params": _h(_plain(hi.parameters)),
                    "status": getattr(hi.response, "status", "none"),
                    "data": _h(canon[0].text(json.dumps(_plain(getattr(hi.response, "data", {})), sort_keys=True, default=str))),
                    "reward": _h(round(float(ag.reward_function.current_reward), 9)),
                }
            else:
                agents[name] = {"action": "-", "params": "-", "status": "-", "data": "-", "reward": "-"}
        d = {
            "kind": kind,
            "obs": _h(_plain(obs)),
            "reward": _h(round(float(reward), 9)),
            "flags": f"{bool(term)}{bool(trunc)}",
            "agents": agents,
        }
        if spec.get("state_digest"):
            d["state"] = project.digest(env.game.simulation, project.Canon())[:12]
        steps.append(d)

    try:
        for ep, acts in enumerate(spec["episodes"]):
            obs, info = env.reset(seed=spec["seed"] if spec.get("reseed_each", True) else (spec["seed"] if ep == 0 else None))
            canon[0] = project.Canon()  # opaque identifiers are numbered per episode
            rec("reset", obs)
            for a in acts:
                n = env.action_space.n
                obs, reward, term, trunc, info = env.step(int(a) % n)
                rec("step", obs, reward, term, trunc)
    except Exception as e:  # noqa - reported, the pair comparison will show it
        raised = repr(e)[:300]
    try:
        env.close()
    except Exception:  # noqa
        pass
    return {"steps": steps, "raised": raised, "n_actions": int(env.action_space.n), "agents": list(env.game.agents)}


def main():
    import pickle

    spec = pickle.load(open(sys.argv[1], "rb"))
    out = run(spec)
    json.dump(out, open(sys.argv[2], "w"))


if __name__ == "__main__":
    main()
