"""C17 - database: password-gated connections, connection-gated queries, restorable data.

Model: spec/Database.tla (MC_Database exhaustive: 2 clients, capacity 2, forged / closed / foreign ids).
Binding: TLC -simulate behaviours of the model are replayed step by step on a real network (two client
hosts, database server, backup host, one router port each - harness/rec_database.py); one event per spec
action is recorded at the return of the real call (wrappers on DatabaseClient / DatabaseService, see
rec_database) with the post-state read from the objects; TLC validates every trace against
DatabaseTrace.tla.
"""
from __future__ import annotations

import json
import random
from typing import Any, Dict, List, Optional

from . import common, tlc

PROP = "C17"
PWMAP = {"none": None, "A": "s3cret", "B": "wr0ng"}
OTHER_SQL = ["SELECT * FROM pg_stat_activity", "DROP TABLE users", "UPDATE"]
MC_ACTIONS = ("MConnect", "MQuery", "MDisconnect", "MUninstall", "MSvc", "MBackup", "MRestore", "MPower", "MBlock",
              "MBlockBk", "MTick", "MFs")
BK_BLOCKS = ("fwd", "rev", "fwd", "both")


def abstract_ops(beh: List[Dict[str, Any]]) -> List[List[Any]]:
    """The model's steps as operations [name, args...] with the binding variant still open (None)."""
    ops: List[List[Any]] = []
    for stp in beh[1:]:
        a = stp["state"]["act"]
        n = a["name"]
        if n == "Connect":
            ops.append(["connect", a["c"], a["pwd"], None])
        elif n == "Query":
            ops.append(["query", a["c"], int(a["id"]), a["q"], None, None])
        elif n == "Disconnect":
            ops.append(["disconnect", a["c"], int(a["id"])])
        elif n == "ClientUninstall":
            ops.append(["uninstall", a["c"]])
        elif n == "SvcReq":
            ops.append(["svc", a["kind"]])
        elif n == "Backup":
            ops.append(["backup"])
        elif n == "Restore":
            ops.append(["restore"])
        elif n == "Power":
            ops.append(["power", a["kind"], bool(a["on"])])
        elif n == "Block":
            ops.append(["block", a["c"], bool(a["on"])])
        elif n == "BlockBk":
            ops.append(["block_bk", bool(a["on"])])
        elif n == "Tick":
            ops.append(["tick"])
        elif n == "FsOp":
            ops.append(["fs", a["kind"], None])
    return ops


def run_ops(setup: Dict[str, Any], ops: List[List[Any]], rng: random.Random, meta: Optional[Dict[str, Any]] = None):
    """Execute operations on a fresh real network; open binding variants are chosen here (from the real
    state and ``rng``) and written back, so that the recorded stimulus replays deterministically."""
    from .rec_database import World

    dbpw = "" if setup.get("empty_pw") and setup["db_password"] is None else setup["db_password"]
    w = World(dbpw, setup["cap"], setup["fixing_duration"], setup["restart_duration"],
              setup["bots"], setup["bk_block"], meta)
    pwmap = dict(PWMAP)
    if setup.get("empty_pw"):
        pwmap["none"] = ""  # "no password" written as the empty string on both sides
    done = w.trace["stimulus"]["ops"]
    w.trace["stimulus"]["empty_pw"] = bool(setup.get("empty_pw"))
    try:
        for op in ops:
            op = list(op)
            k = op[0]
            if k == "connect":
                how = op[3] or rng.choice(["new", "new", "native", "execute"])
                op[3] = w.connect(op[1], pwmap.get(op[2], op[2]), how)
            elif k == "query":
                q = op[3]
                sql = op[4] if op[4] is not None else (q if q != "OTHER" else rng.choice(OTHER_SQL))
                how = op[5] or rng.choice(["auto", "auto", "auto", "raw", "bot" if setup["bots"] else "auto"])
                op[4] = sql
                op[5] = w.query(op[1], op[2], sql, how)
            elif k == "disconnect":
                w.disconnect(op[1], op[2])
            elif k == "uninstall":
                w.uninstall(op[1])
            elif k == "svc":
                w.svc(op[1])
            elif k == "backup":
                w.backup()
            elif k == "restore":
                w.restore()
            elif k == "power":
                w.power(op[1], op[2])
            elif k == "block":
                w.block(op[1], op[2])
            elif k == "block_bk":
                w.block_bk(op[1])
            elif k == "tick":
                w.tick()
            elif k == "fs":
                how = op[2] or rng.choice(["file", "file", "folder" if setup.get("folder_delete") else "file"])
                op[2] = w.fs(op[1], how)
            done.append(op)
    except Exception as e:  # noqa  - an exception out of repository code is an event no module allows
        done.append(op)
        w.raised(e)
    return w.close()


def sig_fn(tr, event, stuck):
    st = (stuck or {}).get("st") or {}
    sig: Dict[str, Any] = {"what": event.get("q") or event.get("kind") or "", "ok": bool(event.get("ok"))}
    if event.get("ev") in ("Restore", "Backup"):
        blocked = isinstance(st, dict) and st.get("bkPath") is False
        sig["bk_block"] = tr["meta"].get("bk_block") if blocked else ""
        before = st.get("file") if isinstance(st, dict) else None
        sig["effect"] = "file_lost" if event.get("file") == "absent" and before != "absent" else (
            "file_replaced" if event.get("ok") else "none")
    if event.get("ev") == "Raised":
        sig["exception"] = (tr["meta"].get("exception") or "")[:120]
    return sig


def _mc(chk, tier: str):
    # the exhaustive run (coverage statistics off: they double the run time) ...
    r = tlc.mc("MC_Database", timeout=900, coverage=False)
    if not r["ok"]:
        chk.violation({"module": "MC_Database", "clause": str(r["violation"])}, {"tlc": r["output_tail"]})
    # ... and the per-action coverage of the same model at a smaller depth (an action taken within 4 steps
    # is taken within 7)
    rc = tlc.mc("MC_Database", cfg="MC_DatabaseCov.cfg", timeout=600)
    if not rc["ok"]:
        chk.violation({"module": "MC_DatabaseCov", "clause": str(rc["violation"])}, {"tlc": rc["output_tail"]})
    r["coverage"] = rc["coverage"]
    chk.add_mc("MC_Database(2 clients, Cap=2, 3 ids + forged, depth 7; action counts from the depth-4 run)", r)
    chk.cov["states"] += rc.get("distinct", 0)
    chk.cov["transitions"] += rc.get("states", 0)
    for act in MC_ACTIONS:
        if rc["coverage"].get(act, (0, 0))[1] == 0:
            raise tlc.TLCError(f"vacuous model: action {act} never taken")
    if tier == "thorough":
        # the complete state space (no depth bound) for 2 ids + forged, capacities 1 and 2
        r2 = tlc.mc("MC_Database", cfg="MC_DatabaseFull.cfg", timeout=2400, coverage=False)
        if not r2["ok"]:
            chk.violation({"module": "MC_DatabaseFull", "clause": str(r2["violation"])}, {"tlc": r2["output_tail"]})
        chk.add_mc("MC_DatabaseFull(2 clients, Cap in {1,2}, 2 ids + forged, complete)", r2)


def setups(i: int, s0: Dict[str, Any], tier: str, rng: random.Random) -> Dict[str, Any]:
    """Configuration of the i-th run: password and capacity come from the model's initial state, the rest
    cycles so that every variant occurs with and without the others (a divergence in one variant - e.g.
    the reverse block of the backup path - leaves the other variants' traces fully examined)."""
    thorough = tier == "thorough"
    return {
        "db_password": PWMAP[s0["pw"]],
        "cap": int(s0["Cap"]),
        "fixing_duration": 1 + (i // 4) % 2,
        "restart_duration": (i // 8) % 3,
        "bots": thorough and (i % 3 == 2),
        "bk_block": BK_BLOCKS[i % 4],
        "empty_pw": thorough and s0["pw"] == "none" and (i % 5 == 0),
        "folder_delete": (i % 2 == 1),
    }


def main(tier: str, seed: int) -> int:
    chk = common.Check(PROP, "model_checking", tier, seed)
    rng = random.Random(seed)
    _mc(chk, tier)
    nbeh = 300 if tier == "quick" else 2000
    depth = 30 if tier == "quick" else 40
    behs, info = tlc.simulate("MC_Database", cfg="MC_DatabaseSim.cfg", num=nbeh, depth=depth, seed=seed + 17,
                              timeout=1200)
    chk.cov["transitions"] += info["states"]
    common.boot()
    from . import rec_database

    rec_database.install()
    traces = []
    for i, beh in enumerate(behs):
        s0 = beh[0]["state"]
        st = setups(i, s0, tier, rng)
        ops = abstract_ops(beh)
        tr = run_ops(st, ops, rng, meta={"behaviour": i})
        traces.append(tr)
        evs = [e["ev"] for e in tr["ev"]]
        chk.add_case({"setup": st, "ops": tr["stimulus"]["ops"]},
                     nontrivial=any(e["ev"] == "Query" and e["ran"] for e in tr["ev"]) or "Restore" in evs)
    res = tlc.validate("DatabaseTrace", traces)
    common.judge_traces(chk, "Database", traces, res, sig_fn)
    # observations that are not violations of the statement (reported in the evidence only)
    obs = {"select_ok_on_corrupt": 0, "connect_refused_overwhelmed": 0, "second_backup_refused": 0}
    for tr in traces:
        prev = tr["cfg"]["init"]
        for e in tr["ev"]:
            if e["ev"] == "Query" and e["q"] == "SELECT" and e["ok"] and prev["file"] == "CORRUPT":
                obs["select_ok_on_corrupt"] += 1
            if e["ev"] == "Connect" and not e["ok"] and prev["health"] == "OVERWHELMED" and len(prev["conns"]) < tr["cfg"]["cap"]:
                obs["connect_refused_overwhelmed"] += 1
            if e["ev"] == "Backup" and not e["ok"] and prev["backup"] != "none" and prev["op"] == "RUNNING" \
                    and prev["srvOn"] and prev["bkOn"] and prev["bkPath"] and prev["file"] != "absent":
                obs["second_backup_refused"] += 1
            prev = e
    chk.cov["observations_not_violations"] = obs
    for tr in traces[:2]:
        chk.sample({"cfg": tr["cfg"], "meta": tr["meta"], "events": tr["ev"][:8]})
    chk.assumptions += [
        "TLC and the CommunityModules; wrappers on DatabaseClient.get_new_connection/_query/_disconnect and "
        "DatabaseService.backup_database/restore_backup/_process_connect/_process_sql (harness process only)",
        "connection ids are canonicalised in order of first appearance in the service's table / a client's handles; "
        "an id never seen is the forged id 0",
        "'path blocked' for a client = a DENY rule for its source address on the router; for the backup path = a DENY "
        "rule db->bk (fwd), bk->db (rev) or both; links are 100000 Mbit wide so that transfers never saturate them",
        "a successful SELECT on CORRUPT (encrypted) data is not counted against C17: the statement speaks of "
        "compromised data only (counted under observations_not_violations)",
    ]
    return chk.finish()


def replay(path: str) -> int:
    """Re-execute the stimulus of a replay file and print the first event TLC cannot explain."""
    common.boot()
    from . import rec_database

    rec_database.install()
    doc = json.loads(open(path).read())
    stim = doc["detail"]["stimulus"]
    setup = {k: stim.get(k) for k in ("db_password", "cap", "fixing_duration", "restart_duration", "bots", "bk_block",
                                      "empty_pw")}
    tr = run_ops(setup, stim["ops"], random.Random(0), meta=doc["detail"].get("meta"))
    res = tlc.validate("DatabaseTrace", [tr])
    reached, length = res["results"][0]
    if reached == length + 1:
        print(f"replay: all {length} events accepted")
        return 0
    st = res["stuck"][0] or {}
    print(f"replay: event {reached}/{length} not explained; failing clauses: {st.get('fail')}")
    print("  spec state before:", json.dumps(st.get("st"), default=str))
    print("  event:", json.dumps(tr["ev"][reached - 1], default=str))
    return 1
