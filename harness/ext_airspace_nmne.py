"""Extension (beyond the listed properties): the wireless air space and the NMNE capture of network interfaces
against spec/AirNmne.tla.

(a) MC_AirNmne is checked exhaustively (and the as-coded access point variant must be refuted);
(b) behaviours of `tlc -simulate` (MC_AirNmneSim.cfg) are replayed as stimulus into a real PrimaiteGame with three
    wireless routers in one air space: hand-built frames are sent through the access points (replies are sent by a
    receiver while the first frame is still on the air), interfaces are enabled / disabled and nodes powered through
    requests, access points are re-tuned through the Python API, timesteps and episode set-ups are applied;
(c) one event per spec action is recorded with the projected post-state read from the real objects;
(d) TLC validates the recorded traces against AirNmneTrace.tla;
(e) scenario-scale: the shipped data_manipulation scenario stepped through PrimaiteGymEnv (NMNE of every wired
    interface, one trace per interface) and the wireless WAN network (test asset, the only scenario with an air space)
    with pings and database queries crossing the air.
Run: ./check EXT-airspace_nmne"""
from __future__ import annotations

import contextlib
import copy
import io
import random
from typing import Any, Dict, List, Optional

from . import common, scenarios, tlc, tracer

PROP = "EXT-airspace_nmne"
UNIT = 131072.0  # bytes per "Mbit" as the simulator converts
U = 1000  # bytes of one abstract size unit of the model
FREQ_NAMES = ["WIFI_2_4", "WIFI_5"]
KW = {"k": "DELETE", "s": "SELECT"}
CAND = ["DELETE", "SELECT", "ENCRYPT", "INSERT", "UPDATE", "DROP"]
NOBODY = "02:00:00:00:00:99"
BCAST = "ff:ff:ff:ff:ff:ff"
MC_ACTIONS = ("MTick", "MBegin", "MDrop", "MDeliver", "MEnd", "MSetEnabled", "MPower", "MRetune", "MDescribe", "MNewEpisode")
EVENTS = ("Tick", "Drop", "Begin", "Deliver", "End", "SetEnabled", "Power", "Retune", "Describe", "NewEpisode",
          "WiredOut", "WiredIn")
ZFR = {"sz": 0, "src": "", "dst": "", "proto": "", "sport": 0, "dport": 0, "kw": []}


def _b(mbits: float) -> int:
    return min(2**30 - 1, int(round(mbits * UNIT)))


def _quiet():
    return contextlib.redirect_stdout(io.StringIO())


# ---------------------------------------------------------------------------------------------------------
# projection of the real objects
# ---------------------------------------------------------------------------------------------------------


def by_of(cfg) -> Dict[str, bool]:
    return {"dir": bool(cfg.capture_by_direction), "ip": bool(cfg.capture_by_ip_address),
            "proto": bool(cfg.capture_by_protocol), "port": bool(cfg.capture_by_port), "kw": bool(cfg.capture_by_keyword)}


def rows_of(nmne: Any, by: Dict[str, bool]) -> List[Dict[str, Any]]:
    """Flatten the nested NMNE dict of an interface into rows [dir, ip, proto, port, kw, n].  Anything that does
    not have the documented shape becomes a row TLC cannot accept."""
    rows: List[Dict[str, Any]] = []
    bad = {"dir": "?malformed", "ip": "", "proto": "", "port": 0, "kw": "", "n": 1}
    levels = [("direction", "dir"), ("ip_address", "ip"), ("protocol", "proto"), ("port", "port")]

    def walk(d, li, ctx):
        if not isinstance(d, dict):
            rows.append(dict(bad))
            return
        if li == len(levels):
            if set(d) - {"keywords"}:
                rows.append(dict(bad))
                return
            for kw, n in (d.get("keywords") or {}).items():
                if not isinstance(n, int) or isinstance(n, bool):
                    rows.append(dict(bad))
                    continue
                rows.append({**ctx, "kw": str(kw), "n": int(n)})
            return
        name, fld = levels[li]
        if not by[fld]:
            walk(d, li + 1, ctx)
            return
        if not d:
            return
        if set(d) != {name}:
            rows.append(dict(bad))
            return
        for k, sub in d[name].items():
            if fld == "port":
                v: Any = 0 if k is None else int(k)
            else:
                v = getattr(k, "value", k)
                v = str(v)
            walk(sub, li + 1, {**ctx, fld: v})

    walk(nmne, 0, {"dir": "", "ip": "", "proto": "", "port": 0})
    return sorted(rows, key=lambda r: (r["dir"], r["ip"], r["proto"], r["port"], r["kw"]))


def abs_frame(frame, cand: List[str]) -> Dict[str, Any]:
    s = str(frame.payload)
    sport = dport = 0
    if frame.tcp:
        sport, dport = frame.tcp.src_port, frame.tcp.dst_port
    elif frame.udp:
        sport, dport = frame.udp.src_port, frame.udp.dst_port
    proto = getattr(frame.ip.protocol, "value", frame.ip.protocol)
    return {"sz": int(round(frame.size)), "src": str(frame.ip.src_ip_address), "dst": str(frame.ip.dst_ip_address),
            "proto": str(proto), "sport": int(sport or 0), "dport": int(dport or 0), "kw": sorted(k for k in cand if k in s)}


# ---------------------------------------------------------------------------------------------------------
# recorder
# ---------------------------------------------------------------------------------------------------------


class Recorder:
    """One trace per registered air space (all its access points) and, when `wired_on`, one trace per wired
    interface (NMNE only)."""

    def __init__(self):
        self.air: Dict[int, Dict[str, Any]] = {}
        self.wired: Dict[int, Dict[str, Any]] = {}
        self.wired_order: List[int] = []
        self.wired_on = False
        self.tx: List[Dict[str, Any]] = []  # wireless sends in progress
        self.rx: List[Dict[str, Any]] = []  # interface-level receptions in progress
        self.on_delivered = None
        self.cand = list(CAND)
        self.keep: List[Any] = []

    # -- air space traces
    def register_air(self, airspace, ifs, cap_bytes: List[int], meta=None):
        from primaite.simulator.network.hardware.base import NetworkInterface

        ncfg = NetworkInterface.nmne_config
        A = {"air": airspace, "ifs": list(ifs), "idx": {id(w): i + 1 for i, w in enumerate(ifs)},
             "hz": [airspace.frequencies[n].frequency_hz for n in FREQ_NAMES], "by": by_of(ncfg)}
        A["fidx"] = {hz: k + 1 for k, hz in enumerate(A["hz"])}
        s = self._asnap(A)
        A["trace"] = {
            "cfg": {"n": len(ifs), "wl": [True] * len(ifs), "cap": list(cap_bytes), "capture": bool(ncfg.capture_nmne),
                    "kws": list(ncfg.nmne_capture_keywords), "by": A["by"], "on": s["on"], "en": s["en"], "fq": s["fq"]},
            "ev": [], "meta": dict(meta or {}, kind="air"),
        }
        self.air[id(airspace)] = A
        self.keep.append(airspace)
        return A

    def _asnap(self, A):
        from primaite.simulator.network.hardware.node_operating_state import NodeOperatingState

        air = A["air"]
        return {
            "load": [_b(air.bandwidth_load.get(hz, 0.0)) for hz in A["hz"]],
            "en": [bool(w.enabled) for w in A["ifs"]],
            "on": [w._connected_node.operating_state == NodeOperatingState.ON for w in A["ifs"]],
            "fq": [A["fidx"].get(w.frequency.frequency_hz, 0) for w in A["ifs"]],
            "nm": [rows_of(w.nmne, A["by"]) for w in A["ifs"]],
        }

    def aev(self, A, kind, **kw):
        e = {"ev": kind, "i": 0, "fr": dict(ZFR), "acc": False, "want": False, "ok": False, "f": 0, "has": False, "rep": []}
        e.update(self._asnap(A))
        e.update(kw)
        A["trace"]["ev"].append(e)
        return e

    def air_of(self, iface):
        a = getattr(iface, "airspace", None)
        return self.air.get(id(a)) if a is not None else None

    # -- wired traces
    def wired_of(self, iface, create=True):
        from primaite.simulator.network.hardware.base import NetworkInterface

        W = self.wired.get(id(iface))
        if W is None and create:
            ncfg = NetworkInterface.nmne_config
            node = iface._connected_node
            W = {"iface": iface, "by": by_of(ncfg)}
            W["trace"] = {
                "cfg": {"n": 1, "wl": [False], "cap": [], "capture": bool(ncfg.capture_nmne),
                        "kws": list(ncfg.nmne_capture_keywords), "by": W["by"], "on": [True], "en": [True], "fq": [0]},
                "ev": [],
                "meta": {"kind": "wired", "iface_class": type(iface).__name__,
                         "node": getattr(getattr(node, "config", None), "hostname", "?"), "port": iface.port_num},
            }
            self.wired[id(iface)] = W
            self.wired_order.append(id(iface))
            self.keep.append(iface)
        return W

    def wev(self, iface, kind, **kw):
        if not self.wired_on:
            return
        W = self.wired_of(iface)
        e = {"ev": kind, "i": 1, "fr": dict(ZFR), "acc": False, "want": False, "ok": False, "f": 0, "has": False, "rep": [],
             "load": [], "en": [True], "on": [True], "fq": [0], "nm": [rows_of(iface.nmne, W["by"])]}
        e.update(kw)
        W["trace"]["ev"].append(e)

    # -- installation
    def install(self):
        from primaite.simulator.network.airspace import AirSpace, WirelessNetworkInterface
        from primaite.simulator.network.hardware.base import Link, Node
        from primaite.simulator.network.hardware.nodes.host.host_node import HostNode, NIC
        from primaite.simulator.network.hardware.nodes.network.firewall import Firewall
        from primaite.simulator.network.hardware.nodes.network.router import Router, RouterInterface
        from primaite.simulator.network.hardware.nodes.network.switch import Switch, SwitchPort
        from primaite.simulator.network.hardware.nodes.network.wireless_router import WirelessAccessPoint

        rec = self

        def flush(tok):
            if tok.get("pending"):
                tok["pending"] = False
                tok["began"] = True
                rec.aev(tok["A"], "Begin", i=tok["A"]["idx"].get(id(tok["iface"]), 0), fr=tok["fr"])

        # --- wireless send: WirelessNetworkInterface.send_frame -> AirSpace.can_transmit_frame / transmit
        def _frame(a, k, pos=0):
            return k.get("frame", a[pos] if len(a) > pos else None)

        def before_wsend(iface, *a, **k):
            frame = _frame(a, k)
            tok = {"iface": iface, "frame": frame, "A": rec.air_of(iface), "began": False, "pending": False, "fr": None}
            rec.tx.append(tok)
            return tok

        def after_wsend(iface, tok, ret, exc, *a, **k):
            frame = _frame(a, k)
            if rec.tx and rec.tx[-1] is tok:
                rec.tx.pop()
            A = tok["A"]
            if A is None:
                return
            i = A["idx"].get(id(iface), 0)
            if exc is not None:
                rec.aev(A, "Raised", i=i)
            elif tok["began"] or tok["pending"]:
                flush(tok)
                rec.aev(A, "End", i=i, ok=bool(ret))
            else:
                rec.aev(A, "Drop", i=i, fr=abs_frame(frame, rec.cand), ok=bool(ret))

        def before_transmit(air, *a, **k):
            frame = _frame(a, k)
            if rec.tx and rec.tx[-1]["frame"] is frame and rec.tx[-1]["A"] is not None:
                tok = rec.tx[-1]
                tok["pending"] = True  # the Begin event is taken once the size is on the frequency
                tok["fr"] = abs_frame(frame, rec.cand)

        def after_transmit(air, tok_, ret, exc, *a, **k):
            frame = _frame(a, k)
            if rec.tx and rec.tx[-1]["frame"] is frame:
                flush(rec.tx[-1])

        # --- reception at an interface, acceptance by its node
        def before_recv(kind):
            def hook(iface, *a, **k):
                frame = _frame(a, k)
                if kind == "air" and rec.tx:
                    flush(rec.tx[-1])
                t = {"iface": iface, "frame": frame, "emitted": False, "enabled": bool(iface.enabled), "kind": kind}
                rec.rx.append(t)
                return t

            return hook

        def emit_recv(t, acc):
            t["emitted"] = True
            iface, frame = t["iface"], t["frame"]
            if t["kind"] == "air":
                A = rec.air_of(iface)
                if A is None:
                    return
                fr = None
                if rec.tx and rec.tx[-1]["frame"] is frame:
                    fr = rec.tx[-1]["fr"]
                rec.aev(A, "Deliver", i=A["idx"].get(id(iface), 0), fr=fr or abs_frame(frame, rec.cand), acc=acc)
            elif t["enabled"]:
                rec.wev(iface, "WiredIn", fr=abs_frame(frame, rec.cand), acc=acc)

        def after_recv(iface, t, ret, exc, *a, **k):
            frame = _frame(a, k)
            if rec.rx and rec.rx[-1] is t:
                rec.rx.pop()
            if not t["emitted"]:
                emit_recv(t, False)
            if exc is not None and t["kind"] == "air" and rec.air_of(iface) is not None:
                rec.aev(rec.air_of(iface), "Raised")
            if t["kind"] == "air" and rec.on_delivered is not None and exc is None:
                rec.on_delivered(iface, frame)

        def before_node_recv(node, *a, **k):
            frame = k.get("frame", a[0] if a else None)
            nic = k.get("from_network_interface", a[1] if len(a) > 1 else None)
            if rec.rx:
                t = rec.rx[-1]
                if t["iface"] is nic and t["frame"] is frame and not t["emitted"]:
                    emit_recv(t, True)

        def before_link_tx(link, *a, **k):
            nic = k.get("sender_nic", a[0] if a else None)
            frame = k.get("frame", a[1] if len(a) > 1 else None)
            if nic is not None and frame is not None:
                rec.wev(nic, "WiredOut", fr=abs_frame(frame, rec.cand))

        def after_reset(air, tok, ret, exc):
            A = rec.air.get(id(air))
            if A is not None:
                rec.aev(A, "Tick")

        tracer.wrap(WirelessNetworkInterface, "send_frame", before=before_wsend, after=after_wsend)
        tracer.wrap(AirSpace, "transmit", before=before_transmit, after=after_transmit)
        tracer.wrap(AirSpace, "reset_bandwidth_load", after=after_reset)
        tracer.wrap(WirelessAccessPoint, "receive_frame", before=before_recv("air"), after=after_recv)
        for cls in (NIC, RouterInterface, SwitchPort):
            tracer.wrap(cls, "receive_frame", before=before_recv("wired"), after=after_recv)
        for cls in (Node, HostNode, Router, Switch, Firewall):
            if "receive_frame" in cls.__dict__:
                tracer.wrap(cls, "receive_frame", before=before_node_recv)
        tracer.wrap(Link, "transmit_frame", before=before_link_tx)

    def describe_wired(self, net):
        """describe_state of every interface of the network that has a trace."""
        for node in net.nodes.values():
            for iface in node.network_interface.values():
                W = self.wired.get(id(iface))
                if W is None:
                    continue
                st = iface.describe_state()
                self.wev(iface, "Describe", has="nmne" in st, rep=rows_of(st.get("nmne", {}), W["by"]))

    def take(self, stimulus=None) -> List[Dict[str, Any]]:
        out = []
        for A in self.air.values():
            tr = A["trace"]
            tr["stimulus"] = stimulus
            out.append(tr)
        for k in self.wired_order:
            tr = self.wired[k]["trace"]
            if tr["ev"]:
                tr["stimulus"] = stimulus
                out.append(tr)
        self.air, self.wired, self.wired_order, self.keep = {}, {}, [], []
        self.tx, self.rx = [], []
        self.on_delivered = None
        return out


# ---------------------------------------------------------------------------------------------------------
# the rig: three wireless routers in one air space
# ---------------------------------------------------------------------------------------------------------


def rig_cfg(cap_units: List[int], capture: bool, kws: List[str], by: Dict[str, bool], fq0: List[int]) -> Dict[str, Any]:
    nodes = []
    for i, f in enumerate(fq0, start=1):
        nodes.append({
            "type": "wireless-router", "hostname": f"r{i}", "start_up_duration": 0, "shut_down_duration": 0,
            "router_interface": {"ip_address": f"192.168.{10 + i}.1", "subnet_mask": "255.255.255.0"},
            "wireless_access_point": {"ip_address": f"192.168.1.{i}", "subnet_mask": "255.255.255.0",
                                      "frequency": FREQ_NAMES[f - 1]},
            "acl": {1: {"action": "PERMIT"}},
        })
    return scenarios.base_cfg(
        nodes, [],
        airspace={"frequency_max_capacity_mbps": {FREQ_NAMES[k]: (c * U) / UNIT for k, c in enumerate(cap_units)}},
        nmne_config={"capture_nmne": capture, "nmne_capture_keywords": [KW[k] for k in kws],
                     "capture_by_direction": by["dir"], "capture_by_ip_address": by["ip"],
                     "capture_by_protocol": by["proto"], "capture_by_port": by["port"], "capture_by_keyword": by["kw"]},
    )


def make_frame(src_if, dst_mac: str, size: int, word: str, dst_ip: str = "10.99.0.9", sport: int = 5432, dport: int = 80):
    from primaite.simulator.network.transmission.data_link_layer import EthernetHeader, Frame
    from primaite.simulator.network.transmission.network_layer import IPPacket
    from primaite.simulator.network.transmission.transport_layer import TCPHeader

    f = Frame(ethernet=EthernetHeader(src_mac_addr=src_if.mac_address, dst_mac_addr=dst_mac),
              ip=IPPacket(src_ip_address=str(src_if.ip_address), dst_ip_address=dst_ip, protocol="tcp"),
              tcp=TCPHeader(src_port=sport, dst_port=dport), payload=word + " ")
    pad = size - int(f.size)
    if pad < 0:
        raise RuntimeError(f"frame of {f.size} bytes does not fit the model's size unit {size}")
    f.payload = word + " " + "x" * pad
    if int(f.size) != size:
        raise RuntimeError("frame padding failed")
    return f


def ops_of(beh: List[Dict[str, Any]]) -> List[Any]:
    """The stimulus of a TLC behaviour: top-level operations; a send carries the replies that the model sent while
    it was on the air (nest > 0), attached to the frame they answer."""
    ops: List[Any] = []
    open_: List[Dict[str, Any]] = []  # sends of the behaviour that are on the air, outermost first
    for st in beh[1:]:
        a = st["state"]["act"]
        k = a["a"]
        if k == "Send":
            node = {"op": "send", "i": a["i"], "sz": a["sz"], "mal": bool(a["mal"]), "to": a["to"], "replies": []}
            nest = a["nest"]
            if nest == 0 or nest > len(open_):
                ops.append(node)
            else:
                open_[nest - 1]["replies"].append(node)
            if st["action"] == "MBegin":
                del open_[nest:]
                open_.append(node)
        elif k == "End":
            if open_:
                open_.pop()
        elif k == "Tick":
            ops.append({"op": "tick"})
        elif k == "SetEnabled":
            ops.append({"op": "set", "i": a["i"], "want": bool(a["want"])})
        elif k == "Power":
            ops.append({"op": "power", "i": a["i"], "want": bool(a["want"])})
        elif k == "Retune":
            ops.append({"op": "retune", "i": a["i"], "f": a["f"]})
        elif k == "Describe":
            ops.append({"op": "describe", "i": a["i"]})
        elif k == "NewEpisode":
            ops.append({"op": "episode"})
    return ops


def run_rig(rec: Recorder, conf: Dict[str, Any], ops: List[Any], avoid: bool) -> Dict[str, Any]:
    """Replay operations on a fresh three-router game; returns the air-space trace."""
    from primaite.simulator.network.airspace import AirSpaceFrequency

    cfg = rig_cfg(conf["cap"], conf["capture"], conf["kws"], conf["by"], conf["fq"])
    with _quiet():
        game = scenarios.build(cfg)
    net = game.simulation.network
    routers = [net.get_node_by_hostname(f"r{i}") for i in range(1, len(conf["fq"]) + 1)]
    waps = [r.wireless_access_point for r in routers]
    A = rec.register_air(net.airspace, waps, [c * U for c in conf["cap"]],
                         meta={"variant": "avoid" if avoid else "asis", "conf": conf})
    plan: Dict[int, Dict[int, List[Any]]] = {}
    episode = [0]

    def word_of(node):
        return KW["k"] if node["mal"] else KW["s"]

    def send(node):
        src = waps[node["i"] - 1]
        if node["to"] == 0:
            mac = BCAST
        else:
            mac = waps[node["to"] - 1].mac_address
        if avoid and word_of(node) in A["trace"]["cfg"]["kws"]:
            mac = NOBODY  # keep away from the access point's missing inbound capture: nobody takes this frame
        f = make_frame(src, mac, node["sz"] * U, word_of(node))
        rec.keep.append(f)
        if node["replies"]:
            by_sender: Dict[int, List[Any]] = {}
            for r in node["replies"]:
                by_sender.setdefault(r["i"], []).append(r)
            plan[id(f)] = by_sender
        src.send_frame(f)

    def on_delivered(iface, frame):
        todo = plan.get(id(frame))
        if not todo:
            return
        j = A["idx"].get(id(iface))
        for r in todo.pop(j, []):
            send(r)

    rec.on_delivered = on_delivered
    for op in ops:
        k = op["op"]
        try:
            if k == "send":
                send(op)
            elif k == "tick":
                game.pre_timestep()
                game.advance_timestep()
            elif k == "set":
                resp = game.simulation.apply_request(
                    ["network", "node", f"r{op['i']}", "network_interface", 1, "enable" if op["want"] else "disable"])
                rec.aev(A, "SetEnabled", i=op["i"], want=op["want"], ok=resp.status == "success")
            elif k == "power":
                resp = game.simulation.apply_request(["network", "node", f"r{op['i']}", "startup" if op["want"] else "shutdown"])
                rec.aev(A, "Power", i=op["i"], want=op["want"], ok=resp.status == "success")
            elif k == "retune":
                w = waps[op["i"] - 1]
                routers[op["i"] - 1].configure_wireless_access_point(
                    ip_address=str(w.ip_address), subnet_mask=str(w.subnet_mask),
                    frequency=AirSpaceFrequency._registry[FREQ_NAMES[op["f"] - 1]])
                rec.aev(A, "Retune", i=op["i"], f=op["f"])
            elif k == "describe":
                st = waps[op["i"] - 1].describe_state()
                rec.aev(A, "Describe", i=op["i"], has="nmne" in st, rep=rows_of(st.get("nmne", {}), A["by"]))
            elif k == "episode":
                episode[0] += 1
                game.setup_for_episode(episode[0])
                rec.aev(A, "NewEpisode")
        except Exception as ex:  # an exception of repository code is an event no action allows
            rec.aev(A, "Raised", i=op.get("i", 0))
            A["trace"]["meta"]["raised"] = repr(ex)[:300]
            rec.tx, rec.rx = [], []
            break
    tr = rec.take(stimulus={"conf": conf, "ops": ops, "avoid": avoid})[0]
    return tr


def conf_of(state: Dict[str, Any]) -> Dict[str, Any]:
    kws = state["kws"]["__set__"] if isinstance(state["kws"], dict) else list(state["kws"])
    return {"cap": list(state["cap"]), "capture": bool(state["capture"]), "kws": sorted(kws),
            "by": {k: bool(v) for k, v in state["by"].items()}, "fq": list(state["freq"])}


def directed() -> List[Any]:
    """Directed stimulus in the model's alphabet that random simulation reaches rarely (validated like the rest)."""
    FULL = {"dir": True, "ip": True, "proto": True, "port": True, "kw": True}
    DFLT = {"dir": True, "ip": False, "proto": False, "port": False, "kw": False}

    def S(i, sz, mal, to, replies=()):
        return {"op": "send", "i": i, "sz": sz, "mal": mal, "to": to, "replies": list(replies)}

    T = {"op": "tick"}
    out = []
    # capacity to the byte over several timesteps, both frequencies, a frequency with no capacity at all
    out.append(({"cap": [3, 0], "capture": True, "kws": ["k"], "by": DFLT, "fq": [1, 1, 2]},
                [S(1, 2, False, 0), S(2, 1, False, 0), S(1, 1, False, 0), S(3, 1, False, 0), T, S(3, 1, True, 0), S(2, 2, True, 0),
                 S(1, 2, False, 2), T, S(1, 1, False, 0), {"op": "retune", "i": 3, "f": 1}, S(3, 1, False, 0), S(3, 1, False, 0),
                 S(3, 1, False, 0), T, S(3, 2, False, 1)]))
    # two keywords, every dimension of the key, describe_state, an episode boundary
    out.append(({"cap": [5, 5], "capture": True, "kws": ["k", "s"], "by": FULL, "fq": [1, 1, 1]},
                [S(1, 1, True, 2), {"op": "describe", "i": 1}, S(2, 1, False, 0), S(3, 1, True, 1), {"op": "describe", "i": 2},
                 {"op": "describe", "i": 3}, T, S(1, 1, True, 2), {"op": "describe", "i": 1}, {"op": "episode"},
                 {"op": "describe", "i": 1}, S(1, 1, True, 0), {"op": "describe", "i": 1}]))
    # power and enable / disable around sends; a powered-off node cannot be enabled; replies on the air
    out.append(({"cap": [4, 2], "capture": True, "kws": ["k"], "by": DFLT, "fq": [1, 1, 1]},
                [{"op": "power", "i": 2, "want": False}, S(1, 1, False, 0), S(2, 1, False, 0), {"op": "set", "i": 2, "want": True},
                 {"op": "power", "i": 2, "want": True}, S(1, 1, False, 0, [S(2, 1, False, 0, [S(3, 1, False, 0)]), S(3, 1, False, 0)]),
                 {"op": "set", "i": 3, "want": False}, T, S(1, 1, True, 0, [S(2, 1, True, 0)]), {"op": "set", "i": 3, "want": False},
                 {"op": "set", "i": 3, "want": True}, {"op": "retune", "i": 1, "f": 2}, S(1, 1, False, 0), S(1, 2, False, 0),
                 {"op": "power", "i": 1, "want": False}, {"op": "retune", "i": 1, "f": 1}, {"op": "episode"},
                 {"op": "power", "i": 1, "want": True}, S(1, 1, False, 0)]))
    # capture off / no keywords
    out.append(({"cap": [4, 4], "capture": False, "kws": ["k"], "by": DFLT, "fq": [1, 1, 1]},
                [S(1, 1, True, 0), {"op": "describe", "i": 1}, {"op": "describe", "i": 2}, T, S(2, 2, True, 1)]))
    out.append(({"cap": [4, 4], "capture": True, "kws": [], "by": FULL, "fq": [1, 1, 1]},
                [S(1, 1, True, 0), {"op": "describe", "i": 1}, {"op": "describe", "i": 2}, {"op": "episode"}, S(2, 2, True, 1)]))
    return out


# ---------------------------------------------------------------------------------------------------------
# scenario scale
# ---------------------------------------------------------------------------------------------------------


def run_shipped(rec: Recorder, name: str, steps: int, rng: random.Random, random_actions: bool) -> List[Dict[str, Any]]:
    """A shipped scenario stepped through the real environment; NMNE of every wired interface."""
    from primaite.session.environment import PrimaiteGymEnv

    cfg = scenarios.shipped(name)
    rec.wired_on = True
    try:
        with _quiet():
            env = PrimaiteGymEnv(env_config=copy.deepcopy(cfg))
            env.reset(seed=rng.randrange(10**6))
        rec.take()  # reset() built the game again: the interfaces of the first game are gone
        rec.wired_on = True
        net = env.game.simulation.network
        n = env.action_space.n
        acts = []
        for s in range(steps):
            a = rng.randrange(n) if random_actions else 0
            acts.append(a)
            env.step(a)
            if s % 4 == 3:
                rec.describe_wired(net)
        rec.describe_wired(net)
        env.close()
    finally:
        rec.wired_on = False
    return rec.take(stimulus={"scenario": name, "actions": acts})


def wan_cfg(capture: bool, kws: List[str], cap_bytes: Optional[int]) -> Dict[str, Any]:
    cfg = scenarios.test_asset("wireless_wan_network_config.yaml")
    netc = cfg["simulation"]["network"]
    netc["nmne_config"] = {"capture_nmne": capture, "nmne_capture_keywords": kws}
    cap = cap_bytes if cap_bytes is not None else 12_500_000
    netc["airspace"] = {"frequency_max_capacity_mbps": {"WIFI_2_4": cap / UNIT, "WIFI_5": cap / UNIT}}
    for nd in netc["nodes"]:
        if nd["hostname"] == "pc_a":
            nd["applications"] = [{"type": "database-client", "options": {"db_server_ip": "192.168.2.2"}}]
        if nd["hostname"] == "pc_b":
            nd["services"] = [{"type": "database-service"}]
        if nd["type"] == "wireless-router":
            nd["shut_down_duration"] = 0
    return cfg, cap


def run_wan(rec: Recorder, label: str, queries: List[str], cap_bytes: Optional[int], rng: random.Random) -> List[Dict[str, Any]]:
    """The wireless WAN network: pc_a -- router_1 ~~air~~ router_2 -- pc_b; pings and database queries cross the air."""
    cfg, cap = wan_cfg(True, ["DELETE", "ENCRYPT"], cap_bytes)
    with _quiet():
        game = scenarios.build(cfg)
    net = game.simulation.network
    r1, r2 = net.get_node_by_hostname("router_1"), net.get_node_by_hostname("router_2")
    pc_a, pc_b = net.get_node_by_hostname("pc_a"), net.get_node_by_hostname("pc_b")
    A = rec.register_air(net.airspace, [r1.wireless_access_point, r2.wireless_access_point], [cap, cap], meta={"scenario": label})
    rec.wired_on = True
    log = []
    try:
        game.pre_timestep()
        game.advance_timestep()
        log.append(("ping", bool(pc_a.ping("192.168.2.2", pings=2))))
        client = pc_a.software_manager.software["database-client"]
        client.run()
        conn = client.get_new_connection()
        for step, q in enumerate(queries):
            game.pre_timestep()
            game.advance_timestep()
            ok = bool(conn.query(q)) if conn is not None else False
            log.append((q, ok))
            if step % 3 == 1:
                log.append(("ping_back", bool(pc_b.ping("192.168.0.2", pings=1))))
            if step % 4 == 3:
                for idx, w in enumerate(A["ifs"], start=1):
                    st = w.describe_state()
                    rec.aev(A, "Describe", i=idx, has="nmne" in st, rep=rows_of(st.get("nmne", {}), A["by"]))
                rec.describe_wired(net)
        # the far access point goes away and comes back
        resp = game.simulation.apply_request(["network", "node", "router_2", "network_interface", 1, "disable"])
        rec.aev(A, "SetEnabled", i=2, want=False, ok=resp.status == "success")
        log.append(("ping_disabled", bool(pc_a.ping("192.168.2.2", pings=1))))
        resp = game.simulation.apply_request(["network", "node", "router_2", "network_interface", 1, "enable"])
        rec.aev(A, "SetEnabled", i=2, want=True, ok=resp.status == "success")
        game.pre_timestep()
        game.advance_timestep()
        log.append(("ping_again", bool(pc_a.ping("192.168.2.2", pings=1))))
        rec.describe_wired(net)
    finally:
        rec.wired_on = False
    trs = rec.take(stimulus={"scenario": label, "queries": queries, "cap_bytes": cap})
    for t in trs:
        t["meta"]["log"] = [list(x) for x in log]
        t["meta"]["scenario"] = label
    return trs


# ---------------------------------------------------------------------------------------------------------


def sig_fn(tr, event, stuck):
    meta = tr.get("meta") or {}
    sig: Dict[str, Any] = {"kind": meta.get("kind")}
    sig["iface_class"] = meta.get("iface_class") if meta.get("kind") == "wired" else "WirelessAccessPoint"
    fail = set((stuck or {}).get("fail") or [])
    if fail & {"CountedOnceInItsDirectionUnderItsKey", "OnlyKeywordFramesCount"}:
        sig["direction"] = "outbound" if event.get("ev") in ("Begin", "WiredOut") else "inbound"
        sig["accepted"] = bool(event.get("acc")) if sig["direction"] == "inbound" else True
    return sig


def main(tier: str, seed: int) -> int:
    chk = common.Check(PROP, "model_checking", tier, seed)
    rng = random.Random(seed)
    quick = tier == "quick"

    # (a) the model (TLC runs in the background while the behaviours are replayed)
    from concurrent.futures import ThreadPoolExecutor

    pool = ThreadPoolExecutor(max_workers=6)
    fut_mc = pool.submit(tlc.mc, "MC_AirNmne")
    fut_neg = pool.submit(tlc.mc, "MC_AirNmne", "MC_AirNmneAsCoded.cfg")
    fut_deep = None if quick else pool.submit(tlc.mc, "MC_AirNmne", "MC_AirNmneDeep.cfg")

    # (b) behaviours of the model as stimulus
    num = 50 if quick else 700
    fut_sim = pool.submit(tlc.simulate, "MC_AirNmne", "MC_AirNmneSim.cfg", num, 30 if quick else 45, seed + 1)
    common.boot()
    behs, info = fut_sim.result()
    chk.cov["transitions"] += info["states"]
    rec = Recorder()
    rec.install()
    traces: List[Dict[str, Any]] = []
    for beh in behs:
        conf = conf_of(beh[0]["state"])
        ops = ops_of(beh)
        for avoid in (False, True):
            tr = run_rig(rec, conf, ops, avoid)
            traces.append(tr)
        chk.add_case({"conf": conf, "ops": ops}, nontrivial=any(o["op"] == "send" for o in ops))
    for conf, ops in directed():
        for avoid in (False, True):
            traces.append(run_rig(rec, conf, ops, avoid))
        chk.add_case({"conf": conf, "ops": ops})
    n_rig = len(traces)

    # (e) scenario scale
    scen: List[Dict[str, Any]] = []
    scen += run_shipped(rec, "data_manipulation.yaml", 70 if quick else 200, rng, random_actions=False)
    scen += run_shipped(rec, "data_manipulation.yaml", 60 if quick else 200, rng, random_actions=True)
    if not quick:
        scen += run_shipped(rec, "uc7_config.yaml", 120, rng, random_actions=False)
    benign = ["SELECT", "INSERT", "SELECT", "SELECT", "UPDATE", "SELECT"] * (1 if quick else 4)
    hostile = ["SELECT", "DELETE", "SELECT", "ENCRYPT", "DELETE", "SELECT"] * (1 if quick else 4)
    scen += run_wan(rec, "wireless_wan(benign queries)", benign, None, rng)
    scen += run_wan(rec, "wireless_wan(benign queries, tight air)", benign, 2500, rng)
    scen += run_wan(rec, "wireless_wan(DELETE/ENCRYPT queries)", hostile, None, rng)
    traces += scen
    tracer.unwrap_all()

    # (d) TLC judges: rig traces and scenario-scale traces, each with its own binding self-test (the one of the
    # scenario-scale traces runs beside the judging of the rig traces, on a stand-in for the evidence record)
    import types

    rig = traces[:n_rig]
    fut_rig = pool.submit(tlc.validate, "AirNmneTrace", rig, None, 1200, tlc.SPEC, 60)
    fut_scen = pool.submit(tlc.validate, "AirNmneTrace", scen, None, 1200, tlc.SPEC, 40)
    res_rig, res_scen = fut_rig.result(), fut_scen.result()
    # self-test of the scenario-scale traces: the runs of the wireless WAN (air space trace with nested replies and
    # the wired interfaces around it); the long single-interface traces of the shipped scenarios are almost only
    # frames without keyword, which no NMNE clause can tell apart
    stand_in = types.SimpleNamespace(seed=seed, cov={})
    wan_ix = [k for k, t in enumerate(scen) if str((t.get("stimulus") or {}).get("scenario", "")).startswith("wireless_wan")]
    fut_st = pool.submit(common.binding_selftest, stand_in, "AirNmneTrace", [scen[k] for k in wan_ix],
                         {"results": [res_scen["results"][k] for k in wan_ix]}, 2 if quick else 6)
    common.judge_traces(chk, "AirNmne", rig, res_rig, sig_fn, label="rig", selftest="AirNmneTrace")
    fut_st.result()
    st = chk.cov.setdefault("binding_selftest", {})
    st["AirNmneTrace(rig)"] = st.pop("AirNmneTrace", None)
    st["AirNmneTrace(scenario scale)"] = stand_in.cov.get("binding_selftest", {}).get("AirNmneTrace")
    common.judge_traces(chk, "AirNmne", scen, res_scen, sig_fn, label="scenario")
    res = {"results": res_rig["results"] + res_scen["results"]}

    r = fut_mc.result()
    if not r["ok"]:
        chk.violation({"module": "MC_AirNmne", "clause": str(r["violation"])}, {"tlc": r["output_tail"]})
    chk.add_mc("MC_AirNmne(3 interfaces, 2 frequencies, sizes 1..2, 4 stimuli, nesting 2, 8 configurations)", r)
    for act in MC_ACTIONS:
        if r["coverage"].get(act, (0, 0))[1] == 0:
            raise tlc.TLCError(f"vacuous model: action {act} never taken")
    neg = fut_neg.result()
    if neg["ok"] or neg["violation"] != ("invariant", "CountedOncePerFrame"):
        raise tlc.TLCError("negative configuration MC_AirNmneAsCoded (access point without inbound capture) was not refuted")
    chk.cov["negative_model"] = {"MC_AirNmneAsCoded": "CountedOncePerFrame refuted as required",
                                 "distinct_states": neg["distinct"], "depth": neg["depth"]}
    if fut_deep is not None:
        rd = fut_deep.result()
        if not rd["ok"]:
            chk.violation({"module": "MC_AirNmneDeep", "clause": str(rd["violation"])}, {"tlc": rd["output_tail"]})
        chk.add_mc("MC_AirNmneDeep(5 stimuli)", rd)
    pool.shutdown()

    # vacuity guards and what was exercised
    accepted = sum(1 for (reached, length) in res["results"] if reached == length + 1)
    per_event = chk.cov.get("impl_events", {})
    recorded: Dict[str, int] = {}
    mal = {"Begin": 0, "Deliver": 0, "WiredOut": 0, "WiredIn": 0}
    for tr in traces:
        kwset = set(tr["cfg"]["kws"]) if tr["cfg"]["capture"] else set()
        for e in tr["ev"]:
            recorded[e["ev"]] = recorded.get(e["ev"], 0) + 1
            if e["ev"] in mal and kwset & set(e["fr"]["kw"]):
                mal[e["ev"]] += 1
    chk.cov["events_recorded"] = recorded
    chk.cov["events_accepted_by_tlc"] = dict(per_event)
    chk.cov["malicious_frames_seen"] = mal
    chk.cov["traces"] = {"rig(behaviours+directed, asis+avoid)": n_rig, "scenario_scale": len(scen), "accepted": accepted,
                         "total": len(traces)}
    chk.cov["scenario_scale"] = [
        {"scenario": (t.get("stimulus") or {}).get("scenario"), "kind": t["meta"].get("kind"),
         "iface": f"{t['meta'].get('node', '')}:{t['meta'].get('port', '')}" if t["meta"].get("kind") == "wired" else "air space",
         "events": len(t["ev"])} for t in scen][:60]
    if accepted == 0:
        raise RuntimeError("no recorded trace was accepted by TLC")
    for ev in EVENTS:
        if per_event.get(ev, 0) == 0:
            raise RuntimeError(f"vacuous binding: no {ev} event of the real code was accepted by TLC")
    for k, v in mal.items():
        if v == 0:
            raise RuntimeError(f"vacuous binding: no {k} event carried a configured keyword")
    for tr in (traces[0], traces[n_rig - 1], scen[0] if scen else traces[0]):
        chk.sample({"cfg": tr["cfg"], "meta": {k: v for k, v in tr["meta"].items() if k != "log"}, "events": tr["ev"][:5]})
    chk.assumptions += [
        "sizes are bytes (frame.size; the simulator's Mbit = 131072 bytes); the capacity of a frequency is the one written "
        "in the scenario file (airspace.frequency_max_capacity_mbps), not the one read back from the AirSpace object",
        "'received' = AirSpace.transmit invoked the interface's receive_frame; 'accepted' = the interface passed the frame to "
        "its node (addressed to it or broadcast); whether an interface counts a frame it ignores is left free",
        "a frame refused by send_frame (disabled / over capacity) is not a network event: nothing may be counted for it",
        "the keywords a payload contains are computed by the harness as substring test on str(frame.payload)",
        "nodes use start_up/shut_down duration 0; every access point sits on its own wireless router",
        "variant 'avoid' of each behaviour addresses keyword frames to a MAC nobody owns, to keep away from the access point's "
        "missing inbound capture (divergence found on the unchanged tree) so that it does not mask the rest",
        "wired interfaces (shipped scenarios) are validated one trace per interface, NMNE clauses only",
    ]
    return chk.finish()
