"""Extension (beyond the listed properties): the red applications as stage machines against spec/RedApps.tla.

DataManipulationBot, RansomwareScript and the DatabaseClient they use on one host, DoSBot on a second host, a
DatabaseService on a third.  (a) MC_RedApps is checked exhaustively (all applications on few configurations, each
side alone on every configuration, two as-coded variants that TLC must refute); (b) TLC -simulate behaviours of the
three models are replayed as stimulus (execute requests / Python API, ticks, run / close, node power, configure,
service stop / start, database repair, rebuild = episode reset) on real objects built by PrimaiteGame.from_config;
(c) one event per RedApps action is recorded at the return of the real call with the projection read from the real
objects (tracer.wrap on the application loops and their phase methods, Application.run / close, tracer.watch on the
node's operating state); (d) TLC validates the histories against RedAppsTrace.tla; (e) the shipped scenario
data_manipulation.yaml is stepped through PrimaiteGymEnv with random defender actions (and episode resets) and the
history of each client's bot is validated by the same trace specification (strict = FALSE: the network between client
and service and the other agents are environment).  Run: ./check EXT-redapps"""
from __future__ import annotations

import copy
import random
from typing import Any, Dict, List, Optional

from . import common, scenarios, tlc, tracer

PROP = "EXT-redapps"
REAL = {"dm": "data-manipulation-bot", "rw": "ransomware-script", "dos": "dos-bot", "dbc": "database-client"}
ROLE = {v: k for k, v in REAL.items()}
HOST_OF = {"dm": "h1", "rw": "h1", "dbc": "h1", "dos": "h2"}
SRV_IP = "192.168.1.2"
ACTIONS = ["DmBegin", "DmLogon", "DmScan", "DmManip", "DmEnd", "RwBegin", "RwEncrypt", "RwEnd", "DosBegin", "DosScan",
           "DosAttack", "DosEnd", "Run", "Close", "NodeSet", "Configure", "Reach", "DbFix", "ExecCall", "Exec", "Tick",
           "Reset", "Env"]
MC_ACTIONS = ["MDmBegin", "MDmLogon", "MDmScan", "MDmManip", "MDmEnd", "MRwBegin", "MRwEncrypt", "MRwEnd", "MDosBegin",
              "MDosScan", "MDosAttack", "MDosEnd", "MRun", "MClose", "MNodeSet", "MConfigure", "MReach", "MDbFix",
              "MExecCall", "MExec", "MTick", "MReset"]
ENV_FIELDS = ("on", "app", "tgt", "db", "reach")


# ---------------------------------------------------------------------------------------------------------------
# recorder
# ---------------------------------------------------------------------------------------------------------------
class Ctx:
    """One recorded history: the applications of host h1 (dm, rw, dbc) and h2 (dos) against the service on srv."""

    def __init__(self, h1: str, h2: Optional[str], srv: str, cfg: Dict[str, Any]):
        self.hosts = {"h1": h1, "h2": h2}
        self.srv = srv
        self.cfg = cfg
        self.ev: List[Dict[str, Any]] = []
        self.last: Optional[Dict[str, Any]] = None
        self.building = True
        self.stack: List[str] = []  # loops in progress (roles)

    def role_of_host(self, hostname: str) -> Optional[str]:
        for k, v in self.hosts.items():
            if v == hostname:
                return k
        return None


class Recorder:
    def __init__(self):
        self.ctxs: List[Ctx] = []
        self.nodes: Dict[str, Any] = {}
        self.installed = False

    # -- projection of the real objects ---------------------------------------------------------------------
    def _sw(self, ctx: Ctx, role: str):
        node = self.nodes.get(ctx.hosts[HOST_OF[role]] or "")
        if node is None:
            return None
        return node.software_manager.software.get(REAL[role])

    def proj(self, ctx: Ctx, on_override: Optional[Dict[str, bool]] = None) -> Dict[str, Any]:
        from primaite.simulator.network.hardware.node_operating_state import NodeOperatingState as NOS

        fresh = ctx.cfg["app0"]
        on = {}
        for h in ("h1", "h2"):
            node = self.nodes.get(ctx.hosts[h] or "")
            on[h] = True if node is None else node.operating_state == NOS.ON
        if on_override:
            on.update(on_override)
        sw = {r: self._sw(ctx, r) for r in REAL}
        app = {}
        for r, s in sw.items():
            if s is None:
                app[r] = fresh[r] if ctx.building else "ABSENT"
            else:
                app[r] = "RUNNING" if s.operating_state.name == "RUNNING" else "CLOSED"
        dm, rw, dos = sw["dm"], sw["rw"], sw["dos"]
        tgt = {
            "dm": bool(dm.server_ip_address and dm.payload) if dm is not None else bool(ctx.cfg["tgt"]["dm"]),
            "rw": bool(rw.server_ip_address and rw.payload) if rw is not None else bool(ctx.cfg["tgt"]["rw"]),
            "dos": bool(dos.target_ip_address and dos.target_port) if dos is not None else bool(ctx.cfg["tgt"]["dos"]),
        }
        srv = self.nodes.get(ctx.srv)
        dbs = srv.software_manager.software.get("database-service") if srv is not None else None
        db = "GOOD"
        reach = False
        if dbs is not None:
            f = dbs.db_file
            db = "MISSING" if f is None else f.health_status.name
            reach = (not ctx.building) and srv.operating_state == NOS.ON and dbs.operating_state.name == "RUNNING"
        return {
            "on": on,
            "app": app,
            "tgt": tgt,
            "dmStage": dm.attack_stage.name if dm is not None else "NOT_STARTED",
            "dosStage": dos.attack_stage.name if dos is not None else "NOT_STARTED",
            "conn": {"dm": bool(getattr(dm, "_db_connection", None)) if dm is not None else False,
                     "rw": bool(getattr(rw, "_db_connection", None)) if rw is not None else False},
            "dosConns": len(dos.client_connections) if dos is not None else 0,
            "db": db,
            "reach": reach,
        }

    # -- events ---------------------------------------------------------------------------------------------
    def emit(self, ctx: Ctx, ev: str, a: str = "", h: str = "", b: bool = False, off: bool = False, ok: bool = False):
        s = self.proj(ctx)
        ctx.ev.append({"ev": ev, "a": a, "h": h, "b": bool(b), "off": bool(off), "ok": bool(ok), "s": s})
        ctx.last = s

    def sync(self, ctx: Ctx, on_override: Optional[Dict[str, bool]] = None):
        """Something this module does not own changed the projection since the last event: an Env event."""
        if ctx.last is None or ctx.stack:
            return
        cur = self.proj(ctx, on_override)
        if cur != ctx.last:
            ctx.ev.append({"ev": "Env", "a": "", "h": "", "b": False, "off": False, "ok": False, "s": cur})
            ctx.last = cur

    def sync_all(self):
        for c in self.ctxs:
            self.sync(c)

    def owner(self, app) -> Optional[tuple]:
        try:
            hostname = app.software_manager.node.config.hostname
            name = app.name
        except Exception:  # noqa
            return None
        role = ROLE.get(name)
        if role is None:
            return None
        for c in self.ctxs:
            if c.hosts[HOST_OF[role]] == hostname:
                return c, role
        return None

    # -- wrappers -------------------------------------------------------------------------------------------
    def install(self):
        if self.installed:
            return
        self.installed = True
        from primaite.simulator.network.hardware.base import Node
        from primaite.simulator.network.hardware.node_operating_state import NodeOperatingState as NOS
        from primaite.simulator.system.applications.application import Application
        from primaite.simulator.system.applications.red_applications.data_manipulation_bot import DataManipulationBot
        from primaite.simulator.system.applications.red_applications.dos_bot import DoSBot
        from primaite.simulator.system.applications.red_applications.ransomware_script import RansomwareScript
        from primaite.simulator.system.core.software_manager import SoftwareManager

        rec = self

        def see_node(sm, *a, **k):
            try:
                rec.nodes[sm.node.config.hostname] = sm.node
            except Exception:  # noqa
                pass

        tracer.wrap(SoftwareManager, "install", before=see_node)

        def before_plain(app, *a, **k):
            o = rec.owner(app)
            if o:
                rec.sync(o[0])
            return o

        def simple(evname, with_ok=False):
            def after(app, o, ret, exc, *a, **k):
                if not o:
                    return
                ctx, role = o
                if exc is not None:
                    rec.emit(ctx, "Raised", a=role)
                    return
                rec.emit(ctx, evname, a=role, ok=bool(ret) if with_ok else False)

            return after

        tracer.wrap(Application, "run", before=before_plain, after=simple("Run"))
        tracer.wrap(Application, "close", before=before_plain, after=simple("Close"))

        def loop(prefix):
            def before(app, *a, **k):
                o = rec.owner(app)
                if o:
                    ctx, role = o
                    rec.sync(ctx)
                    rec.emit(ctx, prefix + "Begin", a=role)
                    ctx.stack.append(role)
                return o

            def after(app, o, ret, exc, *a, **k):
                if not o:
                    return
                ctx, role = o
                if ctx.stack:
                    ctx.stack.pop()
                if exc is not None:
                    rec.emit(ctx, "Raised", a=role)
                    return
                rec.emit(ctx, prefix + "End", a=role, ok=bool(ret))

            return before, after

        def phase(evname, with_ok=False):
            def before(app, *a, **k):
                return rec.owner(app)

            return before, simple(evname, with_ok)

        b, a = loop("Dm")
        tracer.wrap(DataManipulationBot, "_application_loop", before=b, after=a)
        for meth, evname in (("_logon", "DmLogon"), ("_perform_port_scan", "DmScan"), ("_perform_data_manipulation", "DmManip")):
            b, a = phase(evname)
            tracer.wrap(DataManipulationBot, meth, before=b, after=a)
        b, a = loop("Rw")
        tracer.wrap(RansomwareScript, "_application_loop", before=b, after=a)
        b, a = phase("RwEncrypt", with_ok=True)
        tracer.wrap(RansomwareScript, "_perform_ransomware_encrypt", before=b, after=a)
        b, a = loop("Dos")
        tracer.wrap(DoSBot, "_application_loop", before=b, after=a)
        for meth, evname in (("_perform_port_scan", "DosScan"), ("_perform_dos", "DosAttack")):
            b, a = phase(evname)
            tracer.wrap(DoSBot, meth, before=b, after=a)

        def node_state(node, name, old, new):
            try:
                hostname = node.config.hostname
            except Exception:  # noqa
                return
            if old == new:
                return
            for ctx in rec.ctxs:
                h = ctx.role_of_host(hostname)
                if h is None or rec.nodes.get(hostname) is not node:
                    continue
                was_on, is_on = old == NOS.ON, new == NOS.ON
                rec.sync(ctx, {h: was_on})
                rec.emit(ctx, "NodeSet", h=h, b=is_on, off=new == NOS.OFF)

        tracer.watch(Node, ["operating_state"], node_state)

    # -- harness-side events --------------------------------------------------------------------------------
    def begin_build(self, ctxs: List[Ctx], first: bool):
        """A game is (re)built from the configuration: the Reset action (not recorded for the very first build,
        whose state is the initial state of the specification)."""
        for c in ctxs:
            if not first:
                self.sync(c)
        self.nodes.clear()
        for c in ctxs:
            c.building = True
            c.stack.clear()
            if first:
                c.last = self.proj(c)
            else:
                self.emit(c, "Reset")

    def end_build(self, ctxs: List[Ctx]):
        for c in ctxs:
            c.building = False
            if self.proj(c)["reach"]:
                self.emit(c, "Reach", b=True)
            else:
                self.sync(c)


REC = Recorder()


# ---------------------------------------------------------------------------------------------------------------
# small-scale replay of TLC behaviours
# ---------------------------------------------------------------------------------------------------------------
def net_cfg(c: Dict[str, Any]) -> Dict[str, Any]:
    """srv -- sw -- h1, h2 with the applications of configuration c (spec configuration record)."""
    z = {"start_up_duration": 0, "shut_down_duration": 0}
    srv = scenarios.host("srv", SRV_IP, "server", **z)
    srv["services"] = [{"type": "database-service", "options": {}}]
    h1 = scenarios.host("h1", "192.168.1.3", "computer", **z)
    apps = []
    if c["app0"]["dbc"] != "ABSENT":
        apps.append({"type": "database-client", "options": {"db_server_ip": SRV_IP}})
    if c["app0"]["dm"] != "ABSENT":
        o = {"payload": c["dmPayload"], "port_scan_p_of_success": c["pScan"] / 100.0,
             "data_manipulation_p_of_success": c["pAtk"] / 100.0, "repeat": c["dmRepeat"]}
        if c["tgt"]["dm"]:
            o["server_ip"] = SRV_IP
        apps.append({"type": "data-manipulation-bot", "options": o})
    if c["app0"]["rw"] != "ABSENT":
        apps.append({"type": "ransomware-script", "options": {"server_ip": SRV_IP} if c["tgt"]["rw"] else {}})
    h1["applications"] = apps
    h2 = scenarios.host("h2", "192.168.1.4", "computer", **z)
    if c["app0"]["dos"] != "ABSENT":
        o = {"repeat": c["dosRepeat"], "port_scan_p_of_success": c["dosP"] / 100.0, "dos_intensity": c["dosInt"] / 100.0,
             "max_sessions": c["dosMax"]}
        if c["tgt"]["dos"]:
            o["target_ip_address"] = SRV_IP
        h2["applications"] = [{"type": "dos-bot", "options": o}]
    nodes = [srv, h1, h2, {"hostname": "sw", "type": "switch", "num_ports": 4}]
    links = [scenarios.link("srv", 1, "sw", 1), scenarios.link("h1", 1, "sw", 2), scenarios.link("h2", 1, "sw", 3)]
    return scenarios.base_cfg(nodes, links)


def cfg_of_state(st: Dict[str, Any]) -> Dict[str, Any]:
    return {
        "pScan": st["pScan"], "pAtk": st["pAtk"], "dmRepeat": st["dmRepeat"], "dmPayload": st["dmPayload"],
        "dosP": st["dosP"], "dosRepeat": st["dosRepeat"], "dosMax": st["dosMax"], "dosInt": st["dosInt"],
        "hasClient": st["hasClient"], "strict": True,
        "tgt": {k: bool(v) for k, v in st["cfgTgt"].items()},
        "app0": dict(st["app0"]),
    }


def stimulus_of(beh: List[Dict[str, Any]], rng: random.Random) -> List[List[Any]]:
    """The steps of a TLC behaviour that are calls from outside (what the model does in between is the code's
    business)."""
    acts = [st["state"]["act"] for st in beh[1:]]
    out: List[List[Any]] = []
    for i, a in enumerate(acts):
        k = a[0]
        if k == "DmBegin":
            out.append(["exec", "dm", rng.choice(["req", "api"])])
        elif k == "RwBegin":
            out.append(["exec", "rw", rng.choice(["req", "api"])])
        elif k == "DosBegin":
            out.append(rng.choice([["exec", "dos", "req"], ["exec", "dos", "api"], ["tick"]]))
        elif k == "Tick":
            out.append(["tick"])
        elif k == "Run":
            out.append(["run", a[1]])
        elif k == "Close":
            # sometimes leave the application running so that a following shutdown has something to close
            nxt = acts[i + 1] if i + 1 < len(acts) else None
            if nxt and nxt[0] in ("Close", "NodeSet") and rng.random() < 0.5:
                continue
            out.append(["close", a[1]])
        elif k == "NodeSet":
            out.append(["power", a[1], bool(a[2])])
        elif k == "Configure":
            out.append(["configure", a[1], bool(a[2])])
        elif k == "Reach":
            out.append(["service", bool(a[1])])
        elif k == "DbFix":
            out.append(["dbfix"])
        elif k == "Reset":
            out.append(["reset"])
    return out


class Rig:
    """Real objects of one small-scale trace."""

    def __init__(self, c: Dict[str, Any]):
        self.c = c
        self.ctx = Ctx("h1", "h2", "srv", c)
        REC.ctxs = [self.ctx]
        self.netcfg = net_cfg(c)
        self.game = None
        self.build(first=True)

    def build(self, first: bool):
        REC.begin_build([self.ctx], first)
        try:
            self.game = scenarios.build(self.netcfg)
        except Exception as ex:  # noqa
            self.ctx.ev.append({"ev": "Raised", "a": type(ex).__name__[:40], "h": "", "b": False, "off": False,
                                "ok": False, "s": REC.proj(self.ctx)})
            raise
        REC.end_build([self.ctx])

    def sw(self, role: str):
        return REC._sw(self.ctx, role)

    def req(self, r: List[Any]) -> bool:
        resp = self.game.simulation.apply_request(["network", "node"] + r)
        return resp.status == "success"

    def do(self, s: List[Any]):
        from ipaddress import IPv4Address

        ctx, c = self.ctx, self.c
        REC.sync(ctx)
        k = s[0]
        if k == "exec":
            role, how = s[1], s[2]
            app = self.sw(role)
            if app is None:
                return
            REC.emit(ctx, "ExecCall", a=role)
            if how == "req":
                ok = self.req([HOST_OF[role], "application", REAL[role], "execute"])
            else:
                ok = bool(app.run() if role == "dos" else app.attack())
            REC.emit(ctx, "Exec", a=role, ok=ok)
        elif k == "tick":
            self.game.pre_timestep()
            self.game.advance_timestep()
            REC.sync(ctx)
            REC.emit(ctx, "Tick")
        elif k == "run":
            app = self.sw(s[1])
            if app is not None:
                app.run()
        elif k == "close":
            if self.sw(s[1]) is not None:
                self.req([HOST_OF[s[1]], "application", REAL[s[1]], "close"])
        elif k == "power":
            self.req([s[1], "startup" if s[2] else "shutdown"])
        elif k == "configure":
            role, t = s[1], s[2]
            app = self.sw(role)
            if app is None:
                return
            ip = IPv4Address(SRV_IP) if t else None
            if role == "dm":
                app.configure(server_ip_address=ip, payload=c["dmPayload"], port_scan_p_of_success=c["pScan"] / 100.0,
                              data_manipulation_p_of_success=c["pAtk"] / 100.0, repeat=c["dmRepeat"])
            elif role == "rw":
                if not self.req(["h1", "application", REAL["rw"], "configure", {"server_ip_address": SRV_IP} if t else {}]):
                    return  # refused before it reached the application (node not ON): nothing happened
            else:
                app.configure(target_ip_address=ip, repeat=c["dosRepeat"], port_scan_p_of_success=c["dosP"] / 100.0,
                              dos_intensity=c["dosInt"] / 100.0, max_sessions=c["dosMax"])
            REC.emit(ctx, "Configure", a=role, b=t)
        elif k == "service":
            self.req(["srv", "service", "database-service", "start" if s[1] else "stop"])
            REC.emit(ctx, "Reach", b=REC.proj(ctx)["reach"])
        elif k == "dbfix":
            from primaite.simulator.file_system.file_system_item_abc import FileSystemItemHealthStatus as H

            dbs = REC.nodes["srv"].software_manager.software["database-service"]
            dbs.db_file.health_status = H.GOOD
            dbs._return_database_folder().health_status = H.GOOD
            REC.emit(ctx, "DbFix")
        elif k == "reset":
            self.build(first=False)


def run_behaviour(c: Dict[str, Any], stim: List[List[Any]], seed: int) -> Dict[str, Any]:
    random.seed(seed)
    tr = {"cfg": c, "ev": None, "meta": {"seed": seed, "kind": "replay"}, "stimulus": {"cfg": c, "seed": seed, "steps": stim}}
    rig = None
    try:
        rig = Rig(c)
        for s in stim:
            try:
                rig.do(s)
            except Exception as ex:  # noqa  an exception out of repository code is an event no module allows
                rig.ctx.stack.clear()
                rig.ctx.ev.append({"ev": "Raised", "a": type(ex).__name__[:40], "h": "", "b": False, "off": False,
                                   "ok": False, "s": REC.proj(rig.ctx)})
                break
    except Exception:  # noqa  (build failure: recorded as Raised by Rig.build)
        pass
    tr["ev"] = REC.ctxs[0].ev
    return tr


DIRECTED = [
    # service stopped with a cached connection, repair, no client / closed client before any connection exists
    [["close", "dbc"], ["exec", "dm", "req"], ["exec", "rw", "api"], ["run", "dbc"], ["exec", "dm", "req"], ["exec", "rw", "req"],
     ["dbfix"], ["service", False], ["exec", "dm", "api"], ["exec", "rw", "req"], ["service", True], ["exec", "dm", "req"],
     ["exec", "rw", "req"], ["dbfix"], ["exec", "dm", "req"], ["exec", "dm", "req"], ["tick"], ["exec", "rw", "api"]],
    # gates of the loop: no target, application closed, node off, reset
    [["configure", "dm", False], ["exec", "dm", "req"], ["configure", "dm", True], ["close", "dm"], ["exec", "dm", "api"],
     ["power", "h1", False], ["exec", "dm", "req"], ["exec", "dm", "api"], ["exec", "rw", "api"], ["power", "h1", True],
     ["exec", "dm", "req"], ["tick"], ["exec", "rw", "req"], ["reset"], ["exec", "dm", "req"], ["exec", "rw", "req"]],
    [["exec", "dos", "req"], ["tick"], ["tick"], ["configure", "dos", False], ["tick"], ["configure", "dos", True], ["tick"],
     ["close", "dos"], ["tick"], ["exec", "dos", "api"], ["power", "h2", False], ["tick"], ["exec", "dos", "req"],
     ["power", "h2", True], ["tick"], ["service", False], ["tick"], ["reset"], ["tick"], ["exec", "dos", "req"]],
    # the database client is closed while the bots hold connection handles
    [["exec", "dm", "req"], ["exec", "rw", "req"], ["dbfix"], ["close", "dbc"], ["exec", "dm", "req"], ["dbfix"],
     ["exec", "rw", "api"], ["run", "dbc"], ["exec", "dm", "req"]],
    [["exec", "rw", "req"], ["dbfix"], ["close", "dbc"], ["exec", "rw", "req"], ["run", "dbc"], ["exec", "rw", "req"]],
]


def directed_cfgs() -> List[Dict[str, Any]]:
    out = []
    for ps, pa, rep, pl, hc in ((100, 100, True, "DELETE", True), (100, 100, False, "ENCRYPT", True), (0, 100, True, "DELETE", True),
                                (100, 0, False, "DELETE", True), (100, 100, True, "ENCRYPT", False), (50, 50, True, "DELETE", True)):
        for pd, dr, mx, di in ((100, True, 3, 100), (100, False, 2, 50), (0, True, 2, 100), (50, False, 0, 100)):
            out.append({"pScan": ps, "pAtk": pa, "dmRepeat": rep, "dmPayload": pl, "dosP": pd, "dosRepeat": dr, "dosMax": mx,
                        "dosInt": di, "hasClient": hc, "strict": True, "tgt": {"dm": True, "rw": True, "dos": True},
                        "app0": {"dm": "CLOSED", "rw": "CLOSED", "dos": "CLOSED", "dbc": "CLOSED" if hc else "ABSENT"}})
    return out


# ---------------------------------------------------------------------------------------------------------------
# scenario scale
# ---------------------------------------------------------------------------------------------------------------
def scenario_traces(name: str, steps: int, episodes: int, seed: int) -> List[Dict[str, Any]]:
    """Step a shipped scenario through PrimaiteGymEnv with random defender actions; one history per client host that
    carries a data manipulation bot."""
    import numpy as np
    from primaite.session.environment import PrimaiteGymEnv

    cfg = scenarios.shipped(name)
    io = cfg.setdefault("io_settings", {})
    for k in ("save_agent_actions", "save_step_metadata", "save_pcap_logs", "save_sys_logs", "save_agent_logs"):
        io[k] = False
    ctxs = []
    srv = None
    for n in cfg["simulation"]["network"]["nodes"]:
        if any(s.get("type") == "database-service" for s in n.get("services", []) or []):
            srv = n["hostname"]
    for n in cfg["simulation"]["network"]["nodes"]:
        apps = {a["type"]: a.get("options", {}) for a in n.get("applications", []) or []}
        if "data-manipulation-bot" not in apps:
            continue
        o = apps["data-manipulation-bot"]

        def pct(x):
            return 100 if x >= 1.0 else (0 if x <= 0.0 else 50)

        c = {"pScan": pct(o.get("port_scan_p_of_success", 0.1)), "pAtk": pct(o.get("data_manipulation_p_of_success", 0.1)),
             "dmRepeat": bool(o.get("repeat", True)), "dmPayload": o.get("payload", "DELETE"),
             "dosP": 50, "dosRepeat": False, "dosMax": 0, "dosInt": 100,
             "hasClient": "database-client" in apps, "strict": False,
             "tgt": {"dm": "server_ip" in o, "rw": False, "dos": False},
             "app0": {"dm": "CLOSED", "rw": "CLOSED" if "ransomware-script" in apps else "ABSENT", "dos": "ABSENT",
                      "dbc": "CLOSED" if "database-client" in apps else "ABSENT"}}
        ctxs.append(Ctx(n["hostname"], None, srv, c))
    if not ctxs or srv is None:
        return []
    REC.ctxs = ctxs
    random.seed(seed)
    rng = np.random.default_rng(seed)
    raised = None
    try:
        REC.begin_build(ctxs, first=True)
        env = PrimaiteGymEnv(env_config=copy.deepcopy(cfg))
        REC.end_build(ctxs)
        n_act = env.action_space.n
        for ep in range(episodes):
            if ep:
                REC.begin_build(ctxs, first=False)
                env.reset()
                REC.end_build(ctxs)
            for _ in range(steps):
                # first episode: the defender does nothing (scripted red / green agents only); later episodes: a random
                # defender action every fourth step or so (a busier defender switches the clients off for good)
                a = int(rng.integers(0, n_act)) if ep and rng.random() < 0.25 else 0
                env.step(a)
                for c in ctxs:
                    REC.sync(c)
                    REC.emit(c, "Tick")
        env.close()
    except Exception as ex:  # noqa
        raised = type(ex).__name__
        for c in ctxs:
            c.stack.clear()
            c.ev.append({"ev": "Raised", "a": raised[:40], "h": "", "b": False, "off": False, "ok": False, "s": REC.proj(c)})
    out = []
    for c in ctxs:
        out.append({"cfg": c.cfg, "ev": c.ev, "meta": {"kind": "scenario", "scenario": name, "host": c.hosts["h1"], "seed": seed},
                    "stimulus": {"scenario": name, "host": c.hosts["h1"], "seed": seed, "steps": steps, "episodes": episodes}})
    return out


# ---------------------------------------------------------------------------------------------------------------
def sig_fn(tr, event, stuck):
    st = (stuck or {}).get("st") or {}
    pj = st.get("proj") if isinstance(st, dict) else None
    pj = pj if isinstance(pj, dict) else {}
    s = event.get("s") or {}
    sig = {"kind": tr["meta"]["kind"], "ev": event.get("ev")}
    if event.get("ev", "").startswith("Dm"):
        sig.update({"stage_before": pj.get("dmStage"), "stage_after": s.get("dmStage"),
                    "dbc": (pj.get("app") or {}).get("dbc"), "db_changed": pj.get("db") != s.get("db")})
    elif event.get("ev", "").startswith("Dos"):
        sig.update({"stage_before": pj.get("dosStage"), "stage_after": s.get("dosStage"), "repeat": tr["cfg"]["dosRepeat"]})
    elif event.get("ev", "").startswith("Rw"):
        sig.update({"ok": event.get("ok"), "dbc": (pj.get("app") or {}).get("dbc"), "db_changed": pj.get("db") != s.get("db")})
    else:
        sig.update({"a": event.get("a") or event.get("h")})
    return sig


def main(tier: str, seed: int) -> int:
    import time

    chk = common.Check(PROP, "model_checking", tier, seed)
    quick = tier == "quick"
    rng = random.Random(seed)
    t0 = time.time()
    phases: Dict[str, float] = {}

    def lap(name):
        nonlocal t0
        phases[name] = round(time.time() - t0, 1)
        t0 = time.time()

    # (a) exhaustive models and (b) behaviours, all TLC runs side by side while primaite is imported
    from concurrent.futures import ThreadPoolExecutor

    dm_cfg = "MC_RedAppsDmQ.cfg" if quick else "MC_RedAppsDm.cfg"
    mc_jobs = [("MC_RedApps.cfg", "dm+rw+dbc+dos together, 8 configurations, 7 steps outside the loops", None),
               (dm_cfg, "dm+rw+dbc alone, every configuration of the constant sets, unbounded", None),
               ("MC_RedAppsDos.cfg", "dos alone, 96 configurations, unbounded", None),
               ("MC_RedAppsAsCodedDos.cfg", "", "StageOrder"), ("MC_RedAppsAsCodedClient.cfg", "", "DbOnlyBySuccess")]
    n_all, n_dm, n_dos = (30, 26, 20) if quick else (360, 300, 200)
    depth = 60 if quick else 90
    sim_jobs = [("MC_RedApps.cfg", n_all), (dm_cfg, n_dm), ("MC_RedAppsDos.cfg", n_dos)]
    with ThreadPoolExecutor(max_workers=8) as ex:
        mc_f = [ex.submit(tlc.mc, "MC_RedApps", cfg=j[0], workers=4) for j in mc_jobs]
        sim_f = [ex.submit(tlc.simulate, "MC_RedApps", cfg=j[0], num=j[1], depth=depth, seed=seed + 41) for j in sim_jobs]
        common.boot()
        mc_r = [f.result() for f in mc_f]
        sim_r = [f.result() for f in sim_f]
    for (cfgname, label, want), r in zip(mc_jobs, mc_r):
        if want is None:
            if not r["ok"]:
                chk.violation({"module": cfgname[:-4], "clause": str(r["violation"])}, {"tlc": r["output_tail"]})
            chk.add_mc(f"{cfgname[:-4]}({label})", r)
        else:
            if r["ok"] or not r["violation"] or r["violation"][1] != want:
                raise tlc.TLCError(f"negative model {cfgname} was not refuted on {want}: {r['violation']}")
            chk.cov.setdefault("negative_models_refuted", {})[cfgname[:-4]] = want
    for act in MC_ACTIONS:
        if mc_r[0]["coverage"].get(act, (0, 0))[1] == 0:
            raise tlc.TLCError(f"vacuous model: action {act} never taken")
    lap("tlc_models_and_boot")
    behs: List[Any] = []
    for bb, info in sim_r:
        chk.cov["transitions"] += info["states"]
        behs += bb

    common.boot()
    REC.install()
    traces: List[Dict[str, Any]] = []
    for i, beh in enumerate(behs):
        c = cfg_of_state(beh[0]["state"])
        # a failed port scan of the DoS bot (possible whenever its probability is below 1.0, first while the game is
        # being built) ends in a divergence found on the unchanged tree; keep two thirds of the histories away from
        # that trigger so that it does not mask the rest of their behaviour (DESIGN.md 5.3)
        if c["app0"]["dos"] != "ABSENT" and c["dosP"] != 100 and i % 3:
            c["dosP"] = 100
        stim = stimulus_of(beh, rng)
        tr = run_behaviour(c, stim, seed * 100003 + i)
        traces.append(tr)
        chk.add_case({"cfg": c, "stim": stim}, nontrivial=any(s[0] == "exec" for s in stim))
    dcfgs = directed_cfgs()
    if quick:
        dcfgs = dcfgs[seed % 2::2]
    for j, c in enumerate(dcfgs):
        for d in DIRECTED:
            tr = run_behaviour(c, d, seed * 100003 + 50000 + j)
            tr["meta"]["kind"] = "directed"
            traces.append(tr)
            chk.add_case({"cfg": c, "stim": d})

    lap("replay")
    # (e) scenario scale
    sc_runs = [("data_manipulation.yaml", 100, 3, seed)] if quick else [("data_manipulation.yaml", 128, 3, seed + k) for k in range(4)]
    n_sc = 0
    for name, steps, episodes, sd in sc_runs:
        trs = scenario_traces(name, steps, episodes, sd)
        n_sc += len(trs)
        traces += trs
    if n_sc == 0:
        raise RuntimeError("no scenario-scale history recorded")
    tracer.unwrap_all()
    lap("scenario")

    # (d) TLC judges
    res = tlc.validate("RedAppsTrace", traces, chunk=24 if quick else 60, parallel=8)
    lap("validate")
    common.judge_traces(chk, "RedApps", traces, res, sig_fn, selftest="RedAppsTrace")
    lap("selftest_and_judge")
    chk.cov["phase_wall_s"] = phases

    # vacuity guards and statistics
    accepted = sum(1 for (reached, length) in res["results"] if reached == length + 1)
    per_event = chk.cov.get("impl_events", {})
    chk.cov["impl_events_total"] = sum(per_event.values())
    chk.cov["traces_accepted"] = accepted
    chk.cov["traces_by_kind"] = {k: sum(1 for t in traces if t["meta"]["kind"] == k) for k in ("replay", "directed", "scenario")}
    sc_ev: Dict[str, int] = {}
    for t, (reached, length) in zip(traces, res["results"]):
        if t["meta"]["kind"] == "scenario":
            for e in t["ev"][: max(0, reached - 1)]:
                sc_ev[e["ev"]] = sc_ev.get(e["ev"], 0) + 1
    chk.cov["scenario_events"] = sc_ev
    if accepted == 0:
        raise RuntimeError("no recorded history was accepted by RedAppsTrace")
    missing = [a for a in ACTIONS if per_event.get(a, 0) == 0]
    if missing:
        raise RuntimeError(f"actions of RedApps never exercised in the code: {missing}")
    if sc_ev.get("DmManip", 0) == 0:
        raise RuntimeError("the scenario-scale histories contain no data manipulation attack")
    for t in traces[:1] + [t for t in traces if t["meta"]["kind"] == "scenario"][:1]:
        chk.sample({"cfg": t["cfg"], "meta": t["meta"], "events": t["ev"][:5]})
    chk.assumptions += [
        "probabilities 0.0 / 1.0 give determined gates, every other value may go either way (recorded outcome decides)",
        "ATTACKING is transient inside one call: PORT_SCAN -> SUCCEEDED | FAILED in one step is accepted",
        "a host without DatabaseClient is outside the documented precondition of dm / rw: dm may report FAILED from any "
        "stage, the database must not change",
        "small scale: srv (DatabaseService, no password, 100 sessions) -- switch -- h1 (dbc, dm, rw), h2 (dos); node start-up / "
        "shut-down duration 0; reset = PrimaiteGame.from_config on the same configuration (what PrimaiteGymEnv.reset does)",
        "reach = the service is RUNNING on a node that is ON and the network is built; the applications run once while the "
        "game is being built (PrimaiteGame.from_config calls run()), before any link exists",
        "scenario scale (strict = FALSE): outcome of a delivered attack is free (routers / ACLs / other agents are not "
        "modelled), changes of power, software state, service availability and database file by other agents are Env events",
        "DbFix = the harness writes GOOD to the database file and folder (environment repair)",
    ]
    return chk.finish()
